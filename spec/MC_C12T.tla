------------------------------ MODULE MC_C12T ------------------------------
(***************************************************************************)
(* C12, second suite — run-time type tests: `if y: T = e', `while y: T = e' *)
(* and type arms of `match' run their body exactly when the RUN-TIME type   *)
(* of e matches T.  Grid: test type T x value (scalars, arrays with every   *)
(* kind of hidden element tag, tuples of different arity, structs of        *)
(* different width, nested, functions, cells) x construct; the value        *)
(* reaches the test through an `any' parameter so that nothing is known     *)
(* statically.  The same function value is also called repeatedly with a    *)
(* HISTORY of values (the same instruction sees different run-time types in *)
(* sequence), forwards and backwards.                                       *)
(* TypeTestLaw (on the specification): the machine's answer equals          *)
(* Types!Matches(TagOf(value), T) computed directly.                        *)
(***************************************************************************)
EXTENDS LangAst, Json, IOUtils

CONSTANT Chunks
VARIABLE row

IF_ == WMulti(<<WInt, WFloat>>)
StA == WStruct(<< <<"a", WInt>> >>)
StAB == WStruct(<< <<"a", WInt>>, <<"b", WInt>> >>)
TestTypes == <<WInt, WFloat, IF_, WStr, WVoid, WBool, WAny,
               WArr(WInt), WArr(WFloat), WArr(IF_), WArr(WAny), WArr(WNever), WArr(WArr(WInt)),
               WTup(<<WInt, WInt>>), WTup(<<WInt, WInt, WInt>>), WTup(<<WInt, WAny>>), WTup(<<WAny, WAny>>),
               WMulti(<<WTup(<<WInt, WInt>>), WTup(<<WInt, WInt, WInt>>)>>),
               StA, StAB, WStruct(<<>>), WFn(<<>>, WInt), WFn(<<WInt>>, WInt), WMut(WInt), WMut(IF_),
               WMulti(<<WInt, WArr(WInt)>>), WTup(<<WArr(WInt), WInt>>),
               \* a struct type next to another member / inside a tuple: matched by WIDER struct values
               WMulti(<<StA, WInt>>), WTup(<<StA, WInt>>),
               WArr(WTup(<<WInt, WInt>>))>>

\* an operation on the bound name y that only a value of the test type supports (parallel to TestTypes): the
\* selected branch USES the binder, so that a checker / folder that binds y to a value of another type goes wrong
Y == V("y")
TestUse == <<Bin("+", Y, I(1)), Bin("+", Y, F(1)), Y, Bin("+", Y, S(<<115>>)), Y, NotE(Y), Y,
             Bin("+", Y, ArrE(<<I(1)>>)), Bin("+", Y, ArrE(<<F(1)>>)), Bin("+", Y, Y), Bin("+", Y, Y), Y, Bin("+", Y, Y),
             Bin("+", TupAt(Y, 0), TupAt(Y, 1)), Bin("+", TupAt(Y, 0), TupAt(Y, 2)), Bin("+", TupAt(Y, 0), I(1)), TupAt(Y, 1),
             TupAt(Y, 1),
             Bin("+", Field(Y, "a"), I(1)), Bin("+", Field(Y, "a"), Field(Y, "b")), Y, Bin("+", CallE(Y, <<>>), I(1)), Bin("+", CallE(Y, <<I(1)>>), I(1)),
             Bin("+", Deref(Y), I(1)), Deref(Y),
             Y, Bin("+", TupAt(Y, 0), ArrE(<<TupAt(Y, 1)>>)),
             Y, Bin("+", Field(TupAt(Y, 0), "a"), TupAt(Y, 1)),
             Y>>
ASSUME Len(TestUse) = Len(TestTypes)
UseOf(ty) == TestUse[CHOOSE i \in 1..Len(TestTypes) : TestTypes[i] = ty]

\* value expressions (evaluated at top level, then passed through `any')
Vals == <<I(1), I(2), F(5), S(<<115>>), S(<<116>>), Unit, B(TRUE),
          ArrE(<<I(1)>>), ArrE(<<F(5)>>), ArrE(<<I(1), F(5)>>), ArrE(<<>>), ArrE(<<S(<<115>>)>>), ArrE(<<ArrE(<<I(1)>>)>>),
          Slice(Hide(WArr(IF_), ArrE(<<I(1), F(5)>>)), I(0), I(1), NoneV),      \* content int, fresh tag int
          Hide(WArr(IF_), ArrE(<<I(1)>>)),                                       \* literal tag int passed as [int|float]
          Bin("+", ArrE(<<I(1)>>), ArrE(<<F(5)>>)),                              \* tag int|float
          Bin("+", Hide(WArr(WInt), ArrE(<<I(1)>>)), Hide(WArr(IF_), ArrE(<<I(2), F(5)>>))),   \* left tag narrower than right
          Bin("+", Hide(WArr(IF_), ArrE(<<I(2), F(5)>>)), Hide(WArr(WInt), ArrE(<<I(1)>>))),
          RepE(I(7), I(0)),                                                       \* empty, tag int
          TupE(<<I(1), I(2)>>), TupE(<<I(1), I(2), I(3)>>), TupE(<<I(1), S(<<115>>)>>), TupE(<<I(1), F(5)>>),
          TupE(<<ArrE(<<I(1)>>), I(2)>>), TupE(<<ArrE(<<>>), I(2)>>),
          StructE(<< <<"a", I(1)>> >>), StructE(<< <<"a", I(1)>>, <<"b", I(2)>> >>), StructE(<<>>), StructE(<< <<"a", F(5)>> >>),
          FnE(<<>>, WInt, <<Ret(I(1))>>), FnE(<<P("q", WInt)>>, WInt, <<Ret(V("q"))>>), FnE(<<P("q", WAny)>>, WInt, <<Ret(I(1))>>),
          MutE(WInt, I(1)), MutE(IF_, I(1)),
          ArrE(<<ArrE(<<I(1)>>), ArrE(<<F(5)>>)>>), ArrE(<<ArrE(<<>>), ArrE(<<I(1)>>)>>), ArrE(<<TupE(<<I(2), I(3)>>), TupE(<<F(3), I(3)>>)>>),
          Hide(WMulti(<<StAB, WInt>>), StructE(<< <<"a", I(1)>>, <<"b", I(2)>> >>)),
          TupE(<<StructE(<< <<"a", I(1)>>, <<"b", I(2)>> >>), I(1)>>),
          Hide(WMulti(<<WTup(<<StAB, WInt>>), WInt>>), TupE(<<StructE(<< <<"a", I(1)>>, <<"b", I(2)>> >>), I(1)>>))>>
NV == Len(Vals)
\* the static type of each value expression: the typed forms pass the value through a parameter of exactly this type
\* (or this type | ()), so that the checker KNOWS a lot about the scrutinee and may decide tests early — it must
\* decide them the way the run-time test does (a struct with more fields matches a narrower struct type, ...)
ValTy == <<WInt, WInt, WFloat, WStr, WStr, WVoid, WBool,
           WArr(WInt), WArr(WFloat), WArr(IF_), WArr(WNever), WArr(WStr), WArr(WArr(WInt)),
           WArr(IF_), WArr(IF_), WArr(IF_), WArr(IF_), WArr(IF_), WArr(WInt),
           WTup(<<WInt, WInt>>), WTup(<<WInt, WInt, WInt>>), WTup(<<WInt, WStr>>), WTup(<<WInt, WFloat>>),
           WTup(<<WArr(WInt), WInt>>), WTup(<<WArr(WNever), WInt>>),
           StA, StAB, WStruct(<<>>), WStruct(<< <<"a", WFloat>> >>),
           WFn(<<>>, WInt), WFn(<<WInt>>, WInt), WFn(<<WAny>>, WInt), WMut(WInt), WMut(IF_),
           WArr(WMulti(<<WArr(WInt), WArr(WFloat)>>)), WArr(WMulti(<<WArr(WNever), WArr(WInt)>>)), WArr(WMulti(<<WTup(<<WInt, WInt>>), WTup(<<WFloat, WInt>>)>>)),
           WMulti(<<StAB, WInt>>), WTup(<<StAB, WInt>>), WMulti(<<WTup(<<StAB, WInt>>), WInt>>)>>
ASSUME Len(ValTy) = NV

Test(form, ty) ==
  CASE form = "ifset" -> FnDecl("tst", <<P("v", WAny)>>, WInt, <<IfSet("y", ty, V("v"), Ret(I(1)), NoneV), Ret(I(0))>>)
    [] form = "match" -> FnDecl("tst", <<P("v", WAny)>>, WInt, <<Match(V("v"), <<ArmTy("y", ty, Ret(I(1))), ArmOther(Ret(I(0)))>>), Ret(I(2))>>)
    [] form = "match-after-value" ->
         FnDecl("tst", <<P("v", WAny)>>, WInt, <<Match(V("v"), <<ArmVal(<<I(1), S(<<115>>)>>, Ret(I(3))), ArmTy("y", ty, Ret(I(1))), ArmOther(Ret(I(0)))>>), Ret(I(2))>>)
    [] form = "whileset" ->
         FnDecl("tst", <<P("v", WAny)>>, WInt,
                <<Set("n", MutE(WInt, I(0))),
                  WhileSet("y", ty, V("v"), Block(<<Asg("+=", V("n"), I(1)), If1(Bin(">", Deref(V("n")), I(0)), Break)>>)),
                  Ret(Deref(V("n")))>>)
Forms == <<"ifset", "match", "match-after-value", "whileset", "ifset-typed", "match-typed", "ifset-typedu", "ifset-top", "match-top">>
IsTyped(form) == form \in {"ifset-typed", "match-typed", "ifset-typedu"}
\* the scrutinee is a NAME of the enclosing scope (a constant in the constant twin): the test may be decided while
\* checking / folding, and must be decided like the run-time test
IsTop(form) == form \in {"ifset-top", "match-top"}
TopTest(form, ty, i) ==
  LET v == Hide(ValTy[i], V("v" \o ToString(i)))     \* hidden here, a constant in the constant twin
      body == Block(<<Set("u", UseOf(ty)), I(1)>>) IN
  Set("r" \o ToString(i),
      IF form = "match-top" THEN Match(v, <<ArmTy("y", ty, body), ArmOther(I(0))>>)
      ELSE IfSet("y", ty, v, body, Block(<<I(0)>>)))
TypedTest(form, ty, i) ==
  LET pt == IF form = "ifset-typedu" THEN WMulti(<<ValTy[i], WVoid>>) ELSE ValTy[i]
      nm == "tst" \o ToString(i) IN
  IF form = "match-typed"
  THEN FnDecl(nm, <<P("v", pt)>>, WInt, <<Match(V("v"), <<ArmTy("y", ty, Block(<<Set("u", UseOf(ty)), Ret(I(1))>>)), ArmOther(Ret(I(0)))>>), Ret(I(2))>>)
  ELSE FnDecl(nm, <<P("v", pt)>>, WInt, <<IfSet("y", ty, V("v"), Block(<<Set("u", UseOf(ty)), Ret(I(1))>>), NoneV), Ret(I(0))>>)

Bindings == [i \in 1..NV |-> Set("v" \o ToString(i), Vals[i])]
\* forwards, then backwards: the same test instruction sees every run-time type after every other one
Order == [i \in 1..NV |-> i] \o [i \in 1..NV |-> NV + 1 - i]
Prog(form, ty) ==
  IF IsTop(form)
  THEN Bindings \o [i \in 1..NV |-> TopTest(form, ty, i)] \o <<TupE([j \in 1..Len(Order) |-> V("r" \o ToString(Order[j]))])>>
  ELSE IF IsTyped(form)
  THEN Bindings \o [i \in 1..NV |-> TypedTest(form, ty, i)]
       \o <<TupE([j \in 1..Len(Order) |-> CallE(V("tst" \o ToString(Order[j])), <<V("v" \o ToString(Order[j]))>>)])>>
  ELSE
  Bindings \o <<Test(form, ty)>> \o <<TupE([j \in 1..Len(Order) |-> CallE(V("tst"), <<V("v" \o ToString(Order[j]))>>)])>>

Cases == [i \in 1..(Len(Forms) * Len(TestTypes)) |->
            [form |-> Forms[((i - 1) \div Len(TestTypes)) + 1], ty |-> TestTypes[((i - 1) % Len(TestTypes)) + 1]]]
N == Len(Cases)
Fuel == 4000
RunOf(i) == Run(Prog(Cases[i].form, Cases[i].ty), Fuel)
Out(i) == Outcome(RunOf(i))

\* the law: answer j = 1 iff the run-time tag of value Order[j] matches the test type (value arms first where present)
Expected(i, r, j) ==
  LET v == Lookup(r.env, "v" \o ToString(Order[j]))
      hit == Matches(TagS(v, r.st), Unwire(Cases[i].ty))
      byValue == Cases[i].form = "match-after-value" /\ (ValEq(v, IntV(1)) \/ ValEq(v, StrV(<<115>>)))
  IN IF byValue THEN 3 ELSE IF hit THEN 1 ELSE 0
TypeTestLaw == row > 0 =>
  LET r == RunOf(row)  o == Outcome(r) IN
  \/ (o.status = "value" /\ \A j \in 1..Len(Order) : o.v.es[j].v = Expected(row, r, j))
  \/ (PrintT(<<"TYPETEST", Cases[row], o>>) /\ FALSE)

\* ---------------------------------------------------------------- selection with operands known early
\* Value arms compared with RUN-TIME values under a scrutinee that is a constant; guards whose excluded branch would
\* fail if it were evaluated (division by the guarded zero, index past the guarded length, shift by the guarded
\* amount).  Each comes with hidden operands (and so also as a constant twin).
H(n) == Hide(WInt, I(n))
XC(prog, want) == [prog |-> prog, want |-> want]
StV_(t) == WStruct(<< <<"value", t>> >>)
T2V(a, b) == TupV(<<IntV(a), IntV(b)>>)
Guard(x, safe) == If(Bin("!=", V("x"), I(0)), Block(<<Bin("/", I(10), V("x"))>>), Block(<<I(safe)>>))
ExtraCases == <<
  XC(<<FnDecl("cl", <<P("y", WInt)>>, WInt, <<Set("x", I(3)), Ret(Match(V("x"), <<ArmVal(<<V("y")>>, I(1)), ArmTy("n", WInt, I(2))>>))>>),
       TupE(<<CallE(V("cl"), <<H(3)>>), CallE(V("cl"), <<H(4)>>)>>)>>, T2V(1, 2)),
  XC(<<FnDecl("cl", <<P("y", WInt)>>, WInt, <<Ret(Match(I(3), <<ArmVal(<<I(9), V("y")>>, I(1)), ArmOther(I(2))>>))>>),
       TupE(<<CallE(V("cl"), <<H(3)>>), CallE(V("cl"), <<H(4)>>)>>)>>, T2V(1, 2)),
  XC(<<Set("x", H(3)), FnDecl("cl", <<P("y", WInt)>>, WInt, <<Ret(Match(V("x"), <<ArmVal(<<V("y")>>, I(1)), ArmTy("n", WInt, I(2))>>))>>),
       TupE(<<CallE(V("cl"), <<H(3)>>), CallE(V("cl"), <<H(4)>>)>>)>>, T2V(1, 2)),
  XC(<<Set("c", MutE(WInt, I(3))), Set("r1", Match(H(3), <<ArmVal(<<Deref(V("c"))>>, I(1)), ArmOther(I(0))>>)),
       Asg("=", V("c"), I(4)), Set("r2", Match(H(3), <<ArmVal(<<Deref(V("c"))>>, I(1)), ArmOther(I(0))>>)), TupE(<<V("r1"), V("r2")>>)>>, T2V(1, 0)),
  XC(<<FnDecl("three", <<>>, WInt, <<Ret(H(3))>>), Set("x", H(3)),
       Set("r1", Match(V("x"), <<ArmVal(<<CallE(V("three"), <<>>)>>, I(1)), ArmTy("n", WInt, I(2))>>)),
       Set("r2", Match(H(4), <<ArmVal(<<CallE(V("three"), <<>>)>>, I(1)), ArmTy("n", WInt, I(2))>>)), TupE(<<V("r1"), V("r2")>>)>>, T2V(1, 2)),
  \* the hidden element type of an array literal is that of its VALUES, also when an element is a constant expression
  \* whose static type is wider than its value
  XC(<<Set("mixed", Hide(WArr(IF_), ArrE(<<I(1), F(5)>>))), Set("ar", ArrE(<<At(V("mixed"), I(0))>>)),
       Set("r1", IfSet("q", WArr(WInt), V("ar"), I(1), I(0))),
       Set("ar2", Block(<<Set("x", At(V("mixed"), I(0))), ArrE(<<V("x"), I(8)>>)>>)),
       Set("r2", Match(V("ar2"), <<ArmTy("q", WArr(WInt), I(1)), ArmOther(I(0))>>)), TupE(<<V("r1"), V("r2")>>)>>, T2V(1, 1)),
  XC(<<Set("ar", ArrE(<<At(ArrE(<<I(1), F(5)>>), I(0))>>)), Set("r1", IfSet("q", WArr(WInt), V("ar"), I(1), I(0))),
       Set("ar2", RepE(At(ArrE(<<I(1), F(5)>>), I(0)), I(2))), Set("r2", IfSet("q", WArr(WInt), V("ar2"), I(1), I(0))),
       TupE(<<V("r1"), V("r2")>>)>>, T2V(1, 1)),
  XC(<<Set("tp", TupE(<<At(ArrE(<<I(1), F(5)>>), I(0)), I(2)>>)), Set("r1", IfSet("q", WTup(<<WInt, WInt>>), V("tp"), I(1), I(0))),
       Set("st", StructE(<< <<"a", At(ArrE(<<I(1), F(5)>>), I(0))>> >>)), Set("r2", IfSet("q", StA, V("st"), I(1), I(0))),
       TupE(<<V("r1"), V("r2")>>)>>, T2V(1, 1)),
  \* value arms: every listed value is compared, in order, until one equals the scrutinee — also when the first is a literal,
  \* and also when a listed value has a static type wider than (or only overlapping) the scrutinee's
  XC(<<FnDecl("m", <<P("v", WInt)>>, WInt, <<Ret(Match(V("v"), <<ArmVal(<<I(1), I(2)>>, I(10)), ArmVal(<<I(3), H(4), I(5)>>, I(20)), ArmOther(I(30))>>))>>),
       TupE(<<CallE(V("m"), <<H(2)>>), CallE(V("m"), <<H(5)>>)>>)>>, T2V(10, 20)),
  XC(<<Set("r1", Match(I(2), <<ArmVal(<<I(1), I(2)>>, I(10)), ArmOther(I(30))>>)),
       Set("r2", Match(H(4), <<ArmVal(<<I(1), I(2)>>, I(10)), ArmVal(<<I(3), I(4)>>, I(20)), ArmOther(I(30))>>)), TupE(<<V("r1"), V("r2")>>)>>, T2V(10, 20)),
  XC(<<Set("w", Hide(WMulti(<<WInt, WVoid>>), I(4))), Set("a", Hide(WAny, I(6))),
       FnDecl("m", <<P("v", WInt)>>, WInt, <<Ret(Match(V("v"), <<ArmVal(<<V("w")>>, I(10)), ArmVal(<<V("a")>>, I(20)), ArmTy("n", WInt, I(30))>>))>>),
       Set("r1", CallE(V("m"), <<H(4)>>)), Set("r2", CallE(V("m"), <<H(6)>>)), TupE(<<V("r1"), V("r2")>>)>>, T2V(10, 20)),
  \* a block / branch / arm whose last statement is `()' evaluates to (), whatever ran before
  XC(<<Set("c", MutE(WInt, I(0))), Set("b1", Block(<<Asg("+=", V("c"), I(5)), Unit>>)),
       Set("r1", IfSet("q", WVoid, V("b1"), I(1), I(0))),
       Set("b2", If(Bin(">", Deref(V("c")), I(1)), Block(<<Asg("+=", V("c"), I(1)), Unit>>), Block(<<I(7)>>))),
       Set("r2", IfSet("q", WVoid, V("b2"), I(1), I(0))), TupE(<<V("r1"), V("r2")>>)>>, T2V(1, 1)),
  XC(<<Set("c", MutE(WInt, I(0))), Set("b3", Match(H(2), <<ArmVal(<<I(2)>>, Block(<<Asg("+=", V("c"), I(3)), Unit>>)), ArmOther(Block(<<I(7)>>))>>)),
       Set("r1", IfSet("q", WVoid, V("b3"), I(1), I(0))),
       Set("b4", IfSet("n", WInt, H(2), Block(<<Asg("+=", V("c"), V("n")), Unit>>), Block(<<I(7)>>))),
       Set("r2", IfSet("q", WInt, V("b4"), I(0), Deref(V("c")))), TupE(<<V("r1"), V("r2")>>)>>, T2V(1, 5)),
  \* a catch-all arm ends the search wherever it stands: arms written below it are never tried
  XC(<<FnDecl("m", <<P("v", WInt)>>, WInt, <<Ret(Match(V("v"), <<ArmOther(I(0)), ArmVal(<<I(1)>>, I(10))>>))>>),
       TupE(<<CallE(V("m"), <<H(1)>>), CallE(V("m"), <<H(2)>>)>>)>>, T2V(0, 0)),
  XC(<<FnDecl("m", <<P("v", WInt)>>, WInt, <<Ret(Match(V("v"), <<ArmVal(<<I(0)>>, I(5)), ArmOther(I(7)), ArmTy("n", WInt, I(9))>>))>>),
       TupE(<<CallE(V("m"), <<H(0)>>), CallE(V("m"), <<H(3)>>)>>)>>, T2V(5, 7)),
  XC(<<Set("r1", Match(I(1), <<ArmOther(I(0)), ArmVal(<<I(1)>>, I(10))>>)),
       Set("r2", Match(H(1), <<ArmVal(<<I(2)>>, I(5)), ArmOther(I(0)), ArmVal(<<I(1)>>, I(10)), ArmTy("n", WInt, I(11))>>)), TupE(<<V("r1"), V("r2")>>)>>, T2V(0, 0)),
  XC(<<Set("seen", MutE(WInt, I(0))), Set("brk", MutE(WInt, I(0))),
       For("v", IterE(Hide(WArr(WMulti(<<WInt, WStr>>)), ArrE(<<I(0), I(4), S(<<115>>), I(5)>>))),
           Block(<<Match(V("v"), <<ArmVal(<<I(0)>>, Block(<<ContinueS>>)), ArmOther(Block(<<Asg("+=", V("seen"), I(1))>>)),
                                   ArmTy("s", WStr, Block(<<Asg("+=", V("brk"), I(1)), Break>>))>>)>>)),
       TupE(<<Deref(V("seen")), Deref(V("brk"))>>)>>, T2V(3, 0)),
  \* one type test applied, one after the other, to values whose types differ only INSIDE (a field type, the members of a
  \* nested union of equal size): each value is tested for itself, in either order
  XC(<<FnDecl("d", <<P("v", WAny)>>, WInt, <<Ret(Match(V("v"), <<ArmTy("s", StV_(WInt), I(1)), ArmTy("s", StV_(WStr), I(2)), ArmOther(I(0))>>))>>),
       TupE(<<CallE(V("d"), <<StructE(<< <<"value", H(1)>> >>)>>), CallE(V("d"), <<StructE(<< <<"value", S(<<115>>)>> >>)>>)>>)>>, T2V(1, 2)),
  XC(<<FnDecl("d", <<P("v", WAny)>>, WInt, <<Ret(Match(V("v"), <<ArmTy("s", StV_(WInt), I(1)), ArmTy("s", StV_(WStr), I(2)), ArmOther(I(0))>>))>>),
       TupE(<<CallE(V("d"), <<StructE(<< <<"value", S(<<115>>)>> >>)>>), CallE(V("d"), <<StructE(<< <<"value", H(1)>> >>)>>)>>)>>, T2V(2, 1)),
  XC(<<FnDecl("d", <<P("v", WAny)>>, WInt, <<IfSet("q", WArr(IF_), V("v"), Block(<<Ret(I(1))>>), NoneV), IfSet("q", WArr(WMulti(<<WInt, WStr>>)), V("v"), Block(<<Ret(I(2))>>), NoneV), Ret(I(0))>>),
       TupE(<<CallE(V("d"), <<ArrE(<<H(1), F(5)>>)>>), CallE(V("d"), <<ArrE(<<H(1), S(<<97>>)>>)>>)>>)>>, T2V(1, 2)),
  XC(<<FnDecl("d", <<P("v", WAny)>>, WInt, <<IfSet("q", WArr(IF_), V("v"), Block(<<Ret(I(1))>>), NoneV), IfSet("q", WArr(WMulti(<<WInt, WStr>>)), V("v"), Block(<<Ret(I(2))>>), NoneV), Ret(I(0))>>),
       TupE(<<CallE(V("d"), <<ArrE(<<H(1), S(<<97>>)>>)>>), CallE(V("d"), <<ArrE(<<H(1), F(5)>>)>>)>>)>>, T2V(2, 1)),
  XC(<<Set("vs", Hide(WArr(WAny), ArrE(<<StructE(<< <<"value", I(1)>> >>), StructE(<< <<"value", S(<<115>>)>> >>), StructE(<< <<"value", I(2)>> >>)>>))),
       Set("n", RedE("$+", "int", MapE(TFilterE(IterE(V("vs")), StV_(WInt)), FnE(<<P("s", StV_(WInt))>>, WInt, <<Ret(Field(V("s"), "value"))>>)))),
       Set("m", MutE(WInt, I(0))), For("e", TFilterE(IterE(V("vs")), StV_(WStr)), Block(<<Asg("+=", V("m"), I(1))>>)), TupE(<<V("n"), Deref(V("m"))>>)>>, T2V(3, 1)),
  \* a function literal called on the spot is a function: a `return' nested inside it ends the literal, not the function around it
  XC(<<FnDecl("outer", <<P("v", WInt)>>, WInt,
              <<Set("n", MutE(WInt, I(0))),
                CallE(FnE(<<>>, WVoid, <<If1(Bin(">", V("v"), I(0)), Block(<<Ret0>>)), Asg("+=", V("n"), I(5))>>), <<>>),
                Ret(Bin("+", Bin("+", V("v"), I(10)), Deref(V("n"))))>>),
       TupE(<<CallE(V("outer"), <<H(1)>>), CallE(V("outer"), <<H(0)>>)>>)>>, T2V(11, 15)),
  XC(<<FnDecl("outer", <<P("v", WInt)>>, WInt,
              <<Set("r", CallE(FnE(<<>>, WInt, <<Match(V("v"), <<ArmVal(<<I(1)>>, Block(<<Ret(I(100))>>)), ArmOther(Block(<<Unit>>))>>),
                                                 Loop(Block(<<If1(Bin("==", V("v"), I(2)), Block(<<Ret(I(200))>>)), Break>>)), Ret(I(300))>>), <<>>)),
                Ret(Bin("+", V("r"), I(1)))>>),
       TupE(<<CallE(V("outer"), <<H(1)>>), CallE(V("outer"), <<H(2)>>)>>)>>, T2V(101, 201)),
  XC(<<Set("n", MutE(WInt, I(0))), Set("v", H(1)),
       CallE(FnE(<<>>, WVoid, <<If1(Bin(">", V("v"), I(0)), Block(<<Ret0>>)), Asg("+=", V("n"), I(5))>>), <<>>),
       CallE(FnE(<<>>, WVoid, <<For("e", IterE(ArrE(<<H(1), H(2)>>)), Block(<<If1(Bin("==", V("e"), I(2)), Block(<<Ret0>>)), Asg("+=", V("n"), V("e"))>>))>>), <<>>),
       TupE(<<Deref(V("n")), I(7)>>)>>, T2V(1, 7)),
  \* guards
  XC(<<Set("x", H(0)), Set("r1", Guard("x", 3)), Set("x", H(2)), Set("r2", Guard("x", 3)), TupE(<<V("r1"), V("r2")>>)>>, T2V(3, 5)),
  XC(<<Set("x", H(0)), Set("k", MutE(WInt, I(7))),
       While(Bin("!=", V("x"), I(0)), Block(<<Asg("=", V("k"), Bin("/", I(1), V("x"))), Break>>)), TupE(<<Deref(V("k")), V("x")>>)>>, T2V(7, 0)),
  XC(<<FnDecl("divide_by", <<P("d", WInt)>>, WFn(<<WInt>>, WInt),
              <<Ret(FnE(<<P("n", WInt)>>, WInt, <<If1(Bin("!=", V("d"), I(0)), Ret(Bin("/", V("n"), V("d")))), Ret(I(-1))>>))>>),
       TupE(<<CallE(CallE(V("divide_by"), <<H(0)>>), <<H(5)>>), CallE(CallE(V("divide_by"), <<H(2)>>), <<H(6)>>)>>)>>, T2V(-1, 3)),
  XC(<<Set("x", H(0)), Set("r1", Match(V("x"), <<ArmVal(<<I(0)>>, I(3)), ArmOther(Bin("/", I(10), V("x")))>>)),
       Set("r2", Match(V("x"), <<ArmVal(<<I(1)>>, Bin("/", I(10), Bin("-", V("x"), I(0)))), ArmOther(I(4))>>)), TupE(<<V("r1"), V("r2")>>)>>, T2V(3, 4)),
  XC(<<Set("x", H(0)), Set("b1", AndE(Bin("!=", V("x"), I(0)), Bin(">", Bin("/", I(10), V("x")), I(1)))),
       Set("b2", OrE(Bin("==", V("x"), I(0)), Bin(">", Bin("%", I(10), V("x")), I(1)))),
       Set("r1", If(V("b1"), I(1), I(0))), Set("r2", If(V("b2"), I(1), I(0))), TupE(<<V("r1"), V("r2")>>)>>, T2V(0, 1)),
  XC(<<Set("i", H(5)), Set("a", Hide(WArr(WInt), ArrE(<<I(1)>>))),
       Set("r1", If(Bin("<", V("i"), I(1)), Block(<<At(V("a"), V("i"))>>), Block(<<I(0)>>))),
       Set("r2", If(Bin(">=", V("i"), I(1)), Block(<<I(8)>>), Block(<<At(V("a"), V("i"))>>))), TupE(<<V("r1"), V("r2")>>)>>, T2V(0, 8)),
  XC(<<Set("s", H(64)), Set("r1", If(Bin("<", V("s"), I(64)), Block(<<Bin("<<", I(1), V("s"))>>), Block(<<I(0)>>))),
       Set("r2", If(Bin("<", V("s"), I(0)), Block(<<RepE(I(0), V("s"))>>), Block(<<ArrE(<<>>)>>))), TupE(<<V("r1"), V("r2")>>)>>,
     TupV(<<IntV(0), ArrV(TNever, <<>>)>>))
>>
ExtraOut(i) == Outcome(Run(ExtraCases[i].prog, 3000))
ExtraLaw == \A i \in 1..Len(ExtraCases) :
  \/ (ExtraOut(i).status = "value" /\ ValEq(ExtraOut(i).v, ExtraCases[i].want))
  \/ (PrintT(<<"EXTRALAW", i, ExtraOut(i)>>) /\ FALSE)

\* ---------------------------------------------------------------- negative cases
\* The name bound by a type test has the TEST type, not a narrower one: returning it where only the int member of a
\* union test type is allowed must be refused (whatever the checker knows about the scrutinee).  If an
\* implementation accepts such a program the run is judged by its events (the function result must belong to the
\* declared result type) and must not panic.
UnionTests == <<WMulti(<<StA, WInt>>), WMulti(<<WInt, WArr(WInt)>>), IF_, WMulti(<<WTup(<<WInt, WInt>>), WTup(<<WInt, WInt, WInt>>)>>)>>
NegForm(ti, i, how) ==
  LET ty == UnionTests[ti]
      ret == IF how = "ret" THEN Ret(Y) ELSE Ret(Bin("+", Y, I(1)))
      test == IF how = "ifset" THEN IfSet("y", ty, V("v"), Block(<<Ret(Y)>>), NoneV)
              ELSE Match(V("v"), <<ArmTy("y", ty, Block(<<ret>>)), ArmOther(Block(<<Ret(I(0))>>))>>) IN
  Bindings \o <<FnDecl("tn", <<P("v", ValTy[i])>>, WInt, <<test, Ret(I(2))>>), CallE(V("tn"), <<V("v" \o ToString(i))>>)>>
NegSeq == SetToSeq({<<ti, i, how>> : ti \in 1..Len(UnionTests), i \in 1..NV, how \in {"ret", "plus", "ifset"}})

\* An accepted match always has an arm for the scrutinee: a VALUE arm covers no member of the scrutinee's type, whatever
\* the static type of its candidate (a union that includes that member, or any).  One member of the scrutinee's type is
\* left to a value arm only; such a match must be refused.  If an implementation accepts it, the run - scrutinee of the
\* uncovered member, candidate another value - is judged by its events and must not panic.
CovMembers == <<WVoid, WInt, WStr, WArr(WInt)>>
CovVals == <<Unit, I(3), S(<<97>>), ArrE(<<I(1)>>)>>
CovU == WMulti(CovMembers)
NegCover(m, wide, where) ==
  LET others == SelectSeq(<<1, 2, 3, 4>>, LAMBDA j : j # m)
      kty == IF wide THEN WAny ELSE CovU
      arms == <<ArmVal(<<V("k")>>, I(1))>> \o [j \in 1..3 |-> ArmTy("y", CovMembers[others[j]], I(10 + j))]
      arms2 == [j \in 1..3 |-> ArmTy("y", CovMembers[others[j]], I(10 + j))] \o <<ArmVal(<<I(7), V("k")>>, I(1))>>
      o == others[1] IN
  IF where = "fn"
  THEN <<FnDecl("pick", <<P("v", CovU), P("k", kty)>>, WInt, <<Ret(Match(V("v"), arms))>>),
         CallE(V("pick"), <<Hide(CovU, CovVals[m]), Hide(kty, CovVals[o])>>)>>
  ELSE <<Set("v", Hide(CovU, CovVals[m])), Set("k", Hide(kty, CovVals[o])), Set("r", Match(V("v"), arms2)), V("r")>>
NegCoverSeq == SetToSeq({<<m, w, wh>> : m \in 1..4, w \in BOOLEAN, wh \in {"fn", "top"}})

\* A function declared to return int whose body ends in a `loop' that CAN be left by a break falls off its end: it must
\* be refused wherever the break stands - in particular inside the initialiser of a declaration, which holds statements
\* (x := if c { break } else { v }).  If an implementation accepts one, the call is judged by its events (the result must
\* be an int) and the addition must not panic.
BrkIf == If(Bin(">", Deref(V("i")), V("n")), Block(<<Break>>), Block(<<Deref(V("i"))>>))
FallBody(where) ==
  CASE where = "set-if"       -> <<Set("x", BrkIf)>>
    [] where = "destruct-if"  -> <<Destruct(<<"a", "b">>, If(Bin(">", Deref(V("i")), V("n")), Block(<<Break>>), Block(<<TupE(<<I(1), I(2)>>)>>)))>>
    [] where = "set-match"    -> <<Set("x", Match(Bin(">", Deref(V("i")), V("n")), <<ArmVal(<<B(TRUE)>>, Block(<<Break>>)), ArmOther(I(1))>>))>>
    [] where = "set-block"    -> <<Set("x", Block(<<If1(Bin(">", Deref(V("i")), V("n")), Block(<<Break>>)), I(1)>>))>>
    [] where = "set-ifset"    -> <<Set("x", IfSet("y", WInt, Hide(WMulti(<<WInt, WVoid>>), I(1)), Block(<<If1(Bin(">", Deref(V("i")), V("n")), Block(<<Break>>)), V("y")>>), I(0)))>>
    [] where = "nested-block" -> <<Block(<<Block(<<If1(Bin(">", Deref(V("i")), V("n")), Block(<<Break>>))>>)>>)>>
    [] where = "match-arm"    -> <<Match(Bin(">", Deref(V("i")), V("n")), <<ArmVal(<<B(TRUE)>>, Block(<<Break>>)), ArmOther(Unit)>>)>>
    [] where = "ifset-body"   -> <<IfSet("y", WInt, Hide(WMulti(<<WInt, WVoid>>), I(1)), Block(<<If1(Bin(">", Deref(V("i")), V("n")), Block(<<Break>>))>>), NoneV)>>
    [] where = "plain"        -> <<If1(Bin(">", Deref(V("i")), V("n")), Block(<<Break>>))>>
FallWheres == <<"set-if", "destruct-if", "set-match", "set-block", "set-ifset", "nested-block", "match-arm", "ifset-body", "plain">>
NegFall(where) ==
  <<FnDecl("f", <<P("n", WInt)>>, WInt,
           <<Set("i", MutE(WInt, I(0))), Loop(Block(<<Asg("+=", V("i"), I(1))>> \o FallBody(where)))>>),
    Bin("+", CallE(V("f"), <<Hide(WInt, I(3))>>), I(1))>>

\* A callee whose static type is a union of function types takes, at each position, only what EVERY member takes (the
\* meet of the parameter types).  The argument below fits the second member's parameter only, and the callee is the first
\* member at run time: the call must be refused.  If an implementation accepts it, the argument event is judged against
\* the first member's parameter type.
StV(t) == WStruct(<< <<"v", t>> >>)
CalleeTriples == <<
  <<StV(WInt), StV(WStr), StructE(<< <<"v", S(<<97>>)>> >>)>>,
  <<WStruct(<< <<"v", WInt>>, <<"w", WInt>> >>), StV(WInt), StructE(<< <<"v", I(1)>> >>)>>,
  <<StV(WMulti(<<WInt, WVoid>>)), StV(WMulti(<<WInt, WStr>>)), StructE(<< <<"v", S(<<97>>)>> >>)>>,
  <<WArr(WInt), WArr(WStr), ArrE(<<S(<<97>>)>>)>>,
  <<WTup(<<WInt, WInt>>), WTup(<<WStr, WInt>>), TupE(<<S(<<97>>), I(1)>>)>>,
  <<WInt, WMulti(<<WInt, WStr>>), S(<<97>>)>>,
  <<WArr(StV(WInt)), WArr(StV(WStr)), ArrE(<<StructE(<< <<"v", S(<<97>>)>> >>)>>)>>,
  <<WFn(<<>>, WInt), WFn(<<>>, WStr), FnE(<<>>, WStr, <<Ret(S(<<97>>))>>)>>,
  \* cells are invariant: a `mut int' cell is not a `mut (int|float)' cell (the wider member would store a float in it)
  <<WMut(WMulti(<<WInt, WFloat>>)), WMut(WInt), MutE(WInt, I(1))>>,
  <<WArr(WMut(WMulti(<<WInt, WStr>>))), WArr(WMut(WInt)), ArrE(<<MutE(WInt, I(1))>>)>>,
  <<StV(WMut(WMulti(<<WInt, WFloat>>))), StV(WMut(WInt)), StructE(<< <<"v", MutE(WInt, I(1))>> >>)>> >>
NegCallee(i, how) ==
  LET t == CalleeTriples[i]
      uty == WMulti(<<WFn(<<t[1]>>, WInt), WFn(<<t[2]>>, WInt)>>) IN
  <<FnDecl("g", <<P("s", t[1])>>, WInt, <<Set("u", V("s")), Ret(I(1))>>),
    FnDecl("h", <<P("s", t[2])>>, WInt, <<Ret(I(2))>>)>> \o
  (IF how = "pick"
   THEN <<FnDecl("pick", <<P("c", WBool)>>, uty, <<If1(V("c"), Block(<<Ret(V("g"))>>)), Ret(V("h"))>>),
          Set("f", CallE(V("pick"), <<Hide(WBool, B(TRUE))>>)), CallE(V("f"), <<t[3]>>)>>
   ELSE <<Set("f", If(Hide(WBool, B(TRUE)), Block(<<V("g")>>), Block(<<V("h")>>))), CallE(V("f"), <<t[3]>>)>>)
NegCalleeSeq == SetToSeq({<<i, how>> : i \in 1..Len(CalleeTriples), how \in {"pick", "if"}})

\* Coverage does not distribute over a union INSIDE an array, a cell or a function result: `[int|string]' is not covered by
\* arms for `[int]' and `[string]' (a mixed array matches neither), `mut (int|string)' not by `mut int' and `mut string'.
\* Such a match must be refused; an accepted one is run with the value no arm takes.
IS_ == WMulti(<<WInt, WStr>>)
NestedCov == <<
  <<WArr(IS_), WArr(WInt), WArr(WStr), ArrE(<<I(1), S(<<97>>)>>)>>,
  <<WArr(IS_), WArr(WInt), WArr(WStr), Bin("+", ArrE(<<I(1)>>), ArrE(<<S(<<97>>)>>))>>,
  <<WMut(IS_), WMut(WInt), WMut(WStr), MutE(IS_, I(1))>>,
  <<WArr(WArr(IS_)), WArr(WArr(WInt)), WArr(WArr(WStr)), ArrE(<<ArrE(<<I(1), S(<<97>>)>>)>>)>>,
  <<WFn(<<>>, IS_), WFn(<<>>, WInt), WFn(<<>>, WStr), FnE(<<>>, IS_, <<Ret(Hide(IS_, I(1)))>>)>> >>
NegNested(i, where) ==
  LET t == NestedCov[i]
      arms == <<ArmTy("y", t[2], I(1)), ArmTy("y", t[3], I(2))>> IN
  IF where = "fn"
  THEN <<FnDecl("kind", <<P("v", t[1])>>, WInt, <<Ret(Match(V("v"), arms))>>), CallE(V("kind"), <<t[4]>>)>>
  ELSE <<Set("v", Hide(t[1], t[4])), Set("r", Match(V("v"), arms)), V("r")>>
NegNestedSeq == SetToSeq({<<i, wh>> : i \in 1..Len(NestedCov), wh \in {"fn", "top"}})

Init == row = 0
Next == \/ row = 0 /\ row' \in {-c : c \in 1..Chunks}
        \/ row < 0 /\ row' \in {i \in 1..N : i % Chunks = (-row) % Chunks}
Spec == Init /\ [][Next]_row

Emit ==
  /\ TLCGet("stats").distinct > 0
  /\ ndJsonSerialize(IOEnv.VERIF_OUT \o "/c12t_cases.ndjson",
        [i \in 1..N |-> [id |-> "c12t-" \o Cases[i].form \o "-" \o ToString(i), suite |-> "c12t",
                         prog |-> Prog(Cases[i].form, Cases[i].ty), exp |-> Out(i)]]
        \o [i \in 1..Len(ExtraCases) |-> [id |-> "c12t-extra-" \o ToString(i), suite |-> "c12t", prog |-> ExtraCases[i].prog, exp |-> ExtraOut(i)]])
  /\ ExtraLaw
  /\ ndJsonSerialize(IOEnv.VERIF_OUT \o "/c12t_neg_cases.ndjson",
        [i \in 1..Len(NegSeq) |-> [id |-> "c12t-neg-" \o ToString(i), suite |-> "c12t", negative |-> TRUE,
                                   prog |-> NegForm(NegSeq[i][1], NegSeq[i][2], NegSeq[i][3]),
                                   exp |-> [status |-> "rejected", v |-> VoidV, log |-> <<>>]]]
        \o [i \in 1..Len(NegCoverSeq) |-> [id |-> "c12t-negcover-" \o ToString(i), suite |-> "c12t", negative |-> TRUE,
                                   prog |-> NegCover(NegCoverSeq[i][1], NegCoverSeq[i][2], NegCoverSeq[i][3]),
                                   exp |-> [status |-> "rejected", v |-> VoidV, log |-> <<>>]]]
        \o [i \in 1..Len(FallWheres) |-> [id |-> "c12t-negfall-" \o FallWheres[i], suite |-> "c12t", negative |-> TRUE,
                                   prog |-> NegFall(FallWheres[i]),
                                   exp |-> [status |-> "rejected", v |-> VoidV, log |-> <<>>]]]
        \o [i \in 1..Len(NegNestedSeq) |-> [id |-> "c12t-negnested-" \o ToString(NegNestedSeq[i][1]) \o NegNestedSeq[i][2], suite |-> "c12t", negative |-> TRUE,
                                   prog |-> NegNested(NegNestedSeq[i][1], NegNestedSeq[i][2]),
                                   exp |-> [status |-> "rejected", v |-> VoidV, log |-> <<>>]]]
        \o [i \in 1..Len(NegCalleeSeq) |-> [id |-> "c12t-negcallee-" \o ToString(NegCalleeSeq[i][1]) \o NegCalleeSeq[i][2], suite |-> "c12t", negative |-> TRUE,
                                   prog |-> NegCallee(NegCalleeSeq[i][1], NegCalleeSeq[i][2]),
                                   exp |-> [status |-> "rejected", v |-> VoidV, log |-> <<>>]]])
  /\ PrintT(<<"CASES", N, NV>>)
=============================================================================
