------------------------------ MODULE MC_Prec ------------------------------
(***************************************************************************)
(* Bounded model of Prec for C14: enumerates the cases of the property's    *)
(* quantifier, runs the shift/reduce machine of Prec over every one of them *)
(* (a transition system: state = (case, its tokens, operand stack, pending  *)
(* operators, remaining tokens), actions Shift / Reduce), checks the laws   *)
(* as invariants and writes every case with the specification's prediction. *)
(*                                                                           *)
(* Families (tokens; a b c d operands, X Y Z binary, P Q postfix, ! prefix): *)
(*   pair      a X b Y c              all ordered pairs of binary operators  *)
(*   triple    a X b Y c Z d          Thorough: all; else those whose levels  *)
(*                                    are not all distinct + a seeded sample  *)
(*   prebin    ! a X b                each prefix before each binary          *)
(*   binpre    a X ! b                                                        *)
(*   prepost   ! a P ,  ! a P Q       postfix forms after prefix forms        *)
(*   postbin   a P X b ,  a X b P     postfix forms against binary operators  *)
(*   prepostbin ! a P X b , ! a X b P                                         *)
(*   postpost  a P Q ,  a X b P Q     two postfix forms in a row               *)
(*   adj       a S1..Sk b , a S1..Sk  every string of k <= AdjLen pure        *)
(*             operator symbols, written with blanks (tokens as written) and  *)
(*             without (tokens = Lex of the characters)                       *)
(*                                                                           *)
(* The enumerations below use no RECURSIVE operator, so TLC evaluates them   *)
(* once; everything recursive (Group, Lex, Classify ...) is evaluated in     *)
(* Init, in the invariants and in Emit.                                      *)
(***************************************************************************)
EXTENDS Prec, Json, IOUtils

CONSTANTS Thorough,      \* all triples / longer adjacencies
          SamplePermille \* share of the all-distinct-level triples taken in the quick tier

VARIABLES vCase, vToks, vM

Seed == IF "VERIF_SEED" \in DOMAIN IOEnv THEN atoi(IOEnv.VERIF_SEED) ELSE 1

NB == Len(BinOps)
NP == Len(PreOps)
NQ == Len(PostOps)
BinToks == [i \in 1..NB |-> Tok(BinOps[i])]
PreToks == [i \in 1..NP |-> Tok(PreOps[i])]
PostToks == [i \in 1..NQ |-> Tok(PostOps[i])]
BT(i) == BinToks[i]
PT(i) == PreToks[i]
QT(i) == PostToks[i]
A == Opd("a")
B == Opd("b")
C == Opd("c")
D == Opd("d")

\* ------------------------------------------------------------ token families
Plain(fam, toks) == [fam |-> fam, toks |-> toks]

PairSet == {Plain("pair", <<A, BT(x), B, BT(y), C>>) : x \in 1..NB, y \in 1..NB}

TripleIdx == {<<x, y, z>> : x \in 1..NB, y \in 1..NB, z \in 1..NB}
LevelsDistinct(t) == Cardinality({BinOps[t[1]].lvl, BinOps[t[2]].lvl, BinOps[t[3]].lvl}) = 3
Sampled(t) ==
  LET n == (t[1] * NB + t[2]) * NB + t[3]
  IN ((n * 7919 + (Seed % 1000) * 104729 + 13) % 1009) * 1000 < SamplePermille * 1009
TripleSel == IF Thorough THEN TripleIdx
             ELSE {t \in TripleIdx : ~LevelsDistinct(t) \/ Sampled(t)}
TripleSet == {Plain("triple", <<A, BT(t[1]), B, BT(t[2]), C, BT(t[3]), D>>) : t \in TripleSel}

PreBinSet == {Plain("prebin", <<PT(p), A, BT(x), B>>) : p \in 1..NP, x \in 1..NB}
BinPreSet == {c \in {Plain("binpre", <<A, BT(x), PT(p), B>>) : p \in 1..NP, x \in 1..NB} : Settled(c.toks)}
PrePostSet == {Plain("prepost", <<PT(p), A, QT(q)>>) : p \in 1..NP, q \in 1..NQ}
              \cup {c \in {Plain("prepost", <<PT(p), A, QT(q), QT(r)>>) : p \in 1..NP, q \in 1..NQ, r \in 1..NQ} :
                      Determined(c.toks)}
PostBinSet == {Plain("postbin", <<A, QT(q), BT(x), B>>) : q \in 1..NQ, x \in 1..NB}
              \cup {Plain("postbin", <<A, BT(x), B, QT(q)>>) : q \in 1..NQ, x \in 1..NB}
PrePostBinSet == {Plain("prepostbin", <<PT(p), A, QT(q), BT(x), B>>) : p \in 1..NP, q \in 1..NQ, x \in 1..NB}
                 \cup {Plain("prepostbin", <<PT(p), A, BT(x), B, QT(q)>>) : p \in 1..NP, q \in 1..NQ, x \in 1..NB}

\* two postfix forms in a row, alone and after a binary operator (where the table settles it)
PostPostSet == {c \in {Plain("postpost", <<A, QT(q), QT(r)>>) : q \in 1..NQ, r \in 1..NQ}
                       \cup {Plain("postpost", <<A, BT(x), B, QT(q), QT(r)>>) : x \in 1..NB, q \in 1..NQ, r \in 1..NQ} :
                  Determined(c.toks)}

PlainCases == SetToSeq(PairSet) \o SetToSeq(TripleSet) \o SetToSeq(PreBinSet) \o SetToSeq(BinPreSet)
              \o SetToSeq(PrePostSet) \o SetToSeq(PostBinSet) \o SetToSeq(PrePostBinSet)
              \o SetToSeq(PostPostSet)
NPlain == Len(PlainCases)

\* ------------------------------------------------------------ adjacency family
\* a run = 1 .. AdjLen pure operator symbols; spaced: the names as written; compact: the characters
Syms1 == {<<e>> : e \in SymRows}
Syms2 == {<<e, f>> : e \in SymRows, f \in SymRows}
Syms3 == {<<e, f, g>> : e \in SymRows, f \in SymRows, g \in SymRows}
RunSet == IF Thorough THEN Syms1 \cup Syms2 \cup Syms3 ELSE Syms1 \cup Syms2
RunChars(r) == IF Len(r) = 1 THEN r[1].cs
               ELSE IF Len(r) = 2 THEN r[1].cs \o r[2].cs
               ELSE r[1].cs \o r[2].cs \o r[3].cs
RunNames(r) == [j \in 1..Len(r) |-> r[j].n]
\* `?' followed by `!' is not settled by the table (see Settled in Prec); left out.  Likewise `//' and `/* .. */' open comments, which are not operators at all
OutsideAlphabet(chars) == \E i \in 1..(Len(chars) - 1) :
                          \/ chars[i] = "?" /\ chars[i + 1] = "!"
                          \/ chars[i] = "/" /\ chars[i + 1] = "/"
                          \/ chars[i] = "/" /\ chars[i + 1] = "*" /\
                               \E j \in (i + 2)..(Len(chars) - 1) : chars[j] = "*" /\ chars[j + 1] = "/"
Contexts == {"ab", "a"}
AdjSpacedSet == {[fam |-> "adj_spaced", ctx |-> ctx, names |-> RunNames(r), chars |-> RunChars(r)] :
                   ctx \in Contexts, r \in {x \in RunSet : ~OutsideAlphabet(RunChars(x))}}
AdjCompactSet == {[fam |-> "adj_compact", ctx |-> ctx, names |-> <<>>, chars |-> ch] :
                    ctx \in Contexts, ch \in {c \in {RunChars(r) : r \in RunSet} : ~OutsideAlphabet(c)}}
AdjCases == SetToSeq(AdjSpacedSet) \o SetToSeq(AdjCompactSet)
NAdj == Len(AdjCases)
NC == NPlain + NAdj

Wrap(ctx, names) == IF ctx = "ab" THEN <<"a">> \o names \o <<"b">> ELSE <<"a">> \o names
AdjNames(c) == Wrap(c.ctx, IF c.fam = "adj_compact" THEN Lex(c.chars) ELSE c.names)
AdjToks(c) == LET k == Classify(AdjNames(c))
              IN IF Accepted(k) /\ Determined(k) /\ Settled(k) THEN k ELSE <<>>

IsPlain(i) == i <= NPlain
CaseFam(i) == IF IsPlain(i) THEN PlainCases[i].fam ELSE AdjCases[i - NPlain].fam
CaseToks(i) == IF IsPlain(i) THEN PlainCases[i].toks ELSE AdjToks(AdjCases[i - NPlain])
CaseChars(i) == IF IsPlain(i) THEN <<>> ELSE AdjCases[i - NPlain].chars
CaseParts(i) ==
  IF IsPlain(i) THEN [j \in 1..Len(PlainCases[i].toks) |-> SrcText(PlainCases[i].toks[j])]
  ELSE LET c == AdjCases[i - NPlain]
       IN IF c.fam = "adj_compact" THEN Wrap(c.ctx, <<Cat(c.chars)>>) ELSE Wrap(c.ctx, c.names)
CaseSep(i) == IF CaseFam(i) = "adj_compact" THEN "" ELSE " "
ExpectOf(toks) == IF toks = <<>> THEN "reject" ELSE Show(Group(toks))

\* ------------------------------------------------------------ the transition system
Init == /\ vCase \in 1..NC
        /\ vToks = CaseToks(vCase)
        /\ vM = MInit(vToks)
Reduce == MustReduce(vM) /\ vM' = MReduce(vM) /\ UNCHANGED <<vCase, vToks>>
Shift == ~MustReduce(vM) /\ vM.rest # <<>> /\ vM' = MShift(vM) /\ UNCHANGED <<vCase, vToks>>
Next == Reduce \/ Shift
Spec == Init /\ [][Next]_<<vCase, vToks, vM>>

AtStart == vM = MInit(vToks)
Grouped == vToks # <<>>

\* laws ---------------------------------------------------------------------
\* the cases are inside the module's domain and Group always finds a legal split
InvDomain == AtStart /\ Grouped => InDomain(vToks) /\ GroupSplitOk(vToks)
\* Group uses every token exactly once, in order
InvTokensOnce == AtStart /\ Grouped => Toks(Group(vToks)) = vToks
\* the table determines exactly one tree, and it is Group's
InvUnique == AtStart /\ Grouped => UniqueAdmissible(vToks)
\* the machine neither loses nor duplicates tokens
InvConserve == MCount(vM) = Len(vToks)
\* precedence climbing arrives at the declarative grouping
InvAgree == Grouped /\ MDone(vM) => vM.opds = <<Group(vToks)>>
\* the machine stops only when it is done
InvProgress == Grouped => MDone(vM) \/ ENABLED Next
\* maximal munch: lossless, maximal, and no multi-character operator is ever split
InvLex == AtStart /\ CaseChars(vCase) # <<>> =>
            LET ch == CaseChars(vCase) IN
            /\ LexLossless(ch) /\ LexMaximal(ch)
            /\ \A j \in 1..Len(Lex(ch)) : Lex(ch)[j] \in SymNames
InvTable == AtStart /\ vCase = 1 => TableIsFunction /\ NamesAreChars /\ NeverSplit

\* ------------------------------------------------------------ emission
Out == IOEnv.VERIF_OUT
Fams == {"pair", "triple", "prebin", "binpre", "prepost", "postbin", "prepostbin", "postpost",
         "adj_spaced", "adj_compact"}
Emit ==
  /\ TLCGet("stats").distinct > 0
  /\ ndJsonSerialize(Out \o "/prec_cases.ndjson",
        [i \in 1..NC |->
           LET k == CaseToks(i)
           IN [id |-> i, fam |-> CaseFam(i), parts |-> CaseParts(i), sep |-> CaseSep(i),
               expect |-> ExpectOf(k), toks |-> [j \in 1..Len(k) |-> <<k[j].t, k[j].s>>]]])
  /\ ndJsonSerialize(Out \o "/prec_lexicon.ndjson",
        [i \in 1..Len(Table) |-> [fix |-> Table[i].fix, n |-> Table[i].n, txt |-> Table[i].txt,
                                  nopre |-> SetToSeq(UnsettledPrefixAfter(Table[i].n))]])
  /\ PrintT(<<"COUNTS", ToJson([f \in Fams |-> Cardinality({i \in 1..NC : CaseFam(i) = f})])>>)
  /\ PrintT(<<"TABLE", ToJson([bin |-> NB, pre |-> NP, post |-> NQ, syms |-> Cardinality(SymRows),
                               cases |-> NC])>>)
=============================================================================
