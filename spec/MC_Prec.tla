------------------------------ MODULE MC_Prec ------------------------------
(***************************************************************************)
(* Bounded model of Prec for C14: enumerates the cases of the property's    *)
(* quantifier, runs the shift/reduce machine of Prec over every one of them *)
(* (a transition system: state = (case, operand stack, pending operators,   *)
(* remaining tokens), actions Shift / Reduce), checks the laws as           *)
(* invariants and writes every case with the specification's prediction.    *)
(*                                                                           *)
(* Families (tokens; a b c d operands, X Y Z binary, P Q postfix, ! prefix): *)
(*   pair      a X b Y c              all ordered pairs of binary operators  *)
(*   triple    a X b Y c Z d          Thorough: all; else those whose levels  *)
(*                                    are not all distinct + a seeded sample  *)
(*   prebin    ! a X b                each prefix before each binary          *)
(*   binpre    a X ! b                                                        *)
(*   prepost   ! a P ,  ! a P Q       postfix forms after prefix forms        *)
(*   postbin   a P X b ,  a X b P     postfix forms against binary operators  *)
(*   prepostbin ! a P X b , ! a X b P                                         *)
(*   adj       a S1..Sk b , a S1..Sk  every string of k <= AdjLen pure        *)
(*             operator symbols, written with blanks (tokens as written) and  *)
(*             without (tokens = Lex of the characters)                       *)
(***************************************************************************)
EXTENDS Prec, Json, IOUtils

CONSTANTS Thorough,      \* all triples / longer adjacencies
          SamplePermille \* share of the all-distinct-level triples taken in the quick tier

VARIABLES cs, m

Seed == IF "VERIF_SEED" \in DOMAIN IOEnv THEN atoi(IOEnv.VERIF_SEED) ELSE 1

NB == Len(BinOps)
NP == Len(PreOps)
NQ == Len(PostOps)
BT(i) == Tok(BinOps[i])
PT(i) == Tok(PreOps[i])
QT(i) == Tok(PostOps[i])
A == Opd("a")
B == Opd("b")
C == Opd("c")
D == Opd("d")

\* ------------------------------------------------------------ token families
PairSeqs == [p \in 1..(NB * NB) |->
               <<A, BT(((p - 1) \div NB) + 1), B, BT(((p - 1) % NB) + 1), C>>]

TripleIdx == {<<x, y, z>> : x \in 1..NB, y \in 1..NB, z \in 1..NB}
LevelsDistinct(t) == Cardinality({BinOps[t[1]].lvl, BinOps[t[2]].lvl, BinOps[t[3]].lvl}) = 3
Sampled(t) ==
  LET n == (t[1] * NB + t[2]) * NB + t[3]
  IN ((n * 7919 + (Seed % 1000) * 104729 + 13) % 1009) * 1000 < SamplePermille * 1009
TripleSel == IF Thorough THEN TripleIdx
             ELSE {t \in TripleIdx : ~LevelsDistinct(t) \/ Sampled(t)}
TripleSeqs == LET s == SetToSeq(TripleSel)
              IN [i \in 1..Len(s) |-> <<A, BT(s[i][1]), B, BT(s[i][2]), C, BT(s[i][3]), D>>]

Grid2(n1, n2) == SetToSeq({<<x, y>> : x \in 1..n1, y \in 1..n2})
Grid3(n1, n2, n3) == SetToSeq({<<x, y, z>> : x \in 1..n1, y \in 1..n2, z \in 1..n3})
MapSeq(s, F(_)) == [i \in 1..Len(s) |-> F(s[i])]

PreBinSeqs == MapSeq(Grid2(NP, NB), LAMBDA g : <<PT(g[1]), A, BT(g[2]), B>>)
BinPreSeqs == MapSeq(Grid2(NB, NP), LAMBDA g : <<A, BT(g[1]), PT(g[2]), B>>)
PrePost1Seqs == MapSeq(Grid2(NP, NQ), LAMBDA g : <<PT(g[1]), A, QT(g[2])>>)
PrePost2Seqs == SelectSeq(MapSeq(Grid3(NP, NQ, NQ), LAMBDA g : <<PT(g[1]), A, QT(g[2]), QT(g[3])>>),
                          Determined)
PostBinSeqs == MapSeq(Grid2(NQ, NB), LAMBDA g : <<A, QT(g[1]), BT(g[2]), B>>)
BinPostSeqs == MapSeq(Grid2(NB, NQ), LAMBDA g : <<A, BT(g[1]), B, QT(g[2])>>)
PrePostBinSeqs == MapSeq(Grid3(NP, NQ, NB), LAMBDA g : <<PT(g[1]), A, QT(g[2]), BT(g[3]), B>>)
PreBinPostSeqs == MapSeq(Grid3(NP, NB, NQ), LAMBDA g : <<PT(g[1]), A, BT(g[2]), B, QT(g[3])>>)

Spaced(fam, ts) ==
  [fam |-> fam, parts |-> [i \in 1..Len(ts) |-> SrcText(ts[i])], sep |-> " ",
   toks |-> ts, expect |-> Show(Group(ts)), chars |-> <<>>]
Fam(fam, seqs) == [i \in 1..Len(seqs) |-> Spaced(fam, seqs[i])]

\* ------------------------------------------------------------ adjacency family
AdjLen == IF Thorough THEN 3 ELSE 2
SymSeqSet(k) == IF k = 1 THEN {<<s>> : s \in SymSet}
                ELSE IF k = 2 THEN {<<s, u>> : s \in SymSet, u \in SymSet}
                ELSE {<<s, u, w>> : s \in SymSet, u \in SymSet, w \in SymSet}
SymSeqs == UNION {SymSeqSet(k) : k \in 1..AdjLen}
\* the documentation's `? type' with the type `!' (never) makes `?' followed by `!' a level-1
\* form, not the filter operator followed by NOT; the table does not settle it: left out
QuestionBang(chars) == \E i \in 1..(Len(chars) - 1) : chars[i] = "?" /\ chars[i + 1] = "!"
RunChars(ss) == FlattenSeq(ss)
Contexts == {"ab", "a"}
Wrap(ctx, names) == IF ctx = "ab" THEN <<"a">> \o names \o <<"b">> ELSE <<"a">> \o names

AdjCase(ctx, names, sep, chars) ==
  LET ts == Classify(Wrap(ctx, names))
      ok == Accepted(ts) /\ Determined(ts)
  IN [fam |-> IF sep = "" THEN "adj_compact" ELSE "adj_spaced",
      parts |-> IF sep = "" THEN Wrap(ctx, <<Cat(chars)>>) ELSE Wrap(ctx, names), sep |-> sep,
      toks |-> IF ok THEN ts ELSE <<>>,
      expect |-> IF ok THEN Show(Group(ts)) ELSE "reject", chars |-> chars]

AdjSpaced == LET s == SetToSeq({<<ctx, ss>> : ctx \in Contexts,
                                 ss \in {x \in SymSeqs : ~QuestionBang(RunChars(x))}})
             IN [i \in 1..Len(s) |->
                   AdjCase(s[i][1], [j \in 1..Len(s[i][2]) |-> Cat(s[i][2][j])], " ", RunChars(s[i][2]))]
CompactRuns == {RunChars(ss) : ss \in SymSeqs} \ {r \in {RunChars(ss) : ss \in SymSeqs} : QuestionBang(r)}
AdjCompact == LET s == SetToSeq({<<ctx, r>> : ctx \in Contexts, r \in CompactRuns})
              IN [i \in 1..Len(s) |-> AdjCase(s[i][1], Lex(s[i][2]), "", s[i][2])]

Cases == Fam("pair", PairSeqs) \o Fam("triple", TripleSeqs)
         \o Fam("prebin", PreBinSeqs) \o Fam("binpre", BinPreSeqs)
         \o Fam("prepost", PrePost1Seqs) \o Fam("prepost", PrePost2Seqs)
         \o Fam("postbin", PostBinSeqs) \o Fam("postbin", BinPostSeqs)
         \o Fam("prepostbin", PrePostBinSeqs) \o Fam("prepostbin", PreBinPostSeqs)
         \o AdjSpaced \o AdjCompact
NC == Len(Cases)

\* ------------------------------------------------------------ the transition system
Init == /\ cs \in 1..NC
        /\ m = MInit(Cases[cs].toks)
Reduce == MustReduce(m) /\ m' = MReduce(m) /\ UNCHANGED cs
Shift == ~MustReduce(m) /\ m.rest # <<>> /\ m' = MShift(m) /\ UNCHANGED cs
Next == Reduce \/ Shift
Spec == Init /\ [][Next]_<<cs, m>>

Ts == Cases[cs].toks
AtStart == m = MInit(Ts)
Grouped == Ts # <<>>

\* laws ---------------------------------------------------------------------
\* the cases are inside the module's domain and Group always finds a legal split
InvDomain == AtStart /\ Grouped => WellFormed(Ts) /\ Determined(Ts) /\ GroupSplitOk(Ts)
\* Group uses every token exactly once, in order
InvTokensOnce == AtStart /\ Grouped => Toks(Group(Ts)) = Ts
\* the table determines exactly one tree, and it is Group's
InvUnique == AtStart /\ Grouped => UniqueAdmissible(Ts)
\* the machine neither loses nor duplicates tokens
InvConserve == MCount(m) = Len(Ts)
\* precedence climbing arrives at the declarative grouping
InvAgree == Grouped /\ MDone(m) => m.opds = <<Group(Ts)>>
\* the machine stops only when it is done
InvProgress == Grouped => MDone(m) \/ ENABLED Next
\* maximal munch: lossless, maximal, and no multi-character operator is ever split
InvLex == AtStart /\ Cases[cs].chars # <<>> =>
            /\ LexLossless(Cases[cs].chars) /\ LexMaximal(Cases[cs].chars)
            /\ \A nm \in Range(Lex(Cases[cs].chars)) : nm \in SymNames
InvTable == AtStart /\ cs = 1 => TableIsFunction /\ NeverSplit

\* ------------------------------------------------------------ emission
Out == IOEnv.VERIF_OUT
FamCount(f) == Cardinality({i \in 1..NC : Cases[i].fam = f})
Emit ==
  /\ TLCGet("stats").distinct > 0
  /\ ndJsonSerialize(Out \o "/prec_cases.ndjson",
        [i \in 1..NC |-> [id |-> i, fam |-> Cases[i].fam, parts |-> Cases[i].parts,
                          sep |-> Cases[i].sep, expect |-> Cases[i].expect,
                          toks |-> [j \in 1..Len(Cases[i].toks) |->
                                      <<Cases[i].toks[j].t, Cases[i].toks[j].s>>]]])
  /\ PrintT(<<"COUNTS", ToJson([f \in {"pair", "triple", "prebin", "binpre", "prepost", "postbin",
                                      "prepostbin", "adj_spaced", "adj_compact"} |-> FamCount(f)])>>)
  /\ PrintT(<<"TABLE", ToJson([bin |-> NB, pre |-> NP, post |-> NQ, syms |-> Cardinality(SymSet),
                               rejects |-> Cardinality({i \in 1..NC : Cases[i].expect = "reject"})])>>)
=============================================================================
