------------------------------- MODULE Types -------------------------------
(***************************************************************************)
(* SimpleSL's type algebra: the `matches' relation (subtyping), the join    *)
(* used for `|' / concat, the meet used to intersect parameter types        *)
(* (conjoin), the queries the checker asks of (unions of) types, run-time   *)
(* type tags of values and content-recursive membership of a value in a     *)
(* type.  Types and values are tagged records so that TLC can compare them  *)
(* and JSON can carry them.                                                  *)
(*                                                                           *)
(*   base        [k |-> "bool"|"int"|"float"|"string"|"void"|"any"|"never"]  *)
(*   array       [k |-> "array", e |-> T]                                    *)
(*   mut         [k |-> "mut",   e |-> T]                                    *)
(*   tuple       [k |-> "tuple", es |-> <<T1, ..., Tn>>]                     *)
(*   function    [k |-> "fn", ps |-> <<P1, ..., Pn>>, r |-> R]               *)
(*   struct      [k |-> "struct", fs |-> [name -> T]]                        *)
(*   union       [k |-> "multi", ms |-> {T1, ..., Tn}]   n >= 2, flat,       *)
(*               no any / never member (what Join produces)                 *)
(***************************************************************************)
EXTENDS Integers, Sequences, FiniteSets, SequencesExt, FiniteSetsExt, TLC

Base(n) == [k |-> n]
TBool   == Base("bool")
TInt    == Base("int")
TFloat  == Base("float")
TString == Base("string")
TVoid   == Base("void")
TAny    == Base("any")
TNever  == Base("never")
Arr(t)      == [k |-> "array", e |-> t]
MutT(t)     == [k |-> "mut", e |-> t]
Tup(ts)     == [k |-> "tuple", es |-> ts]
Fn(ps, r)   == [k |-> "fn", ps |-> ps, r |-> r]
Struct(fs)  == [k |-> "struct", fs |-> fs]
Multi(ms)   == [k |-> "multi", ms |-> ms]

IsMulti(t) == t.k = "multi"
Members(t) == IF IsMulti(t) THEN t.ms ELSE {t}

(***************************************************************************)
(* Join: the normalising union constructor (Type::concat, `|').             *)
(***************************************************************************)
Join(a, b) ==
  IF a.k = "never" THEN b
  ELSE IF b.k = "never" THEN a
  ELSE IF a.k = "any" \/ b.k = "any" THEN TAny
  ELSE IF a = b THEN a
  ELSE Multi(Members(a) \cup Members(b))

RECURSIVE JoinSeq(_)
JoinSeq(ts) == IF ts = <<>> THEN TNever ELSE Join(Head(ts), JoinSeq(Tail(ts)))

JoinSet(S) == IF S = {} THEN TNever
              ELSE LET RECURSIVE J(_)
                       J(R) == IF R = {} THEN TNever
                               ELSE LET x == CHOOSE x \in R : TRUE IN Join(x, J(R \ {x}))
                   IN J(S)

(***************************************************************************)
(* Matches(a, b): "a value of type a may be used where b is expected".      *)
(* Transcription of Type::matches; the order of the arms is the code's.     *)
(***************************************************************************)
RECURSIVE Matches(_, _)
Matches(a, b) ==
  IF a.k = "never" THEN TRUE
  ELSE IF a.k = "fn" /\ b.k = "fn" THEN
         /\ Len(a.ps) = Len(b.ps)
         /\ \A i \in 1..Len(a.ps) : Matches(b.ps[i], a.ps[i])
         /\ Matches(a.r, b.r)
  ELSE IF a.k = "array" /\ b.k = "array" THEN Matches(a.e, b.e)
  ELSE IF a.k = "struct" /\ b.k = "struct" THEN
         \A f \in DOMAIN b.fs : f \in DOMAIN a.fs /\ Matches(a.fs[f], b.fs[f])
  ELSE IF a.k = "multi" THEN \A m \in a.ms : Matches(m, b)
  ELSE IF b.k = "multi" THEN \E m \in b.ms : Matches(a, m)
  ELSE IF b.k = "any" THEN TRUE
  ELSE IF a.k = "tuple" /\ b.k = "tuple" THEN
         /\ Len(a.es) = Len(b.es)
         /\ \A i \in 1..Len(a.es) : Matches(a.es[i], b.es[i])
  ELSE a = b

(***************************************************************************)
(* Meet: Type::conjoin, used to intersect the parameter types of a union    *)
(* of function types.                                                       *)
(***************************************************************************)
RECURSIVE Meet(_, _)
Meet(a, b) ==
  IF a = b THEN a
  ELSE IF b.k = "any" THEN a
  ELSE IF a.k = "any" THEN b
  ELSE IF a.k = "array" /\ b.k = "array" THEN Arr(Meet(a.e, b.e))
  ELSE IF a.k = "tuple" /\ b.k = "tuple" THEN
         IF Len(a.es) # Len(b.es) THEN TNever
         ELSE Tup([i \in 1..Len(a.es) |-> Meet(a.es[i], b.es[i])])
  ELSE IF a.k = "multi" THEN JoinSet({Meet(m, b) : m \in a.ms})
  ELSE IF b.k = "multi" THEN JoinSet({Meet(m, a) : m \in b.ms})
  ELSE IF a.k = "fn" /\ b.k = "fn" THEN
         IF Len(a.ps) # Len(b.ps) THEN TNever
         ELSE LET r == Meet(a.r, b.r) IN
              IF r = TNever THEN TNever
              ELSE Fn([i \in 1..Len(a.ps) |-> Join(a.ps[i], b.ps[i])], r)
  ELSE TNever

(***************************************************************************)
(* Queries on (unions of) types.  Each is defined declaratively over the    *)
(* member SET (Q...) and as the left fold over a member SEQUENCE that the   *)
(* code performs (F...); None is the "not applicable" answer.               *)
(***************************************************************************)
None == [k |-> "none"]
IsNone(x) == x = None

\* --- per-member answers
IndexResult1(t)    == IF t.k = "array" THEN t.e ELSE IF t.k = "string" THEN TString ELSE None
ElementType1(t)    == IF t.k = "array" THEN t.e ELSE None
MutElementType1(t) == IF t.k = "mut" THEN t.e ELSE None
ReturnType1(t)     == IF t.k = "fn" THEN t.r ELSE None
FieldType1(t, f)   == IF t.k = "struct" /\ f \in DOMAIN t.fs THEN t.fs[f] ELSE None
TupleAt1(t, i)     == IF t.k = "tuple" /\ i <= Len(t.es) THEN t.es[i] ELSE None

\* --- declarative: None if any member says None, else the join of the answers
JoinQuery(t, Q(_)) ==
  LET as == {Q(m) : m \in Members(t)} IN
  IF None \in as THEN None ELSE JoinSet(as)

QIndexResult(t)    == JoinQuery(t, IndexResult1)
QElementType(t)    == JoinQuery(t, ElementType1)
QMutElementType(t) == JoinQuery(t, MutElementType1)
QReturnType(t)     == JoinQuery(t, ReturnType1)
QFieldType(t, f)   == LET Q(m) == FieldType1(m, f) IN JoinQuery(t, Q)
QTupleAt(t, i)     == LET Q(m) == TupleAt1(m, i) IN JoinQuery(t, Q)
QHasField(t, f)    == \A m \in Members(t) : m.k = "struct" /\ f \in DOMAIN m.fs
QIsFunction(t)     == \A m \in Members(t) : m.k = "fn"
QIsTuple(t)        == \A m \in Members(t) : m.k = "tuple"
QIsMut(t)          == \A m \in Members(t) : m.k = "mut"
QTupleLen(t)       == LET ls == {IF m.k = "tuple" THEN Len(m.es) ELSE -1 : m \in Members(t)} IN
                      IF -1 \in ls \/ Cardinality(ls) # 1 THEN -1 ELSE CHOOSE l \in ls : TRUE
QMinTupleLen(t)    == LET ls == {IF m.k = "tuple" THEN Len(m.es) ELSE -1 : m \in Members(t)} IN
                      IF -1 \in ls THEN -1 ELSE Min(ls)

\* flatten_tuple: a union of tuples of one length becomes the tuple of joined components
QFlattenTuple(t) ==
  IF QTupleLen(t) = -1 THEN None
  ELSE Tup([i \in 1..QTupleLen(t) |-> JoinSet({m.es[i] : m \in Members(t)})])

\* params: component-wise Meet over the members (all of one arity)
RECURSIVE MeetSeq(_)
MeetSeq(ts) == IF Len(ts) = 1 THEN ts[1] ELSE Meet(MeetSeq(SubSeq(ts, 1, Len(ts) - 1)), ts[Len(ts)])

\* iter_element: the element type T of an iterator () -> (bool, T)
IterElement1(t) ==
  IF t.k # "fn" \/ Len(t.ps) # 0 THEN None
  ELSE LET ft == QFlattenTuple(t.r) IN
       IF IsNone(ft) \/ Len(ft.es) # 2 \/ ft.es[1] # TBool THEN None ELSE ft.es[2]
QIterElement(t) == JoinQuery(t, IterElement1)

IteratorType == Fn(<<>>, Tup(<<TBool, TAny>>))
QIsIterator(t)    == Matches(t, IteratorType)
QIsStruct(t)      == Matches(t, Struct(<<>>))
QCanBeIndexed(t)  == Matches(t, Multi({TString, Arr(TAny)}))

\* --- the folds the code performs, over a given order of the members
FoldJoin(ms, Q(_)) ==
  LET RECURSIVE F(_, _)
      F(acc, i) == IF i > Len(ms) THEN acc
                   ELSE LET c == Q(ms[i]) IN IF IsNone(c) THEN None ELSE F(Join(acc, c), i + 1)
      first == Q(ms[1])
  IN IF IsNone(first) THEN None ELSE F(first, 2)

\* params(): component-wise Meet over the members; answer None or [k |-> "some", ps |-> <<...>>]
SomePs(ps) == [k |-> "some", ps |-> ps]
FoldParams(ms) ==
  LET P(m) == IF m.k = "fn" THEN SomePs(m.ps) ELSE None
      RECURSIVE F(_, _)
      F(acc, i) == IF i > Len(ms) THEN SomePs(acc)
                   ELSE LET c == P(ms[i]) IN
                        IF IsNone(c) THEN None
                        ELSE IF Len(c.ps) # Len(acc) THEN None
                        ELSE F([j \in 1..Len(acc) |-> Meet(acc[j], c.ps[j])], i + 1)
      first == P(ms[1])
  IN IF IsNone(first) THEN None ELSE F(first.ps, 2)

Perms(S) == {p \in [1..Cardinality(S) -> S] : \A x \in S : \E i \in DOMAIN p : p[i] = x}

FoldsAgree(t) ==
  \A p \in Perms(Members(t)) :
     /\ FoldJoin(p, IndexResult1) = QIndexResult(t)
     /\ FoldJoin(p, ElementType1) = QElementType(t)
     /\ FoldJoin(p, MutElementType1) = QMutElementType(t)
     /\ FoldJoin(p, ReturnType1) = QReturnType(t)
     /\ FoldJoin(p, IterElement1) = QIterElement(t)
     /\ LET ps == FoldParams(p) IN
        \A q \in Perms(Members(t)) :
           LET qs == FoldParams(q) IN
           \* Meet builds unions, so two orders may differ syntactically; they must be equivalent
           IF IsNone(ps) THEN IsNone(qs)
           ELSE /\ ~IsNone(qs) /\ Len(ps.ps) = Len(qs.ps)
                /\ \A j \in 1..Len(ps.ps) : Matches(ps.ps[j], qs.ps[j]) /\ Matches(qs.ps[j], ps.ps[j])

(***************************************************************************)
(* Values, their run-time tags (as_type) and membership.                    *)
(*   [k |-> "bool", v |-> b] [k |-> "int", v |-> n] [k |-> "float", v |-> h]  *)
(*   [k |-> "string", v |-> s] [k |-> "void"]                                *)
(*   [k |-> "array", tag |-> T, es |-> <<...>>]   tag = hidden element type  *)
(*   [k |-> "tuple", es |-> <<...>>]  [k |-> "struct", fs |-> [name -> V]]   *)
(*   [k |-> "cell", ty |-> T, c |-> V]   (declared type, current content)    *)
(*   [k |-> "fnv", sig |-> T]                                               *)
(***************************************************************************)
RECURSIVE TagOf(_)
TagOf(v) ==
  CASE v.k \in {"bool", "int", "float", "string", "void"} -> Base(v.k)
    [] v.k = "array"  -> Arr(v.tag)
    [] v.k = "tuple"  -> Tup([i \in 1..Len(v.es) |-> TagOf(v.es[i])])
    [] v.k = "struct" -> Struct([f \in DOMAIN v.fs |-> TagOf(v.fs[f])])
    [] v.k = "cell"   -> MutT(v.ty)
    [] v.k = "fnv"    -> v.sig

\* content-recursive membership (does not look at hidden tags)
RECURSIVE Holds(_, _)
Holds(t, v) ==
  CASE t.k = "any"   -> TRUE
    [] t.k = "never" -> FALSE
    [] t.k = "multi" -> \E m \in t.ms : Holds(m, v)
    [] t.k \in {"bool", "int", "float", "string", "void"} -> v.k = t.k
    [] t.k = "array" -> v.k = "array" /\ \A i \in 1..Len(v.es) : Holds(t.e, v.es[i])
    [] t.k = "tuple" -> /\ v.k = "tuple" /\ Len(v.es) = Len(t.es)
                        /\ \A i \in 1..Len(t.es) : Holds(t.es[i], v.es[i])
    [] t.k = "struct" -> /\ v.k = "struct"
                         /\ \A f \in DOMAIN t.fs : f \in DOMAIN v.fs /\ Holds(t.fs[f], v.fs[f])
    [] t.k = "mut" -> v.k = "cell" /\ v.ty = t.e /\ Holds(v.ty, v.c)
    [] t.k = "fn"  -> v.k = "fnv" /\ Matches(v.sig, t)

\* a value is well formed when its hidden tags and declared types are honest about the contents
RECURSIVE WellFormed(_)
WellFormed(v) ==
  CASE v.k = "array"  -> \A i \in 1..Len(v.es) :
                            WellFormed(v.es[i]) /\ Matches(TagOf(v.es[i]), v.tag)
    [] v.k = "tuple"  -> \A i \in 1..Len(v.es) : WellFormed(v.es[i])
    [] v.k = "struct" -> \A f \in DOMAIN v.fs : WellFormed(v.fs[f])
    [] v.k = "cell"   -> WellFormed(v.c) /\ Matches(TagOf(v.c), v.ty)
    [] OTHER -> TRUE

\* C01's judgement: by the tag and by the contents
Member(v, t) == Matches(TagOf(v), t) /\ Holds(t, v)

=============================================================================
