------------------------------ MODULE MC_Seqs ------------------------------
(***************************************************************************)
(* Model-checking harness for Seqs (C09): a universe of strings and arrays  *)
(* of length 0..MaxLen, index / bound / step axes that exceed the length on *)
(* both sides and contain the i64 extremes symbolically, the consistency    *)
(* laws of indexing, slicing and len as invariants, and emission of every   *)
(* case with the specification's prediction for replay against the code.    *)
(*                                                                           *)
(* State machine (two-level fan-out so that TLC's workers share the rows):  *)
(*   row = 0        start                                                   *)
(*   row = -c       chunk c (1..Chunks)                                     *)
(*   1..NA          "sequence number row of AtSeq has been indexed with     *)
(*                   every index"                                           *)
(*   NA+1..NA+NS*NB "slice sequence i has been sliced with start number a   *)
(*                   and every (stop, step)"                                *)
(***************************************************************************)
EXTENDS Seqs, SequencesExt, Json, IOUtils

CONSTANTS MaxLen,   \* sequences of length 0..MaxLen
          Chunks

VARIABLE row

\* ---------------------------------------------------------------- universe
\* scalar values encoded in 1, 2, 3 and 4 bytes of UTF-8: a  e-acute  euro sign  grinning face
C1 == 97
C2 == 233
C3 == 8364
C4 == 128512
C5 == 769                     \* a combining acute accent: a scalar value of its own, whatever precedes it
Chars == {C1, C2, C3, C4, C5}
E1 == VInt(1)
E2 == VFloat(5)               \* 2.5
E3 == VStr(<<115>>)           \* "s"
E4 == VBool(TRUE)
E5 == VArr(<<VInt(7)>>)
Elems == {E1, E2, E3, E4}

Pre(xs, n) == SubSeq(xs, 1, n)

\* indexing: every string / mixed array over the four-letter alphabets
AtSet == UNION {{VStr(f) : f \in [1..n -> Chars]} \cup {VArr(f) : f \in [1..n -> Elems]} : n \in 0..MaxLen}
AtSeq == SetToSeq(AtSet)
NA == Len(AtSeq)

\* slicing depends on the length and kind only; a few sequences per length and kind
\* (mixed / homogeneous arrays, strings mixing all encodings in both orders, ASCII, 4-byte only)
SliceSet0 == UNION {{VArr(Pre(<<E1, E2, E3, E4, E5, E1>>, n)),
                     VArr(Pre(<<VInt(10), VInt(20), VInt(30), VInt(40), VInt(50), VInt(60)>>, n)),
                     VStr(Pre(<<C1, C2, C3, C4, C1, C2>>, n)),
                     VStr(Pre(<<C4, C3, C2, C1, C4, C3>>, n)),
                     VStr(Pre(<<97, 98, 99, 100, 101, 102>>, n)),
                     VStr(Pre(<<C4, C4, C4, C4, C4, C4>>, n)),
                     VStr(Pre(<<C1, C5, C1, C5, C5, C2>>, n))} : n \in 0..MaxLen}
SSeq == SetToSeq(SliceSet0)
NS == Len(SSeq)

\* axes
IR == MaxLen + 3
IdxSeq == [j \in 1..(2 * IR + 1) |-> XI(j - IR - 1)] \o <<XMin(0), XMin(1), XMax(0), XMax(1)>>
BR == MaxLen + 2
BoundSeq == <<XNone>> \o [j \in 1..(2 * BR + 1) |-> XI(j - BR - 1)] \o <<XMin(0), XMin(1), XMax(0)>>
StepSeq == BoundSeq
NB == Len(BoundSeq)
IdxSet == SeqRange(IdxSeq)
BoundSet == SeqRange(BoundSeq)
StepSet == SeqRange(StepSeq)
FiniteBounds == {x \in BoundSet : x.k = "i"}

Total == NA + NS * NB

\* ------------------------------------------------------------------- laws
SingleItem(s, p) == WithItems(s, <<Items(s)[p]>>)      \* p 1-based

AtLaws(s) ==
  LET n == SeqLen(s) IN
  \A x \in IdxSet :
    LET r == At(s, x)
        j == Fin(x, n)
    IN /\ (r.k = "ok") = (-n <= j /\ j < n)                       \* succeeds exactly in range
       /\ r.k = "err" => r = OutOfBounds
       /\ x.k \in {"min", "max"} => r = OutOfBounds                 \* the i64 extremes never index
       /\ (r.k = "ok" /\ j >= 0) =>
            /\ r.v = ElemAt(s, j + 1)
            \* s[j:j+1] is the one-element sequence holding s[j]
            /\ PySlice(s, XI(j), XI(j + 1), XI(1)) = SingleItem(s, j + 1)
            /\ PySlice(s, XI(j), XI(j + 1), XNone) = SingleItem(s, j + 1)
            /\ IF s.k = "string" THEN r.v = SingleItem(s, j + 1)
               ELSE VArr(<<r.v>>) = SingleItem(s, j + 1)
       /\ (r.k = "ok" /\ j < 0) =>
            /\ r = At(s, XI(n + j))                                \* counts from the end
            /\ PySlice(s, XI(j), IF j = -1 THEN XNone ELSE XI(j + 1), XI(1)) = SingleItem(s, n + j + 1)

Monotone(ps, st) == \A j \in 1..(Len(ps) - 1) : IF st > 0 THEN ps[j] < ps[j + 1] ELSE ps[j] > ps[j + 1]

SliceLaws(s, start) ==
  LET n == SeqLen(s) IN
  \A stop \in BoundSet : \A step \in StepSet :
    LET r  == PySlice(s, start, stop, step)
        ps == SlicePositions(n, start, stop, step)
        st == StepOf(step, n)
    IN /\ r.k = s.k                                               \* a sequence of the same kind
       /\ SeqLen(r) = SliceLen(n, start, stop, step)              \* closed form of the length
       /\ SeqLen(r) <= n
       /\ SeqRange(ps) = SliceSet(n, start, stop, step)           \* operational = declarative
       /\ Len(ps) = Cardinality(SliceSet(n, start, stop, step))
       /\ Monotone(ps, st)
       /\ st = 0 => r = WithItems(s, <<>>)                        \* step 0 selects nothing
       \* indexing the slice agrees with indexing the sequence; one past the end is out of bounds
       /\ \A j \in 0..(Len(ps) - 1) : At(r, XI(j)) = At(s, XI(ps[j + 1]))
       /\ At(r, XI(Len(ps))) = OutOfBounds
       \* absent operands are Python's defaults
       /\ step.k = "none" => r = PySlice(s, start, stop, XI(1))
       /\ start.k = "none" => r = PySlice(s, IF st < 0 THEN XMax(0) ELSE XI(0), stop, step)
       /\ stop.k = "none" => r = PySlice(s, start, IF st < 0 THEN XMin(0) ELSE XMax(0), step)
       \* the symbolic extremes are the limit of the finite behaviour
       /\ (start.k = "i" /\ start.v <= -(n + 1)) => r = PySlice(s, XMin(0), stop, step)
       /\ (start.k = "i" /\ start.v >= n + 1) => r = PySlice(s, XMax(0), stop, step)
       /\ (stop.k = "i" /\ stop.v <= -(n + 1)) => r = PySlice(s, start, XMin(0), step)
       /\ (stop.k = "i" /\ stop.v >= n + 1) => r = PySlice(s, start, XMax(0), step)
       /\ (step.k = "i" /\ step.v <= -(n + 1)) => r = PySlice(s, start, stop, XMin(0))
       /\ (step.k = "i" /\ step.v >= n + 1) => r = PySlice(s, start, stop, XMax(0))
       /\ (start.k = "min") => r = PySlice(s, XMin(0), stop, step)  \* MIN_INT + d behaves like MIN_INT
       \* slices of slices
       /\ PySlice(r, XNone, XNone, XNone) = r
       /\ Items(PySlice(r, XNone, XNone, XI(-1))) = Rev(Items(r))

\* laws that do not depend on stop / step (checked in the rows whose start is absent)
WholeLaws(s) ==
  LET n == SeqLen(s) IN
  /\ PySlice(s, XNone, XNone, XNone) = s
  /\ Items(PySlice(s, XNone, XNone, XI(-1))) = Rev(Items(s))                 \* full reverse
  /\ PySlice(PySlice(s, XNone, XNone, XI(-1)), XNone, XNone, XI(-1)) = s
  \* s[:k] followed by s[k:] is s, for every k (also negative, out of range, extreme)
  /\ \A k \in BoundSet \ {XNone} :
       Items(PySlice(s, XNone, k, XNone)) \o Items(PySlice(s, k, XNone, XNone)) = Items(s)
  \* slices of slices compose
  /\ \A a \in 0..(n + 1) : \A d \in 0..(n + 1) :
       PySlice(PySlice(s, XI(a), XNone, XNone), XI(d), XNone, XNone) = PySlice(s, XI(a + d), XNone, XNone)
  /\ \A a \in 0..(n + 1) : \A d \in 0..(n + 1) :
       PySlice(PySlice(s, XNone, XI(a), XNone), XNone, XI(d), XNone)
         = PySlice(s, XNone, XI(IF a < d THEN a ELSE d), XNone)
  /\ \A a \in FiniteBounds : \A c \in 1..(n + 1) : \A f \in 1..(n + 1) :
       PySlice(PySlice(s, a, XNone, XI(c)), XNone, XNone, XI(f)) = PySlice(s, a, XNone, XI(c * f))

IsAtRow == row >= 1 /\ row <= NA
IsSliceRow == row > NA
SliceS == SSeq[((row - NA - 1) \div NB) + 1]
SliceA == BoundSeq[((row - NA - 1) % NB) + 1]

InvAt    == IsAtRow => AtLaws(AtSeq[row])
InvSlice == IsSliceRow => SliceLaws(SliceS, SliceA)
InvWhole == (IsSliceRow /\ SliceA = XNone) => WholeLaws(SliceS)

Init == row = 0
Next == \/ row = 0 /\ row' \in {-c : c \in 1..Chunks}
        \/ row < 0 /\ row' \in {i \in 1..Total : i % Chunks = (-row) % Chunks}
Spec == Init /\ [][Next]_row

\* --------------------------------------------------------------- emission
Out == IOEnv.VERIF_OUT

Emit ==
  /\ TLCGet("stats").distinct > 0
  /\ ndJsonSerialize(Out \o "/seqs_axes.ndjson",
        <<[idx |-> IdxSeq, bounds |-> BoundSeq, steps |-> StepSeq, maxlen |-> MaxLen]>>)
  /\ ndJsonSerialize(Out \o "/seqs_at.ndjson",
        [i \in 1..NA |-> [s |-> AtSeq[i], len |-> SeqLen(AtSeq[i]),
                          at |-> [j \in 1..Len(IdxSeq) |-> At(AtSeq[i], IdxSeq[j])]]])
  /\ ndJsonSerialize(Out \o "/seqs_slice.ndjson",
        [p \in 1..(NS * NB) |->
           LET s == SSeq[((p - 1) \div NB) + 1]
               a == ((p - 1) % NB) + 1
           IN [s |-> s, a |-> a,
               r |-> [b \in 1..NB |-> [c \in 1..NB |-> PySlice(s, BoundSeq[a], BoundSeq[b], StepSeq[c])]],
               n |-> [b \in 1..NB |-> [c \in 1..NB |->
                        SliceLen(SeqLen(s), BoundSeq[a], BoundSeq[b], StepSeq[c])]]]])
  /\ PrintT(<<"UNIVERSE", NA, NS, Len(IdxSeq), NB>>)
=============================================================================
