------------------------------ MODULE MC_Codes ------------------------------
(***************************************************************************)
(* Parsed programs as values with a history (C17: executing the same parsed  *)
(* program again yields an equal result with fresh mutable state, exec never *)
(* modifies what the code was parsed against; C05: the outcome of a run is a *)
(* function of the program, whatever ran before in the process).             *)
(*                                                                          *)
(* State: for each program of a pool, whether a parsed Code exists, and the  *)
(* history of steps.  Actions: Parse(j) (again: a fresh Code replaces the    *)
(* old one), Exec(j) (scoped run, Code::exec), ExecInto(j) (unscoped run     *)
(* into one host interpreter that lives as long as the behaviour,            *)
(* Code::exec_unscoped).  Every program of the pool is self-contained - it   *)
(* declares the names it uses - and each makes and changes state of its own  *)
(* (cells, counters made by functions, iterators, modules with cells,        *)
(* arrays of cells, structs holding cells), so anything an                    *)
(* implementation keeps between runs - inside a Code, per process, per host  *)
(* interpreter - shows as a result that depends on the history.  In the      *)
(* specification a run starts from the empty heap: the answer of every       *)
(* execution of program j is Answer(j), a constant.  TLC enumerates every    *)
(* behaviour of MaxLen steps; the ones that end in an execution are emitted  *)
(* and replayed in one process.                                              *)
(***************************************************************************)
EXTENDS LangAst, Json, IOUtils

CONSTANT MaxLen
VARIABLES parsed, hist

H(n) == Hide(WInt, I(n))
FnInt == WFn(<<>>, WInt)
Pool == <<
  \* a declared function that counts in a top-level cell
  <<Set("c", MutE(WInt, I(0))), FnDecl("inc", <<>>, WInt, <<Ret(Asg("+=", V("c"), I(1)))>>),
    CallE(V("inc"), <<>>), CallE(V("inc"), <<>>)>>,
  \* an iterator made at top level from a constant array, pulled twice, and the same array summed twice
  <<Set("xs", ArrE(<<I(1), I(2), I(3)>>)), Set("it", IterE(V("xs"))), Set("a", TupAt(CallE(V("it"), <<>>), 1)),
    Set("b", TupAt(CallE(V("it"), <<>>), 1)),
    TupE(<<V("a"), V("b"), RedE("$+", "int", IterE(V("xs"))), RedE("$+", "int", IterE(V("xs")))>>)>>,
  \* counters made by a factory, and a cell literal inside a function
  <<FnDecl("mkc", <<>>, FnInt, <<Set("n", MutE(WInt, I(0))), Ret(FnE(<<>>, WInt, <<Ret(Asg("+=", V("n"), I(1)))>>))>>),
    Set("c1", CallE(V("mkc"), <<>>)), Set("c2", CallE(V("mkc"), <<>>)),
    FnDecl("fresh", <<>>, WMut(WInt), <<Ret(MutE(WInt, I(5)))>>), Set("p", CallE(V("fresh"), <<>>)), Asg("+=", V("p"), I(1)),
    TupE(<<CallE(V("c1"), <<>>), CallE(V("c1"), <<>>), CallE(V("c2"), <<>>), Deref(V("p")), Deref(CallE(V("fresh"), <<>>))>>)>>,
  \* a module with a cell and a function over it; an array of aliases of one cell
  <<Set("m", ModE(<<Set("k", MutE(WInt, I(10))), FnDecl("bump", <<>>, WInt, <<Ret(Asg("+=", V("k"), I(1)))>>)>>)),
    Set("r1", CallE(Field(V("m"), "bump"), <<>>)), Set("r2", CallE(Field(V("m"), "bump"), <<>>)),
    Set("arr", RepE(MutE(WInt, I(0)), I(2))), Asg("+=", At(V("arr"), I(0)), I(7)),
    TupE(<<V("r1"), V("r2"), Deref(At(V("arr"), I(1)))>>)>>,
  \* a cell shared between the top level and a function value; a struct holding a cell
  <<Set("c", MutE(WInt, I(1))), Set("get", FnE(<<>>, WInt, <<Ret(Deref(V("c")))>>)), Asg("+=", V("c"), I(1)),
    Set("s", StructE(<< <<"cell", MutE(WInt, I(3))>>, <<"n", I(4)>> >>)), Asg("*=", Field(V("s"), "cell"), I(5)),
    TupE(<<CallE(V("get"), <<>>), Deref(Field(V("s"), "cell")), Field(V("s"), "n")>>)>>,
  \* loops over literals, a type filter, a reduction - twice inside a function called twice
  <<FnDecl("run", <<P("n", WInt)>>, WInt,
           <<Set("acc", MutE(WInt, I(0))),
             For("e", IterE(ArrE(<<I(1), I(2), V("n")>>)), Block(<<Asg("+=", V("acc"), V("e"))>>)),
             Ret(Bin("+", Deref(V("acc")), RedE("$+", "int", TFilterE(IterE(ArrE(<<I(10), S(<<97>>), I(20)>>)), WInt))))>>),
    TupE(<<CallE(V("run"), <<H(3)>>), CallE(V("run"), <<H(4)>>)>>)>>
>>
NP == Len(Pool)
Fuel == 4000
Answer(j) == Outcome(Run(Pool[j], Fuel))

Init == parsed = [j \in 1..NP |-> FALSE] /\ hist = <<>>
Parse(j) == /\ parsed' = [parsed EXCEPT ![j] = TRUE]
            /\ hist' = Append(hist, [a |-> "parse", j |-> j])
Exec(j, mode) == /\ parsed[j]
                 /\ UNCHANGED parsed
                 /\ hist' = Append(hist, [a |-> mode, j |-> j])
Next == /\ Len(hist) < MaxLen
        /\ \E j \in 1..NP : Parse(j) \/ Exec(j, "exec") \/ Exec(j, "exec-into")
Spec == Init /\ [][Next]_<<parsed, hist>>

\* every program of the pool runs to a value in the specification, and the value shows the state it made
AnswersAreValues == \A j \in 1..NP : Answer(j).status = "value"

IsRun(s) == s.a \in {"exec", "exec-into"}
EmitBehaviours ==
  (Len(hist) = MaxLen /\ IsRun(hist[MaxLen])) => PrintT(<<"REPLAY", ToJson(hist)>>)
EmitPool ==
  /\ TLCGet("stats").distinct > 0
  /\ ndJsonSerialize(IOEnv.VERIF_OUT \o "/codes_pool.ndjson",
                     [j \in 1..NP |-> [id |-> "code-" \o ToString(j), suite |-> "codes", prog |-> Pool[j], exp |-> Answer(j)]])
=============================================================================
