SPECIFICATION Spec
CONSTANTS
  Chunks = 8
  SampleMod = 1
INVARIANTS
  IterLaws
POSTCONDITION Emit
CHECK_DEADLOCK FALSE
