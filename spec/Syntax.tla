------------------------------- MODULE Syntax -------------------------------
(***************************************************************************)
(* C03 - parsing and checking is total.                                     *)
(*                                                                           *)
(* This module states                                                        *)
(*   (1) the token alphabet of SimpleSL (every operator, keyword, bracket,   *)
(*       type keyword, a few literals and identifiers),                      *)
(*   (2) the outcome machine: Parse(text) \in {Program, Error}.  A panic or  *)
(*       an abort is NOT a state of that machine, so an implementation run   *)
(*       that ends in one has no counterpart here and is a violation,        *)
(*   (3) the abstract grammar WITHOUT typing constraints: every statement    *)
(*       and operator form of docs/*.md, README.md and simplesl.pest as a    *)
(*       "form" (name, sort, child sorts, token template); ASTs are built by *)
(*       TLA+ set constructors over small leaf sets, so ill-typed            *)
(*       combinations are included on purpose,                               *)
(*   (4) the rendering of an AST into a token sequence (the only text the    *)
(*       implementation ever sees is tokens joined by one blank),            *)
(*   (5) the mutation operators over token sequences (delete, duplicate,     *)
(*       replace one token),                                                 *)
(*   (6) the constant-folding sub-suite: constant sub-expressions whose      *)
(*       folding fails, nested in every position where the surrounding       *)
(*       construct is live, with the error class that must be reported.      *)
(*                                                                           *)
(* Honest limit (DESIGN.md section 6, C03): the module enumerates the syntax *)
(* space and classifies outcomes; it does not model pest's matching.         *)
(***************************************************************************)
EXTENDS Naturals, Sequences, FiniteSets, TLC, SequencesExt

(***************************************************************************)
(* 1. Token alphabet                                                         *)
(***************************************************************************)
InfixTok   == {"+", "-", "*", "/", "%", "**", "<<", ">>", "&", "|", "^", "==", "!=", "<", "<=", ">",
               ">=", "&&", "||", "@", "?", "\\", "$"}
AssignTok  == {"=", "+=", "-=", "*=", "/=", "%=", "<<=", ">>=", "&=", "|=", "^=", "**="}
PostfixTok == {"$+", "$*", "$&&", "$||", "$&", "$|", "$]", "~"}
PrefixTok  == {"!"}                          \* "-" and "*" are also prefix operators
PunctTok   == {".", ",", ";", ":", ":=", "=>", "->"}
BracketTok == {"(", ")", "[", "]", "{", "}"}
KeywordTok == {"if", "else", "match", "loop", "while", "for", "in", "break", "continue", "return",
               "import", "mod", "struct", "mut", "true", "false"}
TypeTok    == {"int", "float", "string", "bool", "any"}
LiteralTok == {"0", "1", "1.5", "\"s\"", "()"}
IdentTok   == {"x", "f"}
CommentTok == {"//", "/*", "*/"}
\* characters that are no tokens of the language at all (a text may begin with anything, e.g. an interpreter directive)
ForeignTok == {"#", "#!", "`", "'", "§"}

Tokens == InfixTok \cup AssignTok \cup PostfixTok \cup PrefixTok \cup PunctTok \cup BracketTok
          \cup KeywordTok \cup TypeTok \cup LiteralTok \cup IdentTok \cup CommentTok \cup ForeignTok

\* reduced alphabet: one representative of each family of interchangeable tokens
CoreTokens == Tokens \ ({"-=", "*=", "/=", "%=", "<<=", ">>=", "&=", "|=", "^="}
                        \cup {"!=", "<=", ">", ">=", ">>", "%", "^", "$*", "$||", "$|", "false",
                              "float", "bool", "0", "//", "/*", "*/"})

\* names and literals used by the grammar's templates and contexts but not enumerated as tokens
AuxTok == {"y", "s", "b", "a", "t", "r", "c", "it", "u", "m", "w", "ca", "nv", "f2", "pr", "mkt", "mkr", "mka", "mki", "n", "p", "q", "g", "e", "z", "h",
           "2", "3", "5", "7", "63", "64", "9223372036854775807", "99999999999999999999",
           "\"@valid\"", "\"@invalid\"", "\"@illtyped\"", "\"@missing\"", "\"@dir\"", "\"@binary\"",
           "\"@self\""}

(***************************************************************************)
(* 2. Outcome machine                                                        *)
(***************************************************************************)
Outcomes == {"Program", "Error"}

\* error classes the folding sub-suite predicts (names of simplesl::Error variants)
FoldClasses == {"ZeroDivision", "ZeroModulo", "OverflowShift", "IndexOutOfBounds", "NegativeLength"}

\* A prediction is "any" (either outcome), "Program", "Error" or "Error:<class>".
Predictions == {"any", "Program", "Error"} \cup {"Error:" \o c : c \in FoldClasses}
Admissible(p) == IF p = "any" THEN Outcomes ELSE IF p = "Program" THEN {"Program"} ELSE {"Error"}

\* the transition relation of the outcome machine: from "Text" exactly one step to an outcome
OutcomeStep(from, to) == from = "Text" /\ to \in Outcomes

(***************************************************************************)
(* 3. Abstract grammar                                                       *)
(* sorts: "E" expression, "S" statement (an expression is a statement), "T"  *)
(* type.  A template is a sequence of tokens and slot markers "#1".."#3".    *)
(***************************************************************************)
Slots == {"#1", "#2", "#3"}
SlotIx(s) == CASE s = "#1" -> 1 [] s = "#2" -> 2 [] s = "#3" -> 3

F(name, sort, sorts, tpl) == [name |-> name, sort |-> sort, sorts |-> sorts, tpl |-> tpl]

InfixForms == {F("bin:" \o op, "E", <<"E", "E">>, <<"#1", op, "#2">>) :
                 op \in (InfixTok \ {"$"}) \cup AssignTok}
PrefixForms == {F("pre:" \o op, "E", <<"E">>, <<op, "#1">>) : op \in {"!", "-", "*"}}
PostfixForms == {F("post:" \o op, "E", <<"E">>, <<"#1", op>>) : op \in PostfixTok}

ExprForms == InfixForms \cup PrefixForms \cup PostfixForms \cup {
  F("reduce", "E", <<"E", "E", "E">>, <<"#1", "$", "#2", "#3">>),
  F("at", "E", <<"E", "E">>, <<"#1", "[", "#2", "]">>),
  F("slice_ab", "E", <<"E", "E", "E">>, <<"#1", "[", "#2", ":", "#3", "]">>),
  F("slice_a", "E", <<"E", "E">>, <<"#1", "[", "#2", ":", "]">>),
  F("slice_b", "E", <<"E", "E">>, <<"#1", "[", ":", "#2", "]">>),
  F("slice_none", "E", <<"E">>, <<"#1", "[", ":", "]">>),
  F("slice_none2", "E", <<"E">>, <<"#1", "[", ":", ":", "]">>),
  F("slice_c", "E", <<"E", "E">>, <<"#1", "[", ":", ":", "#2", "]">>),
  F("slice_ac", "E", <<"E", "E", "E">>, <<"#1", "[", "#2", ":", ":", "#3", "]">>),
  F("slice_bc", "E", <<"E", "E", "E">>, <<"#1", "[", ":", "#2", ":", "#3", "]">>),
  F("slice_ab_", "E", <<"E", "E", "E">>, <<"#1", "[", "#2", ":", "#3", ":", "]">>),
  F("slice_abc", "E", <<"E", "E", "E">>, <<"a", "[", "#1", ":", "#2", ":", "#3", "]">>),
  F("slice_sbc", "E", <<"E", "E", "E">>, <<"#1", "[", "#2", ":", "#2", ":", "#3", "]">>),
  F("call0", "E", <<"E">>, <<"#1", "(", ")">>),
  F("call1", "E", <<"E", "E">>, <<"#1", "(", "#2", ")">>),
  F("call2", "E", <<"E", "E", "E">>, <<"#1", "(", "#2", ",", "#3", ")">>),
  F("tacc0", "E", <<"E">>, <<"#1", ".", "0">>),
  F("tacc1", "E", <<"E">>, <<"#1", ".", "1">>),
  F("tacc2", "E", <<"E">>, <<"#1", ".", "2">>),
  F("tacc_big", "E", <<"E">>, <<"#1", ".", "99999999999999999999">>),
  F("facc_a", "E", <<"E">>, <<"#1", ".", "a">>),
  F("facc_z", "E", <<"E">>, <<"#1", ".", "z">>),
  F("tfilter", "E", <<"E", "T">>, <<"#1", "?", "#2">>),
  F("arr1", "E", <<"E">>, <<"[", "#1", "]">>),
  F("arr2", "E", <<"E", "E">>, <<"[", "#1", ",", "#2", "]">>),
  F("arr3", "E", <<"E", "E", "E">>, <<"[", "#1", ",", "#2", ",", "#3", "]">>),
  F("repeat", "E", <<"E", "E">>, <<"[", "#1", ";", "#2", "]">>),
  F("tup2", "E", <<"E", "E">>, <<"(", "#1", ",", "#2", ")">>),
  F("tup3", "E", <<"E", "E", "E">>, <<"(", "#1", ",", "#2", ",", "#3", ")">>),
  F("paren", "E", <<"E">>, <<"(", "#1", ")">>),
  F("struct1", "E", <<"E">>, <<"struct", "{", "a", ":=", "#1", "}">>),
  F("struct2", "E", <<"E", "E">>, <<"struct", "{", "a", ":=", "#1", ",", "b", ":=", "#2", "}">>),
  F("struct_dup", "E", <<"E", "E">>, <<"struct", "{", "a", ":=", "#1", ",", "a", ":=", "#2", "}">>),
  F("struct_short", "E", <<"E">>, <<"struct", "{", "x", ",", "z", ":=", "#1", "}">>),
  F("mut", "E", <<"E">>, <<"mut", "#1">>),
  F("mut_t", "E", <<"E", "T">>, <<"mut", "#2", "#1">>),
  F("fn0", "E", <<"S">>, <<"(", ")", "{", "#1", "}">>),
  F("fn0r", "E", <<"S", "T">>, <<"(", ")", "->", "#2", "{", "#1", "}">>),
  F("fn_ret", "E", <<"E", "T">>, <<"(", ")", "->", "#2", "{", "return", "#1", "}">>),
  F("fn1", "E", <<"S", "T">>, <<"(", "p", ":", "#2", ")", "{", "#1", "}">>),
  F("fn1r", "E", <<"S", "T", "T">>, <<"(", "p", ":", "#2", ")", "->", "#3", "{", "#1", "}">>),
  F("fn2", "E", <<"S", "T", "T">>, <<"(", "p", ":", "#2", ",", "q", ":", "#3", ")", "{", "#1", "}">>),
  F("fn_dup", "E", <<"S", "T">>, <<"(", "p", ":", "int", ",", "p", ":", "#2", ")", "{", "#1", ";", "p", "}">>),
  F("fn_use", "E", <<"E", "T">>, <<"(", "p", ":", "#2", ")", "{", "return", "p", "+", "#1", "}">>),
  F("mod1", "E", <<"S">>, <<"mod", "{", "#1", "}">>),
  F("mod2", "E", <<"S", "S">>, <<"mod", "{", "n", ":=", "#1", ";", "g", ":=", "#2", "}">>)
}

StmtForms == {
  F("set", "S", <<"S">>, <<"n", ":=", "#1">>),
  F("set_x", "S", <<"S">>, <<"x", ":=", "#1", ";", "x">>),
  F("des0", "S", <<"S">>, <<"(", ")", ":=", "#1">>),
  F("des1", "S", <<"S">>, <<"(", "n", ")", ":=", "#1">>),
  F("des2", "S", <<"S">>, <<"(", "n", ",", "q", ")", ":=", "#1", ";", "q">>),
  F("des3", "S", <<"S">>, <<"(", "n", ",", "q", ",", "n", ")", ":=", "#1">>),
  F("fdecl", "S", <<"S", "T", "T">>, <<"g", ":=", "(", "p", ":", "#2", ")", "->", "#3", "{", "#1", "}">>),
  F("fdecl_rec", "S", <<"E">>, <<"g", ":=", "(", "p", ":", "int", ")", "->", "int", "{", "return", "g", "(", "#1", ")", "}">>),
  F("fdecl_noret", "S", <<"S", "T">>, <<"g", ":=", "(", ")", "->", "#2", "{", "if", "b", "{", "return", "#1", "}", "}">>),
  F("block1", "S", <<"S">>, <<"{", "#1", "}">>),
  F("block2", "S", <<"S", "S">>, <<"{", "#1", ";", "#2", "}">>),
  F("seq2", "S", <<"S", "S">>, <<"#1", ";", "#2">>),
  F("seq3", "S", <<"S", "S", "S">>, <<"#1", ";", "#2", ";", "#3">>),
  F("if", "S", <<"E", "S">>, <<"if", "#1", "{", "#2", "}">>),
  F("if_bare", "S", <<"E", "S">>, <<"if", "#1", "#2">>),
  F("ifelse", "S", <<"E", "S", "S">>, <<"if", "#1", "{", "#2", "}", "else", "{", "#3", "}">>),
  F("ifelse_bare", "S", <<"E", "S", "S">>, <<"if", "#1", "#2", "else", "#3">>),
  F("elseif", "S", <<"E", "S", "S">>, <<"if", "#1", "{", "#2", "}", "else", "if", "#1", "{", "#3", "}">>),
  F("ifset", "S", <<"E", "T">>, <<"if", "n", ":", "#2", "=", "#1", "{", "n", "}">>),
  F("ifset_else", "S", <<"E", "T", "S">>, <<"if", "n", ":", "#2", "=", "#1", "{", "#3", "}", "else", "{", "#3", "}">>),
  F("ifset_bare", "S", <<"E", "T", "S">>, <<"if", "n", ":", "#2", "=", "#1", "#3", "else", "#3">>),
  F("match0", "S", <<"E">>, <<"match", "#1", "{", "}">>),
  F("match_v", "S", <<"E", "E", "S">>, <<"match", "#1", "{", "#2", "=>", "#3", ",", "}">>),
  F("match_vd", "S", <<"E", "E", "S">>, <<"match", "#1", "{", "#2", "=>", "#3", ",", "=>", "#3", ",", "}">>),
  F("match_vv", "S", <<"E", "E", "E">>, <<"match", "#1", "{", "#2", ",", "#3", "=>", "1", ",", "=>", "0", ",", "}">>),
  F("match_t", "S", <<"E", "T", "S">>, <<"match", "#1", "{", "n", ":", "#2", "=>", "#3", ",", "}">>),
  F("match_td", "S", <<"E", "T", "S">>, <<"match", "#1", "{", "n", ":", "#2", "=>", "#3", ",", "=>", "#3", ",", "}">>),
  F("match_tn", "S", <<"E", "T">>, <<"match", "#1", "{", "n", ":", "#2", "=>", "n", ",", "=>", "#1", ",", "}">>),
  F("match_tt", "S", <<"E", "T", "T">>, <<"match", "#1", "{", "n", ":", "#2", "=>", "n", ",", "n", ":", "#3", "=>", "n", ",", "}">>),
  F("match_d", "S", <<"E", "S">>, <<"match", "#1", "{", "=>", "#2", ",", "}">>),
  F("match_dd", "S", <<"E", "S", "S">>, <<"match", "#1", "{", "=>", "#2", ",", "=>", "#3", ",", "}">>),
  F("match_dret", "S", <<"E", "S">>, <<"match", "#1", "{", "=>", "return", "#2", ",", "}">>),
  F("match_nocomma", "S", <<"E", "S">>, <<"match", "#1", "{", "=>", "#2", "}">>),
  F("match_tvd", "S", <<"E", "E", "T">>, <<"match", "#1", "{", "#2", "=>", "1", ",", "n", ":", "#3", "=>", "n", ",", "=>", "()", ",", "}">>),
  F("loop", "S", <<"S">>, <<"loop", "#1">>),
  F("loop_blk", "S", <<"S">>, <<"loop", "{", "#1", ";", "break", "}">>),
  F("while", "S", <<"E", "S">>, <<"while", "#1", "{", "#2", "}">>),
  F("while_bare", "S", <<"E", "S">>, <<"while", "#1", "#2">>),
  F("whileset", "S", <<"E", "T", "S">>, <<"while", "n", ":", "#2", "=", "#1", "{", "#3", "}">>),
  F("whileset_bare", "S", <<"E", "T", "S">>, <<"while", "n", ":", "#2", "=", "#1", "#3">>),
  F("for", "S", <<"E", "S">>, <<"for", "e", "in", "#1", "{", "#2", "}">>),
  F("for_use", "S", <<"E", "E">>, <<"for", "e", "in", "#1", "{", "e", "+", "#2", "}">>),
  F("for_bare", "S", <<"E", "S">>, <<"for", "e", "in", "#1", "#2">>),
  F("return1", "S", <<"S">>, <<"return", "#1">>)
}

TypeForms == {
  F("t_arr", "T", <<"T">>, <<"[", "#1", "]">>),
  F("t_tup2", "T", <<"T", "T">>, <<"(", "#1", ",", "#2", ")">>),
  F("t_tup3", "T", <<"T", "T", "T">>, <<"(", "#1", ",", "#2", ",", "#3", ")">>),
  F("t_mut", "T", <<"T">>, <<"mut", "#1">>),
  F("t_mut_paren", "T", <<"T">>, <<"mut", "(", "#1", ")">>),
  F("t_fn0", "T", <<"T">>, <<"(", ")", "->", "#1">>),
  F("t_fn0p", "T", <<"T">>, <<"(", ")", "->", "(", "#1", ")">>),
  F("t_fn1", "T", <<"T", "T">>, <<"(", "#1", ")", "->", "#2">>),
  F("t_fn2", "T", <<"T", "T", "T">>, <<"(", "#1", ",", "#2", ")", "->", "#3">>),
  F("t_struct1", "T", <<"T">>, <<"struct", "{", "a", ":", "#1", "}">>),
  F("t_struct2", "T", <<"T", "T">>, <<"struct", "{", "a", ":", "#1", ",", "b", ":", "#2", "}">>),
  F("t_struct_dup", "T", <<"T", "T">>, <<"struct", "{", "a", ":", "#1", ",", "a", ":", "#2", "}">>),
  F("t_union2", "T", <<"T", "T">>, <<"#1", "|", "#2">>),
  F("t_union3", "T", <<"T", "T", "T">>, <<"#1", "|", "#2", "|", "#3">>)
}

Forms == ExprForms \cup StmtForms \cup TypeForms
FormNames == {f.name : f \in Forms}
FormOf(name) == CHOOSE f \in Forms : f.name = name

\* ----- ASTs
Leaf(sort, ts) == [k |-> "leaf", sort |-> sort, ts |-> ts]
Node(f, cs) == [k |-> "node", sort |-> f.sort, f |-> f, cs |-> cs]

FnLit   == <<"(", "p", ":", "int", ")", "->", "int", "{", "return", "p", "}">>
CellLit == <<"mut", "1">>
IterLit == <<"[", "1", "]", "~">>

\* the leaves of the brief (1, 1.5, "s", true, x, (), [], a function, a cell, an iterator) plus one
\* identifier per type shape (bound as constants or as typed parameters by the contexts below)
LitLeaves == {<<"1">>, <<"0">>, <<"1.5">>, <<"\"s\"">>, <<"true">>, <<"()">>, <<"[", "]">>,
              FnLit, CellLit, IterLit}
\* (ca: a cell holding an array, nv: a parameter of type ! - both found necessary: see the findings)
VarLeaves == {<<v>> : v \in {"x", "y", "s", "b", "a", "t", "r", "f", "f2", "pr", "c", "it", "u", "m", "w", "ca", "nv"}}
ELeaves == {Leaf("E", ts) : ts \in LitLeaves \cup VarLeaves \cup {<<"struct", "{", "}">>}}
\* reduced leaf set used for the three-child forms in the quick tier
QLeaves == {Leaf("E", ts) : ts \in {<<"1">>, <<"\"s\"">>, <<"x">>, <<"()">>, <<"[", "]">>, FnLit, <<"c">>,
                                     <<"it">>, <<"a">>, <<"u">>, <<"b">>}}
QSLeaves == {Leaf("S", ts) : ts \in {<<"break">>, <<"return">>}}

ImportKinds == {"valid", "invalid", "illtyped", "missing", "dir", "binary"}
ImportLeaf(kind) == Leaf("S", <<"import", "\"@" \o kind \o "\"">>)
SLeaves == {Leaf("S", ts) : ts \in {<<"break">>, <<"continue">>, <<"return">>, <<"{", "}">>}}
           \cup {ImportLeaf(kd) : kd \in ImportKinds}
\* outside the claim when it exhausts the stack: emitted as its own suite, never as a child
ImportSelf == Leaf("S", <<"import", "\"@self\"">>)

TLeaves == {Leaf("T", ts) : ts \in {<<"int">>, <<"float">>, <<"string">>, <<"bool">>, <<"any">>,
                                     <<"!">>, <<"()">>, <<"[", "]">>, <<"struct", "{", "}">>}}
\* one type per shape, for the type slots of expression and statement forms
TReps == {Leaf("T", ts) : ts \in {<<"int">>, <<"float">>, <<"any">>, <<"!">>, <<"()">>,
            <<"[", "int", "]">>, <<"(", "int", ",", "string", ")">>, <<"mut", "int">>,
            <<"(", ")", "->", "(", "bool", ",", "int", ")">>, <<"(", "int", ")", "->", "int">>,
            <<"int", "|", "float">>, <<"mut", "int", "|", "mut", "float">>,
            <<"struct", "{", "a", ":", "int", "}">>}}
QTReps == {Leaf("T", ts) : ts \in {<<"int">>, <<"any">>, <<"!">>, <<"[", "int", "]">>,
            <<"int", "|", "float">>, <<"(", ")", "->", "(", "bool", ",", "int", ")">>}}

IsLeaf(a) == a.k = "leaf"

MaxOf(S) == CHOOSE mx \in S : \A other \in S : other <= mx
RECURSIVE Depth(_)
Depth(a) == IF IsLeaf(a) THEN 1 ELSE 1 + MaxOf({Depth(a.cs[i]) : i \in DOMAIN a.cs})

\* a child of sort E may stand in an S slot (an expression is a statement)
Fits(childSort, slotSort) == childSort = slotSort \/ (childSort = "E" /\ slotSort = "S")

RECURSIVE WellSorted(_)
WellSorted(a) ==
  IF IsLeaf(a) THEN a.sort \in {"E", "S", "T"} /\ Len(a.ts) > 0
  ELSE /\ a.f \in Forms
       /\ LET f == a.f IN
            /\ a.sort = f.sort
            /\ Len(a.cs) = Len(f.sorts)
            /\ \A i \in DOMAIN a.cs : Fits(a.cs[i].sort, f.sorts[i]) /\ WellSorted(a.cs[i])

(***************************************************************************)
(* 4. Rendering.  A non-leaf expression in an expression slot is put in      *)
(* parentheses so that the text has the shape of the AST whatever the        *)
(* precedences are (precedence itself is C14's business).                    *)
(***************************************************************************)
RECURSIVE Render(_)
RenderChild(c, slotSort) ==
  IF slotSort = "E" /\ ~IsLeaf(c) THEN <<"(">> \o Render(c) \o <<")">> ELSE Render(c)
Render(a) ==
  IF IsLeaf(a) THEN a.ts
  ELSE LET f == a.f IN
       FlattenSeq([j \in 1..Len(f.tpl) |->
          IF f.tpl[j] \in Slots
          THEN RenderChild(a.cs[SlotIx(f.tpl[j])], f.sorts[SlotIx(f.tpl[j])])
          ELSE <<f.tpl[j]>>])

\* bracket discipline of a token sequence: every closing bracket closes the latest open one
Opening == {"(", "[", "{"}
Closing == {")", "]", "}"}
Partner(c) == CASE c = ")" -> "(" [] c = "]" -> "[" [] c = "}" -> "{"
RECURSIVE BalancedFrom(_, _, _)
BalancedFrom(ts, i, stack) ==
  IF i > Len(ts) THEN stack = <<>>
  ELSE IF ts[i] \in Opening THEN BalancedFrom(ts, i + 1, Append(stack, ts[i]))
  ELSE IF ts[i] \in Closing
       THEN /\ stack # <<>>
            /\ stack[Len(stack)] = Partner(ts[i])
            /\ BalancedFrom(ts, i + 1, SubSeq(stack, 1, Len(stack) - 1))
  ELSE BalancedFrom(ts, i + 1, stack)
Balanced(ts) == BalancedFrom(ts, 1, <<>>)

RECURSIVE NestingFrom(_, _, _, _)
NestingFrom(ts, i, cur, best) ==
  IF i > Len(ts) THEN best
  ELSE IF ts[i] \in Opening THEN NestingFrom(ts, i + 1, cur + 1, IF cur + 1 > best THEN cur + 1 ELSE best)
  ELSE IF ts[i] \in Closing THEN NestingFrom(ts, i + 1, IF cur > 0 THEN cur - 1 ELSE 0, best)
  ELSE NestingFrom(ts, i + 1, cur, best)
Nesting(ts) == NestingFrom(ts, 1, 0, 0)
MaxNesting == 40       \* stack exhaustion is outside the claim

KnownTok(tk) == tk \in Tokens \cup AuxTok

\* ----- bounded sets of ASTs
\* sets: a sequence of 1..3 sets of ASTs, one per slot
TuplesOf(sets) ==
  CASE Len(sets) = 1 -> {<<c1>> : c1 \in sets[1]}
    [] Len(sets) = 2 -> {<<c1, c2>> : c1 \in sets[1], c2 \in sets[2]}
    [] Len(sets) = 3 -> {<<c1, c2, c3>> : c1 \in sets[1], c2 \in sets[2], c3 \in sets[3]}

\* Pool(f, slotSort): the set of admissible children of form f in a slot of that sort
SlotSets(f, Pool(_, _)) == [i \in 1..Len(f.sorts) |-> Pool(f, f.sorts[i])]
\* every application of a constructor of FS
Apply(FS, Pool(_, _)) == UNION {{Node(f, cs) : cs \in TuplesOf(SlotSets(f, Pool))} : f \in FS}
\* "apply a constructor to the AST under construction": every node of Apply(FS, Pool) that has `a`
\* as one of its children
GrowWith(a, FS, Pool(_, _)) ==
  UNION {UNION {{Node(f, cs) : cs \in TuplesOf([SlotSets(f, Pool) EXCEPT ![i] = {a}])} :
                  i \in {j \in 1..Len(f.sorts) : a \in Pool(f, f.sorts[j])}} : f \in FS}

(***************************************************************************)
(* Binding contexts.  Every expression/statement case is parsed in each of   *)
(* them: "host" (the names are constants of the host interpreter, which the  *)
(* harness fills by running HostPrelude once), "top" (a textual prelude:     *)
(* declared function, cell and iterator are local variables of the kinds     *)
(* Function / Other) and "fn" (the names are typed parameters, so nothing    *)
(* folds; break, continue and return are legal).  Types are parsed as a      *)
(* parameter type.                                                           *)
(***************************************************************************)
HostPrelude == <<"x", ":=", "1", ";", "y", ":=", "1.5", ";", "s", ":=", "\"s\"", ";", "b", ":=", "true", ";",
   "a", ":=", "[", "1", ",", "2", "]", ";", "t", ":=", "(", "1", ",", "\"s\"", ",", "1.5", ")", ";",
   "r", ":=", "struct", "{", "a", ":=", "1", ",", "b", ":=", "1.5", "}", ";",
   "f", ":=", "(", "p", ":", "int", ")", "->", "int", "{", "return", "p", "}", ";",
   "f2", ":=", "(", "p", ":", "int", ",", "q", ":", "int", ")", "->", "int", "{", "return", "p", "}", ";",
   "pr", ":=", "(", "p", ":", "int", ")", "->", "bool", "{", "return", "true", "}", ";",
   "c", ":=", "mut", "1", ";", "it", ":=", "[", "1", ",", "2", "]", "~", ";",
   "u", ":=", "1", ";", "m", ":=", "mut", "1", ";", "w", ":=", "\"s\"", ";",
   "ca", ":=", "mut", "[", "int", "]", "[", "1", "]", ";", "nv", ":=", "[", "]">>
FnHead == <<"g", ":=", "(", "x", ":", "int", ",", "y", ":", "float", ",", "s", ":", "string", ",",
              "b", ":", "bool", ",", "a", ":", "[", "int", "]", ",", "t", ":", "(", "int", ",", "string", ",", "float", ")", ",",
              "r", ":", "struct", "{", "a", ":", "int", ",", "b", ":", "float", "}", ",",
              "f", ":", "(", "int", ")", "->", "int", ",", "f2", ":", "(", "int", ",", "int", ")", "->", "int", ",", "pr", ":", "(", "int", ")", "->", "bool", ",", "c", ":", "mut", "int", ",",
              "it", ":", "(", ")", "->", "(", "bool", ",", "int", ")", ",", "u", ":", "int", "|", "float", ",",
              "m", ":", "mut", "int", "|", "mut", "float", ",", "w", ":", "any", ",",
              "ca", ":", "mut", "[", "int", "]", ",", "nv", ":", "!", ")", "->", "any", "{">>
Ctx(name, pre, post) == [name |-> name, pre |-> pre, post |-> post, mentions |-> ""]
\* Top level, nothing constant: f is a declared function, the other names are bound to results of
\* calls or to cells, so the checker knows their types but not their values.
TopPrelude == <<"f", ":=", "(", "p", ":", "int", ")", "->", "int", "{", "return", "p", "}", ";",
   "f2", ":=", "(", "p", ":", "int", ",", "q", ":", "int", ")", "->", "int", "{", "return", "p", "}", ";",
   "pr", ":=", "(", "p", ":", "int", ")", "->", "bool", "{", "return", "true", "}", ";",
   "mkt", ":=", "(", ")", "->", "(", "int", ",", "string", ",", "float", ")", "{", "return", "(", "1", ",", "\"s\"", ",", "1.5", ")", "}", ";",
   "t", ":=", "mkt", "(", ")", ";",
   "mkr", ":=", "(", ")", "->", "struct", "{", "a", ":", "int", ",", "b", ":", "float", "}", "{",
      "return", "struct", "{", "a", ":=", "1", ",", "b", ":=", "1.5", "}", "}", ";", "r", ":=", "mkr", "(", ")", ";",
   "mka", ":=", "(", ")", "->", "[", "int", "]", "{", "return", "[", "1", ",", "2", "]", "}", ";", "a", ":=", "mka", "(", ")", ";",
   "mki", ":=", "(", ")", "->", "(", ")", "->", "(", "bool", ",", "int", ")", "{", "return", "[", "1", ",", "2", "]", "~", "}", ";",
   "it", ":=", "mki", "(", ")", ";",
   "c", ":=", "mut", "1", ";", "m", ":=", "mut", "1.5", ";", "ca", ":=", "mut", "[", "int", "]", "[", "1", "]", ";">>
\* "v := <case>" at top level, for the cases that mention v: the statement rebinds a name that its
\* own initialiser uses (found necessary: see the findings); for t also by destructuring
RebindNames == {"f", "t", "r", "a", "it", "c", "m", "ca"}
Rebind(v) == [name |-> "rebind:" \o v, pre |-> TopPrelude \o <<v, ":=">>, post |-> <<>>, mentions |-> v]
Contexts == {
  Ctx("host", <<>>, <<>>),
  Ctx("top", TopPrelude, <<>>),
  Ctx("fn", FnHead \o <<"loop", "{">>, <<";", "break", "}", "return", "()", "}">>),
  \* the case is bound to a name, so its static type is demanded
  Ctx("use", FnHead \o <<"loop", "{", "n", ":=">>, <<";", "break", "}", "return", "()", "}">>),
  [name |-> "rebind_des:t", pre |-> TopPrelude \o <<"(", "t", ",", "q", ",", "e", ")", ":=">>, post |-> <<>>,
   mentions |-> "t"]
} \cup {Rebind(v) : v \in RebindNames}
TypeContext == Ctx("type", <<"h", ":=", "(", "p", ":">>, <<")", "{", "}">>)

(***************************************************************************)
(* 5. Mutations of token sequences                                           *)
(***************************************************************************)
MutOps == {"del", "dup", "rep"}
Delete(ts, p)     == SubSeq(ts, 1, p - 1) \o SubSeq(ts, p + 1, Len(ts))
Duplicate(ts, p)  == SubSeq(ts, 1, p) \o SubSeq(ts, p, Len(ts))
Replace(ts, p, t) == [ts EXCEPT ![p] = t]
Mutate(ts, m) == CASE m.op = "del" -> Delete(ts, m.p)
                   [] m.op = "dup" -> Duplicate(ts, m.p)
                   [] m.op = "rep" -> Replace(ts, m.p, m.t)

\* what a mutation must and must not change
MutationLaw(ts, m) ==
  LET r == Mutate(ts, m) IN
  /\ m.p \in 1..Len(ts)
  /\ \A i \in 1..(m.p - 1) : r[i] = ts[i]
  /\ CASE m.op = "del" -> Len(r) = Len(ts) - 1 /\ \A i \in m.p..Len(r) : r[i] = ts[i + 1]
       [] m.op = "dup" -> Len(r) = Len(ts) + 1 /\ r[m.p] = ts[m.p] /\ \A i \in (m.p + 1)..Len(r) : r[i] = ts[i - 1]
       [] m.op = "rep" -> Len(r) = Len(ts) /\ r[m.p] = m.t /\ m.t # ts[m.p] /\ m.t \in Tokens
                          /\ \A i \in (m.p + 1)..Len(r) : r[i] = ts[i]

(***************************************************************************)
(* 6. Folding sub-suite.  Seeds are constant expressions whose folding       *)
(* fails; wrappers are one-slot forms in which the slot is live (it is       *)
(* folded whenever the program is parsed) and accepts a value of any type,   *)
(* so the only error the program contains is the folding failure.            *)
(***************************************************************************)
FoldSeed(ts, class) == [ts |-> ts, class |-> class]
FoldSeeds == {
  FoldSeed(<<"1", "/", "0">>, "ZeroDivision"),
  FoldSeed(<<"1", "/", "(", "1", "-", "1", ")">>, "ZeroDivision"),
  FoldSeed(<<"1", "%", "0">>, "ZeroModulo"),
  FoldSeed(<<"1", "<<", "64">>, "OverflowShift"),
  FoldSeed(<<"1", ">>", "(", "0", "-", "1", ")">>, "OverflowShift"),
  FoldSeed(<<"[", "1", "]", "[", "5", "]">>, "IndexOutOfBounds"),
  FoldSeed(<<"\"s\"", "[", "5", "]">>, "IndexOutOfBounds"),
  FoldSeed(<<"[", "0", ";", "0", "-", "1", "]">>, "NegativeLength")
}
\* Checker sub-suite: one-slot expressions (function literals, so that they can stand wherever a value can) whose
\* body contains exactly one static error — one or more per error class of the checker, with the operand's type a
\* plain type and a union (the union cases reach the code that asks every member) — and, as controls, well-typed
\* expressions next to those errors (the same access through a union that HAS the element, re-binding a name with
\* another type / as a function in a nested scope and demanding the new type).  Nested like the folding seeds:
\* the error must be reported as an error value (any class) wherever the expression stands; the controls must be
\* accepted wherever they stand.
CheckerSeeds == {
  FoldSeed(<<"(", "(", ")", "->", "any", "{", "a", ":=", "if", "true", "{", "1", "}", "else", "{", "1.5", "}", ";", "b", ":=", "if", "false", "{", "1", "}", "else", "{", "1.5", "}", ";", "return", "a", "*", "b", "}", ")">>, "Rejected"),
  FoldSeed(<<"(", "(", ")", "->", "any", "{", "a", ":=", "if", "true", "{", "1", "}", "else", "{", "1.5", "}", ";", "b", ":=", "if", "false", "{", "1", "}", "else", "{", "1.5", "}", ";", "return", "a", "<", "b", "}", ")">>, "Rejected"),
  FoldSeed(<<"(", "(", "a", ":", "int", "|", "float", ",", "b", ":", "int", "|", "float", ")", "->", "any", "{", "return", "a", "-", "b", "}", ")">>, "Rejected"),
  FoldSeed(<<"(", "(", "a", ":", "int", "|", "float", ",", "b", ":", "int", "|", "float", ")", "->", "any", "{", "return", "a", "**", "b", "}", ")">>, "Rejected"),
  FoldSeed(<<"(", "(", "c", ":", "mut", "(", "int", "|", "float", ")", ",", "b", ":", "int", "|", "float", ")", "->", "any", "{", "return", "c", "-=", "b", "}", ")">>, "Rejected"),
  FoldSeed(<<"(", "(", "a", ":", "int", "|", "string", ",", "b", ":", "int", "|", "string", ")", "->", "any", "{", "return", "a", "+", "b", "}", ")">>, "Rejected"),
  FoldSeed(<<"(", "(", "a", ":", "int", "|", "bool", ",", "b", ":", "int", "|", "bool", ")", "->", "any", "{", "return", "a", "&", "b", "}", ")">>, "Rejected"),
  FoldSeed(<<"(", "(", "p", ":", "(", "int", ",", "int", ")", "|", "(", "int", ",", "int", ",", "int", ")", ")", "->", "any", "{", "return", "p", ".", "2", "}", ")">>, "Rejected"),
  FoldSeed(<<"(", "(", "p", ":", "(", "int", ",", "int", ")", "|", "(", "int", ",", "int", ",", "int", ")", ")", "->", "any", "{", "n", ":=", "p", ".", "2", ";", "return", "1", "}", ")">>, "Rejected"),
  FoldSeed(<<"(", "(", "p", ":", "(", "int", ",", "int", ")", "|", "(", "int", ",", "int", ",", "int", ")", ")", "->", "any", "{", "return", "p", ".", "2", "+", "1", "}", ")">>, "Rejected"),
  FoldSeed(<<"(", "(", "p", ":", "(", "int", ",", "int", ")", ")", "->", "any", "{", "return", "p", ".", "2", "}", ")">>, "Rejected"),
  FoldSeed(<<"(", "1", ",", "1.5", ")", ".", "2">>, "Rejected"),
  FoldSeed(<<"(", "(", "p", ":", "int", ")", "->", "any", "{", "return", "p", ".", "0", "}", ")">>, "Rejected"),
  FoldSeed(<<"(", "(", "p", ":", "(", "int", ",", "int", ")", "|", "int", ")", "->", "any", "{", "return", "p", ".", "0", "}", ")">>, "Rejected"),
  FoldSeed(<<"(", "(", "p", ":", "struct", "{", "a", ":", "int", "}", ")", "->", "any", "{", "return", "p", ".", "b", "}", ")">>, "Rejected"),
  FoldSeed(<<"(", "(", "p", ":", "struct", "{", "a", ":", "int", "}", "|", "struct", "{", "b", ":", "int", "}", ")", "->", "any", "{", "return", "p", ".", "b", "}", ")">>, "Rejected"),
  FoldSeed(<<"(", "(", "p", ":", "int", ")", "->", "any", "{", "return", "p", ".", "a", "}", ")">>, "Rejected"),
  FoldSeed(<<"(", "(", "p", ":", "struct", "{", "a", ":", "int", "}", "|", "int", ")", "->", "any", "{", "return", "p", ".", "a", "}", ")">>, "Rejected"),
  FoldSeed(<<"(", "(", "p", ":", "int", ")", "->", "any", "{", "return", "p", "[", "0", "]", "}", ")">>, "Rejected"),
  FoldSeed(<<"(", "(", "p", ":", "[", "int", "]", "|", "int", ")", "->", "any", "{", "return", "p", "[", "0", "]", "}", ")">>, "Rejected"),
  FoldSeed(<<"(", "(", "p", ":", "[", "int", "]", ",", "q", ":", "float", ")", "->", "any", "{", "return", "p", "[", "q", "]", "}", ")">>, "Rejected"),
  FoldSeed(<<"(", "(", "p", ":", "[", "int", "]", ",", "q", ":", "int", "|", "float", ")", "->", "any", "{", "return", "p", "[", "q", "]", "}", ")">>, "Rejected"),
  FoldSeed(<<"(", "(", "p", ":", "int", ")", "->", "any", "{", "return", "p", "[", "0", ":", "1", "]", "}", ")">>, "Rejected"),
  FoldSeed(<<"(", "(", "p", ":", "[", "int", "]", "|", "int", ")", "->", "any", "{", "return", "p", "[", ":", "1", "]", "}", ")">>, "Rejected"),
  FoldSeed(<<"(", "(", "p", ":", "int", ",", "q", ":", "string", ")", "->", "any", "{", "return", "p", "+", "q", "}", ")">>, "Rejected"),
  FoldSeed(<<"(", "(", "p", ":", "int", "|", "string", ",", "q", ":", "int", ")", "->", "any", "{", "return", "p", "+", "q", "}", ")">>, "Rejected"),
  FoldSeed(<<"(", "(", "p", ":", "[", "int", "]", ",", "q", ":", "[", "string", "]", ")", "->", "any", "{", "return", "p", "*", "q", "}", ")">>, "Rejected"),
  FoldSeed(<<"(", "(", "p", ":", "mut", "int", ",", "q", ":", "float", ")", "->", "any", "{", "return", "p", "+=", "q", "}", ")">>, "Rejected"),
  FoldSeed(<<"(", "(", "p", ":", "mut", "int", ",", "q", ":", "int", "|", "float", ")", "->", "any", "{", "return", "p", "=", "q", "}", ")">>, "Rejected"),
  FoldSeed(<<"(", "(", "p", ":", "int", "|", "string", ")", "->", "int", "{", "return", "p", "}", ")">>, "Rejected"),
  FoldSeed(<<"(", "(", "p", ":", "int", ")", "->", "string", "{", "if", "p", "==", "1", "{", "return", "p", "}", "return", "\"s\"", "}", ")">>, "Rejected"),
  FoldSeed(<<"(", "(", "p", ":", "int", ")", "->", "int", "{", "if", "p", "==", "1", "{", "return", "p", "}", "}", ")">>, "Rejected"),
  FoldSeed(<<"(", "(", "p", ":", "int", ")", "->", "int", "{", "loop", "{", "if", "p", "==", "1", "{", "break", "}", "return", "1", "}", "}", ")">>, "Rejected"),
  FoldSeed(<<"(", "(", "p", ":", "int", ")", "->", "any", "{", "return", "p", "(", "1", ")", "}", ")">>, "Rejected"),
  FoldSeed(<<"(", "(", "p", ":", "int", "|", "(", ")", "->", "int", ")", "->", "any", "{", "return", "p", "(", ")", "}", ")">>, "Rejected"),
  FoldSeed(<<"(", "(", "p", ":", "(", "int", ")", "->", "int", ")", "->", "any", "{", "return", "p", "(", "1", ",", "1", ")", "}", ")">>, "Rejected"),
  FoldSeed(<<"(", "(", "p", ":", "(", "int", ")", "->", "int", ")", "->", "any", "{", "return", "p", "(", ")", "}", ")">>, "Rejected"),
  FoldSeed(<<"(", "(", "p", ":", "(", "int", ")", "->", "int", ")", "->", "any", "{", "return", "p", "(", "1.5", ")", "}", ")">>, "Rejected"),
  FoldSeed(<<"(", "(", "p", ":", "(", "int", ")", "->", "int", ",", "q", ":", "int", "|", "float", ")", "->", "any", "{", "return", "p", "(", "q", ")", "}", ")">>, "Rejected"),
  FoldSeed(<<"(", "(", "p", ":", "(", "int", ")", "->", "int", "|", "(", "int", ",", "int", ")", "->", "int", ")", "->", "any", "{", "return", "p", "(", "1", ")", "}", ")">>, "Rejected"),
  FoldSeed(<<"(", "(", "p", ":", "int", ",", "q", ":", "(", "int", ",", "int", ")", "->", "int", ")", "->", "any", "{", "return", "p", "$", "0", "q", "}", ")">>, "Rejected"),
  FoldSeed(<<"(", "(", "p", ":", "int", ")", "->", "any", "{", "return", "p", "$+", "}", ")">>, "Rejected"),
  FoldSeed(<<"(", "(", "p", ":", "int", ")", "->", "any", "{", "(", "y", ",", "s", ")", ":=", "p", ";", "return", "y", "}", ")">>, "Rejected"),
  FoldSeed(<<"(", "(", "p", ":", "(", "int", ",", "int", ")", "|", "(", "int", ",", "int", ",", "int", ")", ")", "->", "any", "{", "(", "y", ",", "s", ")", ":=", "p", ";", "return", "y", "}", ")">>, "Rejected"),
  FoldSeed(<<"(", "(", "p", ":", "(", "int", ",", "int", ",", "int", ")", ")", "->", "any", "{", "(", "y", ",", "s", ")", ":=", "p", ";", "return", "y", "}", ")">>, "Rejected"),
  FoldSeed(<<"(", "(", "p", ":", "int", ")", "->", "any", "{", "if", "p", "{", "return", "1", "}", "return", "0", "}", ")">>, "Rejected"),
  FoldSeed(<<"(", "(", "p", ":", "int", "|", "bool", ")", "->", "any", "{", "while", "p", "{", "return", "1", "}", "return", "0", "}", ")">>, "Rejected"),
  FoldSeed(<<"(", "(", "p", ":", "string", ")", "->", "any", "{", "return", "-", "p", "}", ")">>, "Rejected"),
  FoldSeed(<<"(", "(", "p", ":", "int", "|", "string", ")", "->", "any", "{", "return", "!", "p", "}", ")">>, "Rejected"),
  FoldSeed(<<"(", "(", "p", ":", "int", ")", "->", "any", "{", "return", "*", "p", "}", ")">>, "Rejected"),
  FoldSeed(<<"(", "(", "p", ":", "float", ")", "->", "any", "{", "return", "mut", "int", "p", "}", ")">>, "Rejected"),
  FoldSeed(<<"(", "(", "p", ":", "int", "|", "float", ")", "->", "any", "{", "return", "mut", "int", "p", "}", ")">>, "Rejected"),
  FoldSeed(<<"(", "(", "p", ":", "int", "|", "string", ")", "->", "any", "{", "return", "match", "p", "{", "y", ":", "int", "=>", "1", ",", "}", "}", ")">>, "Rejected"),
  FoldSeed(<<"(", "(", "p", ":", "int", ")", "->", "any", "{", "return", "match", "p", "{", "1", "=>", "1", ",", "}", "}", ")">>, "Rejected"),
  FoldSeed(<<"(", "(", "p", ":", "int", ")", "->", "any", "{", "return", "p", "+", "nv", "}", ")">>, "Rejected"),
  FoldSeed(<<"(", "(", "p", ":", "int", ")", "->", "any", "{", "if", "y", ":", "int", "=", "p", "{", "}", "return", "y", "}", ")">>, "Rejected"),
  FoldSeed(<<"(", "(", "p", ":", "int", ")", "->", "any", "{", "loop", "{", "z", ":=", "(", ")", "->", "any", "{", "break", "}", ";", "break", "}", "return", "1", "}", ")">>, "Rejected"),
  FoldSeed(<<"(", "(", "p", ":", "int", ")", "->", "any", "{", "if", "p", "==", "1", "{", "continue", "}", "return", "1", "}", ")">>, "Rejected"),
  FoldSeed(<<"(", "(", "p", ":", "float", ")", "->", "any", "{", "return", "[", "0", ";", "p", "]", "}", ")">>, "Rejected"),
  FoldSeed(<<"(", "(", "p", ":", "[", "int", "]", ",", "q", ":", "(", "string", ")", "->", "int", ")", "->", "any", "{", "return", "p", "~", "@", "q", "}", ")">>, "Rejected"),
  FoldSeed(<<"(", "(", "p", ":", "[", "int", "]", ",", "q", ":", "(", "int", ")", "->", "int", ")", "->", "any", "{", "return", "p", "~", "?", "q", "}", ")">>, "Rejected"),
  FoldSeed(<<"(", "(", "p", ":", "[", "int", "]", ",", "q", ":", "int", ")", "->", "any", "{", "return", "p", "~", "@", "q", "}", ")">>, "Rejected"),
  FoldSeed(<<"(", "(", "p", ":", "[", "int", "]", ",", "q", ":", "(", "int", ")", "->", "int", ")", "->", "any", "{", "return", "p", "~", "$", "0", "q", "}", ")">>, "Rejected"),
  FoldSeed(<<"(", "(", "p", ":", "[", "int", "]", ",", "q", ":", "(", "int", ",", "int", ")", "->", "string", ")", "->", "any", "{", "return", "p", "~", "\\", "q", "}", ")">>, "Rejected"),
  \* a name bound to the concatenation of constant arrays of different element types has the type of ALL the elements:
  \* an element used as one member only is an error, wherever the use stands (a narrower hidden tag would let it through to the folder)
  FoldSeed(<<"(", "(", ")", "->", "any", "{", "a", ":=", "[", "1", ",", "1.5", "]", "+", "[", "1", "]", ";", "return", "a", "[", "1", "]", "+", "1", "}", ")">>, "Rejected"),
  FoldSeed(<<"(", "(", ")", "->", "any", "{", "a", ":=", "[", "1", "]", "+", "[", "1", ",", "1.5", "]", ";", "return", "a", "[", "1", "]", "+", "1", "}", ")">>, "Rejected"),
  FoldSeed(<<"(", "(", ")", "->", "any", "{", "a", ":=", "[", "1", ",", "\"s\"", "]", "+", "[", "1", "]", ";", "return", "1", "<<", "a", "[", "1", "]", "}", ")">>, "Rejected"),
  FoldSeed(<<"(", "(", ")", "->", "any", "{", "a", ":=", "[", "[", "1", "]", ",", "2", "]", "+", "[", "[", "1", "]", "]", ";", "return", "a", "[", "1", "]", "[", "0", "]", "}", ")">>, "Rejected"),
  FoldSeed(<<"mod", "{", "a", ":=", "[", "1", ",", "1.5", "]", "+", "[", "1", "]", ";", "b", ":=", "a", "[", "1", "]", "+", "1", "}">>, "Rejected"),
  FoldSeed(<<"mod", "{", "a", ":=", "[", "1", "]", "+", "[", "1", ",", "1.5", "]", ";", "b", ":=", "!", "a", "[", "0", "]", "}">>, "Rejected"),
  FoldSeed(<<"mod", "{", "a", ":=", "[", "1", ",", "1.5", "]", "+", "[", "1", "]", ";", "b", ":=", "a", "[", "0", "]", ";", "c", ":=", "a", "+", "[", "2", "]", "}">>, "Accepted"),
  \* ... the same as two statements (at top level a name is bound to the folded VALUE, whose hidden tag types later uses)
  FoldSeed(<<"a", ":=", "[", "1", ",", "1.5", "]", "+", "[", "1", "]", ";", "a", "[", "1", "]", "+", "1">>, "Rejected"),
  FoldSeed(<<"a", ":=", "[", "1", "]", "+", "[", "1", ",", "1.5", "]", ";", "a", "[", "2", "]", "+", "1">>, "Rejected"),
  FoldSeed(<<"a", ":=", "[", "1", ",", "\"s\"", "]", "+", "[", "1", "]", ";", "1", "<<", "a", "[", "1", "]">>, "Rejected"),
  FoldSeed(<<"a", ":=", "[", "[", "1", "]", ",", "2", "]", "+", "[", "[", "1", "]", "]", ";", "a", "[", "1", "]", "[", "0", "]">>, "Rejected"),
  FoldSeed(<<"a", ":=", "[", "1", ",", "1.5", "]", ";", "b", ":=", "a", "+", "[", "1", "]", ";", "!", "b", "[", "1", "]">>, "Rejected"),
  FoldSeed(<<"a", ":=", "[", "1", ",", "1.5", "]", "[", "0", ":", "1", "]", ";", "a", "[", "0", "]", "+", "1.5">>, "Rejected"),
  FoldSeed(<<"99999999999999999999">>, "Rejected")
}
ValidSeeds == {
  \* a CONSTANT scrutinee and type arms / type tests it cannot reach, whose bodies use the binder at the arm's type; a field
  \* named twice in a struct literal (the last initialiser is the field) accessed on the literal
  FoldSeed(<<"(", "(", ")", "->", "any", "{", "return", "match", "5", "{", "s", ":", "string", "=>", "s", "+", "\"s\"", ",", "n", ":", "int", "=>", "n", "+", "1", ",", "}", "}", ")">>, "Accepted"),
  FoldSeed(<<"(", "(", ")", "->", "any", "{", "u", ":=", "5", ";", "return", "match", "u", "{", "s", ":", "string", "=>", "s", "+", "\"s\"", ",", "a", ":", "[", "int", "]", "=>", "a", "[", "0", "]", ",", "n", ":", "int", "=>", "n", "+", "1", ",", "}", "}", ")">>, "Accepted"),
  FoldSeed(<<"(", "(", ")", "->", "any", "{", "u", ":=", "if", "true", "5", "else", "\"s\"", ";", "r", ":=", "if", "s", ":", "string", "=", "u", "{", "s", "+", "\"s\"", "}", "else", "{", "\"s\"", "}", ";", "return", "r", "}", ")">>, "Accepted"),
  FoldSeed(<<"(", "(", ")", "->", "any", "{", "return", "match", "\"s\"", "{", "n", ":", "int", "=>", "1", "<<", "n", ",", "s", ":", "string", "=>", "s", "+", "\"s\"", ",", "}", "}", ")">>, "Accepted"),
  FoldSeed(<<"(", "(", ")", "->", "any", "{", "return", "struct", "{", "a", ":=", "1", ",", "a", ":=", "\"s\"", "}", ".", "a", "+", "\"s\"", "}", ")">>, "Accepted"),
  FoldSeed(<<"(", "(", ")", "->", "any", "{", "return", "[", "1", ",", "5", "]", "[", "struct", "{", "a", ":=", "\"s\"", ",", "a", ":=", "1", "}", ".", "a", "]", "}", ")">>, "Accepted"),
  FoldSeed(<<"(", "(", ")", "->", "any", "{", "(", "p", ",", "q", ",", "r", ")", ":=", "struct", "{", "t", ":=", "(", "1", ",", "2", ")", ",", "t", ":=", "(", "1", ",", "2", ",", "5", ")", "}", ".", "t", ";", "return", "p", "+", "q", "+", "r", "}", ")">>, "Accepted"),
  \* an element of type ! (it never yields: an index into the empty array literal) in a NON-last position of a tuple / array /
  \* struct literal: the elements behind it, and the names a destructuring binds to them, are still there
  FoldSeed(<<"(", "(", "x", ":", "int", ")", "->", "any", "{", "(", "a", ",", "b", ",", "c", ")", ":=", "(", "1", ",", "[", "]", "[", "x", "]", ",", "3", ")", ";", "return", "c", "}", ")">>, "Accepted"),
  FoldSeed(<<"(", "(", "x", ":", "int", ")", "->", "any", "{", "(", "a", ",", "b", ")", ":=", "(", "[", "]", "[", "x", "]", ",", "3", ")", ";", "y", ":=", "b", "+", "1", ";", "return", "y", "}", ")">>, "Accepted"),
  FoldSeed(<<"(", "(", "x", ":", "int", ")", "->", "any", "{", "t", ":=", "(", "1", ",", "[", "]", "[", "x", "]", ",", "3", ")", ";", "return", "t", ".", "2", "}", ")">>, "Accepted"),
  FoldSeed(<<"(", "(", "x", ":", "int", ")", "->", "any", "{", "a", ":=", "[", "1", ",", "[", "]", "[", "x", "]", ",", "3", "]", ";", "return", "a", "[", "2", "]", "}", ")">>, "Accepted"),
  FoldSeed(<<"(", "(", "x", ":", "int", ")", "->", "any", "{", "s", ":=", "struct", "{", "p", ":=", "[", "]", "[", "x", "]", ",", "q", ":=", "3", "}", ";", "return", "s", ".", "q", "}", ")">>, "Accepted"),
  FoldSeed(<<"(", "(", "x", ":", "int", ")", "->", "any", "{", "{", "(", "a", ",", "b", ",", "c", ")", ":=", "(", "1", ",", "[", "]", "[", "x", "]", ",", "3", ")", ";", "y", ":=", "c", "}", "return", "x", "}", ")">>, "Accepted"),
  \* ... the same with non-constant elements behind the one that never yields (a constant is substituted for its name)
  FoldSeed(<<"(", "(", "x", ":", "int", ")", "->", "any", "{", "(", "a", ",", "b", ",", "c", ")", ":=", "(", "x", ",", "[", "]", "[", "x", "]", ",", "x", "+", "1", ")", ";", "return", "c", "}", ")">>, "Accepted"),
  FoldSeed(<<"(", "(", "x", ":", "int", ")", "->", "any", "{", "(", "a", ",", "b", ")", ":=", "(", "[", "]", "[", "x", "]", ",", "x", "+", "1", ")", ";", "y", ":=", "b", "+", "1", ";", "return", "y", "}", ")">>, "Accepted"),
  FoldSeed(<<"(", "(", "x", ":", "int", ")", "->", "any", "{", "t", ":=", "(", "x", ",", "[", "]", "[", "x", "]", ",", "x", "+", "1", ")", ";", "return", "t", ".", "2", "}", ")">>, "Accepted"),
  FoldSeed(<<"(", "(", "x", ":", "int", ")", "->", "any", "{", "a", ":=", "[", "x", ",", "[", "]", "[", "x", "]", ",", "x", "+", "1", "]", ";", "return", "a", "[", "2", "]", "}", ")">>, "Accepted"),
  FoldSeed(<<"(", "(", "x", ":", "int", ")", "->", "any", "{", "s", ":=", "struct", "{", "p", ":=", "[", "]", "[", "x", "]", ",", "q", ":=", "x", "+", "1", "}", ";", "return", "s", ".", "q", "}", ")">>, "Accepted"),
  FoldSeed(<<"(", "(", "x", ":", "int", ")", "->", "any", "{", "f", ":=", "(", "a", ":", "int", ",", "b", ":", "int", ",", "c", ":", "int", ")", "->", "int", "{", "return", "c", "}", ";", "return", "f", "(", "x", ",", "[", "]", "[", "x", "]", ",", "x", "+", "1", ")", "}", ")">>, "Accepted"),
  FoldSeed(<<"(", "(", "x", ":", "int", ")", "->", "any", "{", "{", "y", ":=", "[", "]", "[", "x", "]", ";", "z", ":=", "x", "+", "1", ";", "w", ":=", "z", "}", "return", "x", "}", ")">>, "Accepted"),
  \* a declaration whose initialiser folds to a statement that never yields (type !), and uses of the name as what it was declared to be
  FoldSeed(<<"(", "(", ")", "->", "any", "{", "x", ":=", "if", "true", "return", "1", "else", "(", "1", ",", "2", ")", ";", "y", ":=", "x", ".", "0", ";", "return", "2", "}", ")">>, "Accepted"),
  FoldSeed(<<"(", "(", ")", "->", "any", "{", "x", ":=", "if", "true", "return", "1", "else", "struct", "{", "a", ":=", "1", "}", ";", "y", ":=", "x", ".", "a", ";", "return", "2", "}", ")">>, "Accepted"),
  FoldSeed(<<"(", "(", ")", "->", "any", "{", "x", ":=", "if", "true", "return", "1", "else", "(", ")", "->", "int", "{", "return", "1", "}", ";", "y", ":=", "x", "(", ")", ";", "return", "2", "}", ")">>, "Accepted"),
  FoldSeed(<<"(", "(", ")", "->", "any", "{", "x", ":=", "if", "true", "return", "1", "else", "mut", "1", ";", "y", ":=", "*", "x", ";", "return", "2", "}", ")">>, "Accepted"),
  FoldSeed(<<"(", "(", ")", "->", "any", "{", "x", ":=", "if", "true", "return", "1", "else", "mut", "1", ";", "y", ":=", "x", "+=", "1", ";", "return", "2", "}", ")">>, "Accepted"),
  FoldSeed(<<"(", "(", ")", "->", "any", "{", "(", "a", ",", "b", ")", ":=", "if", "true", "return", "1", "else", "(", "1", ",", "2", ")", ";", "return", "a", "}", ")">>, "Accepted"),
  FoldSeed(<<"(", "(", ")", "->", "any", "{", "x", ":=", "if", "true", "return", "1", "else", "[", "1", "]", "~", ";", "for", "e", "in", "x", "{", "}", "return", "2", "}", ")">>, "Accepted"),
  FoldSeed(<<"(", "(", ")", "->", "any", "{", "x", ":=", "if", "true", "return", "1", "else", "[", "1", "]", "~", ";", "y", ":=", "x", "$]", ";", "return", "2", "}", ")">>, "Accepted"),
  FoldSeed(<<"(", "(", ")", "->", "any", "{", "x", ":=", "if", "true", "return", "1", "else", "[", "1", "]", ";", "y", ":=", "x", "[", "0", "]", ";", "z", ":=", "x", "[", "0", ":", "1", "]", ";", "return", "2", "}", ")">>, "Accepted"),
  FoldSeed(<<"(", "(", ")", "->", "any", "{", "x", ":=", "if", "false", "{", "(", "1", ",", "2", ")", "}", "else", "{", "return", "1", "}", ";", "y", ":=", "x", ".", "1", ";", "return", "2", "}", ")">>, "Accepted"),
  FoldSeed(<<"(", "(", ")", "->", "any", "{", "x", ":=", "match", "1", "{", "1", "=>", "return", "1", ",", "=>", "(", "1", ",", "2", ")", ",", "}", ";", "y", ":=", "x", ".", "0", ";", "return", "2", "}", ")">>, "Accepted"),
  FoldSeed(<<"(", "(", ")", "->", "any", "{", "x", ":=", "if", "true", "return", "1", "else", "(", "(", "1", ",", "2", ")", ",", "5", ")", ";", "y", ":=", "x", ".", "0", ".", "1", ";", "return", "2", "}", ")">>, "Accepted"),
  FoldSeed(<<"(", "(", ")", "->", "any", "{", "x", ":=", "if", "true", "return", "1", "else", "5", ";", "y", ":=", "x", "+", "1", ";", "z", ":=", "-", "x", ";", "w", ":=", "[", "x", ";", "2", "]", ";", "return", "2", "}", ")">>, "Accepted"),
  \* a constant index / position / field into a literal with NON-constant elements (the folder selects an element)
  FoldSeed(<<"(", "(", "a", ":", "int", ")", "->", "any", "{", "return", "[", "a", ",", "7", "]", "[", "-", "1", "]", "}", ")">>, "Accepted"),
  FoldSeed(<<"(", "(", "a", ":", "int", ")", "->", "any", "{", "return", "[", "a", ",", "7", "]", "[", "-", "2", "]", "}", ")">>, "Accepted"),
  FoldSeed(<<"(", "(", "a", ":", "int", ")", "->", "any", "{", "return", "[", "a", ",", "7", "]", "[", "0", "]", "}", ")">>, "Accepted"),
  FoldSeed(<<"(", "(", "a", ":", "int", ")", "->", "any", "{", "return", "[", "a", ",", "7", "]", "[", "1", "]", "}", ")">>, "Accepted"),
  FoldSeed(<<"(", "(", "a", ":", "int", ")", "->", "any", "{", "return", "[", "7", ",", "a", ",", "a", "]", "[", "-", "3", "]", "}", ")">>, "Accepted"),
  FoldSeed(<<"(", "(", "a", ":", "int", ")", "->", "any", "{", "return", "[", "a", ",", "7", "]", "[", "-", "1", ":", "]", "}", ")">>, "Accepted"),
  FoldSeed(<<"(", "(", "a", ":", "int", ")", "->", "any", "{", "return", "[", "a", ",", "7", "]", "[", ":", "-", "1", "]", "}", ")">>, "Accepted"),
  FoldSeed(<<"(", "(", "a", ":", "int", ")", "->", "any", "{", "return", "[", "a", ",", "7", "]", "[", ":", ":", "-", "1", "]", "}", ")">>, "Accepted"),
  FoldSeed(<<"(", "(", "a", ":", "int", ")", "->", "any", "{", "return", "[", "a", ";", "2", "]", "[", "-", "1", "]", "}", ")">>, "Accepted"),
  FoldSeed(<<"(", "(", "a", ":", "int", ")", "->", "any", "{", "return", "(", "a", ",", "7", ")", ".", "1", "}", ")">>, "Accepted"),
  FoldSeed(<<"(", "(", "a", ":", "int", ")", "->", "any", "{", "return", "(", "a", ",", "7", ")", ".", "0", "}", ")">>, "Accepted"),
  FoldSeed(<<"(", "(", "a", ":", "int", ")", "->", "any", "{", "return", "struct", "{", "x", ":=", "a", ",", "y", ":=", "7", "}", ".", "y", "}", ")">>, "Accepted"),
  FoldSeed(<<"(", "(", "a", ":", "int", ")", "->", "any", "{", "return", "[", "[", "a", "]", ",", "[", "7", "]", "]", "[", "-", "1", "]", "[", "-", "1", "]", "}", ")">>, "Accepted"),
  FoldSeed(<<"(", "(", "x", ":", "string", ")", "->", "any", "{", "{", "x", ":=", "5", "}", "return", "x", "+", "\"s\"", "}", ")">>, "Accepted"),
  FoldSeed(<<"(", "(", "x", ":", "string", ",", "p", ":", "int", ")", "->", "any", "{", "if", "p", "==", "1", "{", "x", ":=", "5", "}", "return", "x", "+", "\"s\"", "}", ")">>, "Accepted"),
  FoldSeed(<<"(", "(", "x", ":", "string", ",", "p", ":", "int", ")", "->", "any", "{", "if", "p", "==", "1", "{", "}", "else", "{", "x", ":=", "5", "}", "return", "x", "+", "\"s\"", "}", ")">>, "Accepted"),
  FoldSeed(<<"(", "(", "x", ":", "[", "int", "]", ",", "p", ":", "int", ")", "->", "any", "{", "match", "p", "{", "1", "=>", "{", "x", ":=", "5", "}", ",", "=>", "{", "}", ",", "}", "return", "x", "[", "0", "]", "}", ")">>, "Accepted"),
  FoldSeed(<<"(", "(", "x", ":", "string", ")", "->", "any", "{", "{", "(", "x", ",", "y", ")", ":=", "(", "5", ",", "1", ")", "}", "return", "x", "+", "\"s\"", "}", ")">>, "Accepted"),
  FoldSeed(<<"(", "(", "x", ":", "string", ")", "->", "any", "{", "{", "x", ":=", "(", ")", "->", "int", "{", "return", "1", "}", "}", "return", "x", "+", "\"s\"", "}", ")">>, "Accepted"),
  FoldSeed(<<"(", "(", "x", ":", "string", ")", "->", "any", "{", "{", "{", "x", ":=", "5", "}", "}", "return", "x", "+", "\"s\"", "}", ")">>, "Accepted"),
  FoldSeed(<<"(", "(", "x", ":", "string", ",", "p", ":", "[", "int", "]", ")", "->", "any", "{", "for", "y", "in", "p", "~", "{", "x", ":=", "5", "}", "return", "x", "+", "\"s\"", "}", ")">>, "Accepted"),
  FoldSeed(<<"(", "(", "f", ":", "int", ")", "->", "any", "{", "f", ":=", "(", ")", "->", "int", "{", "return", "1", "}", ";", "y", ":=", "f", "(", ")", ";", "return", "y", "}", ")">>, "Accepted"),
  FoldSeed(<<"(", "(", "p", ":", "int", ")", "->", "any", "{", "f", ":=", "5", ";", "f", ":=", "(", ")", "->", "int", "{", "return", "1", "}", ";", "y", ":=", "f", "(", ")", ";", "return", "y", "}", ")">>, "Accepted"),
  FoldSeed(<<"(", "(", "p", ":", "int", ")", "->", "any", "{", "f", ":=", "5", ";", "f", ":=", "(", ")", "->", "(", "int", ",", "int", ")", "{", "return", "(", "1", ",", "1", ")", "}", ";", "(", "y", ",", "s", ")", ":=", "f", "(", ")", ";", "return", "y", "}", ")">>, "Accepted"),
  FoldSeed(<<"(", "(", "p", ":", "int", ")", "->", "any", "{", "f", ":=", "(", ")", "->", "int", "{", "return", "1", "}", ";", "f", ":=", "5", ";", "return", "f", "+", "1", "}", ")">>, "Accepted"),
  FoldSeed(<<"(", "(", "p", ":", "int", ")", "->", "any", "{", "f", ":=", "5", ";", "{", "f", ":=", "(", ")", "->", "int", "{", "return", "1", "}", ";", "y", ":=", "f", "(", ")", "}", "return", "f", "+", "1", "}", ")">>, "Accepted"),
  FoldSeed(<<"mod", "{", "f", ":=", "5", ";", "f", ":=", "(", ")", "->", "int", "{", "return", "1", "}", ";", "y", ":=", "f", "(", ")", "}">>, "Accepted"),
  FoldSeed(<<"(", "(", "p", ":", "int", ")", "->", "any", "{", "x", ":=", "1", ";", "x", ":=", "\"s\"", ";", "return", "x", "+", "\"s\"", "}", ")">>, "Accepted"),
  FoldSeed(<<"(", "(", "p", ":", "(", "int", ",", "int", ")", "|", "(", "int", ",", "int", ",", "int", ")", ")", "->", "any", "{", "y", ":=", "p", ".", "1", ";", "return", "y", "}", ")">>, "Accepted"),
  FoldSeed(<<"(", "(", "p", ":", "struct", "{", "a", ":", "int", "}", "|", "struct", "{", "a", ":", "float", ",", "b", ":", "int", "}", ")", "->", "any", "{", "y", ":=", "p", ".", "a", ";", "return", "y", "}", ")">>, "Accepted"),
  FoldSeed(<<"(", "(", "p", ":", "[", "int", "]", "|", "string", ")", "->", "any", "{", "y", ":=", "p", "[", "0", "]", ";", "return", "y", "}", ")">>, "Accepted"),
  FoldSeed(<<"(", "(", "p", ":", "[", "int", "]", "|", "[", "string", "]", ")", "->", "any", "{", "y", ":=", "p", "[", "0", ":", "1", "]", ";", "return", "y", "}", ")">>, "Accepted"),
  FoldSeed(<<"(", "(", "p", ":", "(", "int", ")", "->", "int", "|", "(", "int", ")", "->", "float", ")", "->", "any", "{", "y", ":=", "p", "(", "1", ")", ";", "return", "y", "}", ")">>, "Accepted"),
  FoldSeed(<<"(", "(", "p", ":", "mut", "int", "|", "mut", "float", ")", "->", "any", "{", "y", ":=", "*", "p", ";", "return", "y", "}", ")">>, "Accepted"),
  FoldSeed(<<"(", "(", "p", ":", "int", "|", "float", ")", "->", "any", "{", "y", ":=", "-", "p", ";", "return", "y", "}", ")">>, "Accepted"),
  FoldSeed(<<"(", "(", "p", ":", "int", "|", "bool", ")", "->", "any", "{", "y", ":=", "!", "p", ";", "return", "y", "}", ")">>, "Accepted"),
  FoldSeed(<<"(", "(", "p", ":", "int", ")", "->", "any", "{", "(", "y", ",", "s", ")", ":=", "(", "p", ",", "(", ")", "->", "int", "{", "return", "1", "}", ")", ";", "n", ":=", "s", "(", ")", ";", "return", "n", "+", "1", "}", ")">>, "Accepted"),
  FoldSeed(<<"(", "(", "p", ":", "int", ")", "->", "any", "{", "s", ":=", "(", "(", ")", "->", "int", "{", "return", "p", "}", ")", ";", "n", ":=", "s", "(", ")", ";", "return", "n", "+", "1", "}", ")">>, "Accepted")
}

\* the implementation does not fold ** at all: the negative exponent is a run-time error (C02/C08);
\* parsing must still be total on it
MinInt == <<"(", "0", "-", "9223372036854775807", "-", "1", ")">>
MinusOne == <<"(", "0", "-", "1", ")">>
\* ... and constant arithmetic at the edge of the int range is folded with wrapping semantics: it must never
\* panic (the values are C08's business; here only totality)
UnfoldedSeeds == {<<"2", "**", "(", "0", "-", "1", ")">>, <<"2", "**", "-", "1">>,
                  MinInt \o <<"%">> \o MinusOne, MinInt \o <<"/">> \o MinusOne, MinInt \o <<"*">> \o MinusOne,
                  <<"-">> \o MinInt, MinInt \o <<"-", "1">>,
                  <<"9223372036854775807", "+", "1">>, <<"9223372036854775807", "*", "2">>,
                  <<"1", "<<", "63">>, <<"2", "**", "64">>, MinInt \o <<">>", "63">>}

W(name, tpl) == [name |-> name, tpl |-> tpl]
LiveWrappers == {
  W("top", <<"#1">>),
  W("paren", <<"(", "#1", ")">>),
  W("set", <<"n", ":=", "#1">>),
  W("block", <<"{", "#1", "}">>),
  W("block_first", <<"{", "n", ":=", "#1", ";", "1", "}">>),
  W("fn_body", <<"g", ":=", "(", ")", "{", "n", ":=", "#1", "}">>),
  W("fn_return", <<"g", ":=", "(", ")", "->", "any", "{", "return", "#1", "}">>),
  W("fn_param_use", <<"g", ":=", "(", "p", ":", "int", ")", "->", "any", "{", "return", "(", "p", ",", "#1", ")", "}">>),
  W("anon_fn", <<"(", ")", "->", "any", "{", "return", "#1", "}">>),
  W("nested_fn", <<"g", ":=", "(", ")", "->", "any", "{", "return", "(", ")", "->", "any", "{", "return", "#1", "}", "}">>),
  W("array", <<"[", "1", ",", "#1", "]">>),
  W("repeat_value", <<"[", "#1", ";", "2", "]">>),
  W("tuple", <<"(", "1", ",", "#1", ")">>),
  W("struct", <<"struct", "{", "a", ":=", "#1", "}">>),
  W("mut", <<"mut", "any", "#1">>),
  W("if_cond", <<"if", "(", "#1", ")", "==", "1", "{", "}">>),
  W("if_true_branch", <<"if", "true", "{", "#1", "}">>),
  W("if_else_branch", <<"if", "false", "{", "}", "else", "{", "#1", "}">>),
  W("if_unknown_branch", <<"g", ":=", "(", "b", ":", "bool", ")", "{", "if", "b", "{", "n", ":=", "#1", "}", "}">>),
  W("ifset_value", <<"if", "n", ":", "any", "=", "#1", "{", "}">>),
  W("while_cond", <<"while", "(", "#1", ")", "==", "1", "{", "}">>),
  W("while_body", <<"g", ":=", "(", "b", ":", "bool", ")", "{", "while", "b", "{", "n", ":=", "#1", "}", "}">>),
  W("loop_body", <<"loop", "{", "n", ":=", "#1", ";", "break", "}">>),
  W("for_source", <<"for", "e", "in", "[", "#1", "]", "~", "{", "}">>),
  W("for_body", <<"for", "e", "in", "[", "1", "]", "~", "{", "n", ":=", "#1", "}">>),
  W("match_subject", <<"match", "#1", "{", "=>", "1", ",", "}">>),
  W("match_default_arm", <<"match", "1", "{", "=>", "#1", ",", "}">>),
  W("match_value_arm", <<"match", "1", "{", "1", "=>", "#1", ",", "=>", "2", ",", "}">>),
  W("match_type_arm", <<"match", "1", "{", "n", ":", "int", "=>", "#1", ",", "=>", "2", ",", "}">>),
  W("match_value", <<"g", ":=", "(", "w", ":", "any", ")", "{", "match", "w", "{", "#1", "=>", "1", ",", "=>", "2", ",", "}", "}">>),
  W("call_arg", <<"g", ":=", "(", "p", ":", "any", ")", "->", "any", "{", "return", "p", "}", ";", "g", "(", "#1", ")">>),
  W("call_arg2", <<"g", ":=", "(", "p", ":", "int", ",", "q", ":", "any", ")", "->", "any", "{", "return", "q", "}", ";", "g", "(", "1", ",", "#1", ")">>),
  W("return_top_fn", <<"g", ":=", "(", ")", "->", "any", "{", "if", "true", "{", "return", "#1", "}", "return", "1", "}">>),
  W("assign_rhs", <<"n", ":=", "mut", "any", "1", ";", "n", "=", "#1">>),
  W("and_rhs", <<"true", "&&", "(", "#1", ")", "==", "1">>),
  W("or_rhs", <<"false", "||", "(", "#1", ")", "==", "1">>),
  W("equal", <<"(", "#1", ")", "==", "(", "#1", ")">>),
  W("mod_member", <<"mod", "{", "n", ":=", "#1", "}">>),
  W("index_base", <<"[", "#1", "]", "[", "0", "]">>)
}
\* the seed is never folded here (the construct folds the other way): either outcome, never a panic
DeadWrappers == {
  W("if_false_branch", <<"if", "false", "{", "#1", "}">>),
  W("if_true_else", <<"if", "true", "{", "}", "else", "{", "#1", "}">>),
  W("and_dead", <<"false", "&&", "(", "#1", ")", "==", "1">>),
  W("or_dead", <<"true", "||", "(", "#1", ")", "==", "1">>),
  W("after_return", <<"g", ":=", "(", ")", "->", "any", "{", "return", "1", ";", "n", ":=", "#1", "}">>),
  W("after_break", <<"loop", "{", "break", ";", "n", ":=", "#1", "}">>)
}
Wrappers == LiveWrappers \cup DeadWrappers

Fill(tpl, ts) == FlattenSeq([j \in 1..Len(tpl) |-> IF tpl[j] = "#1" THEN ts ELSE <<tpl[j]>>])

\* one level and two levels of wrapping; the prediction is the class of the seed when every
\* wrapper on the way is live
FoldCase(ws, seed) ==
  [ws |-> [i \in 1..Len(ws) |-> ws[i].name],
   ts |-> IF Len(ws) = 1 THEN Fill(ws[1].tpl, seed.ts)
          ELSE Fill(ws[1].tpl, <<"(">> \o Fill(ws[2].tpl, seed.ts) \o <<")">>),
   expect |-> IF seed.class = "Accepted" THEN "Program"
              ELSE IF \A i \in 1..Len(ws) : ws[i] \in LiveWrappers
                   THEN (IF seed.class = "Rejected" THEN "Error" ELSE "Error:" \o seed.class) ELSE "any"]

\* wrappers whose slot is an expression position (the inner program can be parenthesised into it)
ExprWrapperNames == {"paren", "array", "repeat_value", "tuple", "struct", "mut", "and_rhs", "or_rhs",
                     "equal", "anon_fn", "mod_member", "and_dead", "or_dead"}
InnerWrappers == {w \in Wrappers : w.name \in ExprWrapperNames}
=============================================================================
