SPECIFICATION Spec
CONSTANTS
  NL = 8
  Mode = "cases"
  Chunks = 16
  Thorough = FALSE
INVARIANTS
  InvLaws
  InvStart
  InvCases
  InvTable
POSTCONDITION Emit
CHECK_DEADLOCK FALSE
