----------------------------- MODULE MC_Stdlib -----------------------------
(***************************************************************************)
(* Model-checking harness for Stdlib.                                       *)
(*                                                                           *)
(* Mode = "laws"  (NL = 2: 16-bit ints): every limb/bit definition is        *)
(*   compared with TLC's own integers for ALL 65 536 ints; the string       *)
(*   helpers are checked against their algebraic laws on all strings over a *)
(*   7-letter alphabet (ASCII, multi-byte, astral, Unicode blank) up to a   *)
(*   length bound; the UTF-8 decoder against the encoder on all byte        *)
(*   sequences of length <= 2 and on longer ones over the 16 bytes at which *)
(*   the RFC 3629 table changes.                                            *)
(* Mode = "cases" (NL = 8: SimpleSL's ints): the boundary argument vectors  *)
(*   of every export with the specification's prediction; invariants say    *)
(*   that every vector is admitted by the declared parameter types and      *)
(*   every exact prediction lies in the declared result type; the           *)
(*   POSTCONDITION writes them for replay against the implementation.       *)
(*                                                                           *)
(* State machine: two-level fan-out (0 -> -chunk -> row) as in MC_Types.    *)
(***************************************************************************)
EXTENDS Stdlib, Json, IOUtils

CONSTANTS Mode, Chunks, Thorough

VARIABLE row

(***************************************************************************)
(* ---------------------------- laws (NL = 2) ----------------------------- *)
(***************************************************************************)
SeqOfIndex(i, A) ==            \* the i-th (0-based) sequence over alphabet A, ordered by length
  LET n == Len(A)
      RECURSIVE Find(_, _)
      Find(len, rem) == IF rem < n ^ len THEN [len |-> len, rem |-> rem] ELSE Find(len + 1, rem - n ^ len)
      f == Find(0, i)
  IN [j \in 1..f.len |-> A[((f.rem \div (n ^ (j - 1))) % n) + 1]]
CountSeqs(n, L) == ((n ^ (L + 1)) - 1) \div (n - 1)       \* 1 + n + ... + n^L, closed form (TLC caches it)

Alpha == <<97, 65, 44, 32, 233, 12288, 128512>>         \* a A , blank e-acute ideographic-space emoji
StrMax == IF Thorough THEN 4 ELSE 3
Pats == IF Thorough THEN {SeqOfIndex(i, Alpha) : i \in 0..(CountSeqs(Len(Alpha), 2) - 1)}
        ELSE {SeqOfIndex(i, Alpha) : i \in 0..Len(Alpha)}
             \cup {<<97, 97>>, <<44, 44>>, <<97, 44>>, <<233, 128512>>, <<32, 12288>>, <<65, 97>>}
AllBytes == [i \in 1..256 |-> i - 1]
EdgeBytes == <<0, 65, 127, 128, 143, 144, 159, 160, 191, 192, 194, 224, 237, 240, 244, 255>>
EdgeMax == IF Thorough THEN 5 ELSE 3

NI  == 65536
NS  == CountSeqs(Len(Alpha), StrMax)
NB1 == CountSeqs(256, 2)
NB2 == CountSeqs(Len(EdgeBytes), EdgeMax)
NLaws == NI + NS + NB1 + NB2

KindOf(r) == IF r <= NI THEN "int" ELSE IF r <= NI + NS THEN "str"
             ELSE IF r <= NI + NS + NB1 THEN "bytes1" ELSE "bytes2"
CurInt(r)   == <<(r - 1) % 256, (r - 1) \div 256>>
CurStr(r)   == SeqOfIndex(r - NI - 1, Alpha)
CurBytes(r) == IF KindOf(r) = "bytes1" THEN SeqOfIndex(r - NI - NS - 1, AllBytes)
               ELSE SeqOfIndex(r - NI - NS - NB1 - 1, EdgeBytes)

\* --- native (TLC integer) definitions to compare with
RECURSIVE PopNat(_)
PopNat(n) == IF n = 0 THEN 0 ELSE (n % 2) + PopNat(n \div 2)
RECURSIVE PowNat(_, _)
PowNat(b, e) == IF e = 0 THEN 1 ELSE b * PowNat(b, e - 1)
RECURSIVE DecNat(_)
DecNat(n) == IF n < 10 THEN <<48 + n>> ELSE DecNat(n \div 10) \o <<48 + (n % 10)>>
Dec(n) == IF n < 0 THEN <<45>> \o DecNat(-n) ELSE DecNat(n)
Unsigned(l) == l[1] + 256 * l[2]
Wrap16(x) == ((x + 32768) % 65536) - 32768
Bases == {-32768, -1, 0, 1, 2, 3, 7, 10, 16, 255, 256, 1000, 32767}

IntLaws(l) ==
  LET n == ToNative(l)
      u == Unsigned(l)
  IN /\ CountOnes(l) + CountZeros(l) = W
     /\ ReverseBits(ReverseBits(l)) = l /\ SwapBytes(SwapBytes(l)) = l
     /\ CountOnes(ReverseBits(l)) = CountOnes(l) /\ CountOnes(SwapBytes(l)) = CountOnes(l)
     /\ LeadingZeros(l) = TrailingZeros(ReverseBits(l)) /\ LeadingOnes(l) = TrailingOnes(ReverseBits(l))
     /\ LeadingOnes(l) = LeadingZeros(NotL(l)) /\ TrailingOnes(l) = TrailingZeros(NotL(l))
     \* against TLC's integers
     /\ n \in -32768..32767 /\ FromNative(n) = l /\ NegL(NegL(l)) = l
     /\ (n # -32768 => ToNative(NegL(l)) = -n)
     /\ CountOnes(l) = PopNat(u)
     /\ Unsigned(SwapBytes(l)) = (u % 256) * 256 + (u \div 256)
     /\ (u > 0 => LET z == LeadingZeros(l) IN PowNat(2, W - 1 - z) <= u /\ u \div PowNat(2, W - 1 - z) < 2)
     /\ (u > 0 => LET z == TrailingZeros(l) IN u % PowNat(2, z) = 0 /\ (u \div PowNat(2, z)) % 2 = 1)
     /\ (u = 0 => LeadingZeros(l) = W /\ TrailingZeros(l) = W /\ CountZeros(l) = W)
     /\ \A b \in Bases :
          LET r == ILogL(l, FromNative(b)) IN
          IF n <= 0 \/ b < 2 THEN IsNone(r)
          ELSE ~IsNone(r) /\ PowNat(b, r.v) <= n /\ n \div PowNat(b, r.v) < b
     /\ (n > 0 => ILogL(l, NatL(2)).v = W - 1 - LeadingZeros(l))
     \* wrapping sum / product against TLC's integers, bitwise laws
     /\ \A b \in Bases :
          LET m == FromNative(b) IN
          /\ ToNative(AddL(l, m)) = Wrap16(n + b) /\ ToNative(MulL(l, m)) = Wrap16(n * b)
          /\ AndL(l, m) = AndL(m, l) /\ OrL(l, m) = OrL(m, l)
          /\ NotL(AndL(l, m)) = OrL(NotL(l), NotL(m))
          /\ CountOnes(AndL(l, m)) + CountOnes(OrL(l, m)) = CountOnes(l) + CountOnes(m)
     /\ AndL(l, l) = l /\ OrL(l, l) = l /\ AndL(l, NotL(l)) = ZeroL /\ OrL(l, NotL(l)) = AllOnesL
     /\ AndL(l, AllOnesL) = l /\ OrL(l, ZeroL) = l /\ AddL(l, NegL(l)) = ZeroL /\ MulL(l, NatL(1)) = l
     \* parse_int inverts decimal rendering, accepts a plus sign and leading zeros, nothing else
     /\ ParseIntCps(Dec(n)) = IntL(l)
     /\ (n >= 0 => ParseIntCps(<<43>> \o Dec(n)) = IntL(l) /\ ParseIntCps(<<48, 48>> \o Dec(n)) = IntL(l))
     /\ (n < 0 => ParseIntCps(<<45, 48>> \o DecNat(-n)) = IntL(l))
     /\ ParseIntCps(Dec(32768 + u)) = VoidV /\ ParseIntCps(<<45>> \o DecNat(32769 + u)) = VoidV
     /\ ParseIntCps(Dec(n) \o <<32>>) = VoidV /\ ParseIntCps(<<32>> \o Dec(n)) = VoidV
     /\ ParseIntCps(Dec(n) \o <<95>>) = VoidV /\ ParseIntCps(<<45>> \o Dec(n)) = (IF n > 0 THEN IntV(-n) ELSE IF n = 0 THEN IntV(0) ELSE VoidV)

StrLaws(s) ==
  /\ \A p \in Pats \ {<<>>} :
       LET ps == StrSplit(s, p) IN
       /\ StrJoin(ps, p) = s
       /\ \A i \in 1..Len(ps) : ~StrContains(ps[i], p)                 \* no piece still contains the pattern
       /\ StrContains(s, p) = (Len(ps) > 1)
       /\ StrStartsWith(s, p) = (Len(ps) > 1 /\ ps[1] = <<>>)
       /\ StrReplace(s, p, p) = s
       /\ \A t \in {<<>>, <<88>>, p \o p} : StrReplace(s, p, t) = StrJoin(ps, t)
       /\ (StrStartsWith(s, p) => StrContains(s, p)) /\ (StrEndsWith(s, p) => StrContains(s, p))
       /\ StrEndsWith(s, p) = (Len(p) <= Len(s) /\ MatchAt(s, p, Len(s) - Len(p) + 1))
  /\ StrContains(s, <<>>) /\ StrStartsWith(s, <<>>) /\ StrEndsWith(s, <<>>)
  /\ StrStartsWith(s, s) /\ StrEndsWith(s, s) /\ StrContains(s, s)
  /\ Utf8Dec(Utf8Bytes(s)) = [k |-> "some", cps |-> s]
  /\ Len(StrChars(s)) = Len(s) /\ FlattenSeq(StrChars(s)) = s
  /\ Len(Utf8Bytes(s)) >= Len(s) /\ \A i \in 1..Len(Utf8Bytes(s)) : Utf8Bytes(s)[i] \in 0..255
  /\ LET t == StrTrim(s) IN
     /\ StrTrim(t) = t /\ t = StrTrimStart(StrTrimEnd(s))
     /\ (t # <<>> => ~IsWs(t[1]) /\ ~IsWs(t[Len(t)]))
     /\ \E i \in 0..Len(s), j \in 0..Len(s) :
          /\ i + Len(t) + j = Len(s) /\ SubSeq(s, i + 1, i + Len(t)) = t
          /\ \A x \in (1..i) \cup ((Len(s) - j + 1)..Len(s)) : IsWs(s[x])
  /\ AsciiLower(AsciiUpper(s)) = AsciiLower(s) /\ AsciiUpper(AsciiLower(s)) = AsciiUpper(s)
  /\ Len(AsciiLower(s)) = Len(s) /\ AsciiLower(AsciiLower(s)) = AsciiLower(s)

ByteLaws(bs) ==
  LET d == Utf8Dec(bs) IN
  /\ (~IsNone(d) => Utf8Bytes(d.cps) = bs /\ \A i \in 1..Len(d.cps) : IsScalar(d.cps[i]))
  \* a sequence with a valid prefix and a valid rest is valid, and only then
  /\ (~IsNone(d) /\ Len(bs) > 0 =>
        \E n \in 1..4 : n <= Len(bs) /\ ~IsNone(Utf8Dec(SubSeq(bs, 1, n))) /\ ~IsNone(Utf8Dec(SubSeq(bs, n + 1, Len(bs)))))
  /\ LET r == ReadLine(bs) IN
     /\ Len(r.rest) < Len(bs) \/ bs = <<>>
     /\ (r.res.k = "exact" => \A i \in 1..Len(r.res.v.cps) : r.res.v.cps[i] # 10)

ScalarSample == {0, 65, 127, 128, 255, 2047, 2048, 4095, 4096, 55295, 57344, 65533, 65535, 65536, 131071,
                 262143, 262144, 1114111} \cup {i * 1009 : i \in 0..50} \cup {65536 + i * 20011 : i \in 0..50}
StartLaws ==
  /\ \A c \in {x \in ScalarSample : IsScalar(x)} : Utf8Dec(Utf8Enc(c)) = [k |-> "some", cps |-> <<c>>]
  /\ \A c \in 55296..57343 : (c % 257 = 0) => IsNone(Utf8Dec(<<224 + (c \div 4096), 128 + ((c \div 64) % 64), 128 + (c % 64)>>))
  /\ IsNone(Utf8Dec(<<300>>)) /\ IsNone(Utf8Dec(<<-1>>)) /\ IsNone(Utf8Dec(<<65, 256>>))
  /\ ParseIntCps(<<>>) = VoidV /\ ParseIntCps(<<45>>) = VoidV /\ ParseIntCps(<<43>>) = VoidV
  /\ ParseIntCps(<<43, 45, 53>>) = VoidV /\ ParseIntCps(<<45, 45, 53>>) = VoidV
  /\ ParseIntCps(<<45, 51, 50, 55, 54, 56>>) = IntL(MinL) /\ ParseIntCps(<<51, 50, 55, 54, 55>>) = IntL(MaxL)
  \* half-integer floats: encode/decode round trip, known patterns
  /\ \A h \in (-300..300) \cup {8388607, -8388607, 16777215, -16777215, 1048576} :
       LET d == HalfOfFloat(FloatOfHalf(h)) IN ~IsNone(d) /\ d.h = h
  /\ FloatOfHalf(2) = <<0, 0, 0, 0, 0, 0, 240, 63>>          \* 1.0  = 0x3FF0000000000000
  /\ FloatOfHalf(-5) = <<0, 0, 0, 0, 0, 0, 4, 192>>          \* -2.5 = 0xC004000000000000
  /\ FloatOfHalf(1) = <<0, 0, 0, 0, 0, 0, 224, 63>>          \* 0.5  = 0x3FE0000000000000
  /\ IsNone(HalfOfFloat(<<0, 0, 0, 0, 0, 0, 208, 63>>))      \* 0.25
  /\ IsNone(HalfOfFloat(<<0, 0, 0, 0, 0, 0, 248, 127>>))     \* NaN
  /\ \A h \in -9..9 : /\ FloorHalf(h) * 2 <= h /\ h < (FloorHalf(h) + 1) * 2
                      /\ CeilHalf(h) * 2 >= h /\ h > (CeilHalf(h) - 1) * 2
                      /\ TruncHalf(h) = (IF h >= 0 THEN FloorHalf(h) ELSE CeilHalf(h))
                      /\ RoundHalf(h) \in {FloorHalf(h), CeilHalf(h)} /\ RoundEvenHalf(h) \in {FloorHalf(h), CeilHalf(h)}
                      /\ (h % 2 = 1 => RoundEvenHalf(h) % 2 = 0 /\ RoundHalf(h) = (IF h > 0 THEN CeilHalf(h) ELSE FloorHalf(h)))
  \* Unicode's White_Space property has exactly 25 code points, none above U+3000
  /\ Cardinality({c \in 0..70000 : IsWs(c)}) = 25 /\ IsWs(13) /\ IsWs(12288) /\ ~IsWs(8203) /\ ~IsWs(6158)
  /\ TableWellFormed

(***************************************************************************)
(* --------------------------- cases (NL = 8) ----------------------------- *)
(***************************************************************************)
I8(n) == IntV(n)
IMin == IntL(MinL)
IMax == IntL(MaxL)
IntsB == <<IMin, IMax, I8(0), I8(1), I8(-1), I8(2), I8(3), I8(7), I8(10), I8(100), I8(255), I8(256), I8(-128), I8(1000),
           IntL(<<255, 255, 255, 127, 0, 0, 0, 0>>),        \* 2^31 - 1
           IntL(<<0, 0, 0, 0, 1, 0, 0, 0>>),                \* 2^32
           IntL(<<8, 7, 6, 5, 4, 3, 2, 1>>),                \* 0x0102030405060708
           IntL(<<0, 255, 0, 255, 0, 255, 0, 255>>),        \* 0xFF00FF00FF00FF00
           IntL(<<0, 0, 100, 167, 179, 182, 224, 13>>),     \* 10^18
           IntL(<<255, 255, 99, 167, 179, 182, 224, 13>>),  \* 10^18 - 1
           IntL(<<0, 0, 0, 0, 0, 0, 0, 64>>),               \* 2^62
           IntL(<<1, 0, 0, 0, 0, 0, 32, 0>>),               \* 2^53 + 1
           IntL(<<1, 0, 0, 0, 0, 0, 0, 128>>)>>             \* MIN + 1
BasesB == <<IMin, IMax, I8(-1), I8(0), I8(1), I8(2), I8(3), I8(10), I8(16), I8(256),
            IntL(<<0, 0, 0, 0, 1, 0, 0, 0>>),
            IntL(<<51, 243, 4, 181, 0, 0, 0, 0>>),          \* 3037000499 = floor(sqrt(MAX))
            IntL(<<52, 243, 4, 181, 0, 0, 0, 0>>)>>         \* 3037000500
FNan  == FloatB(<<0, 0, 0, 0, 0, 0, 248, 127>>)
FNanN == FloatB(<<0, 0, 0, 0, 0, 0, 248, 255>>)
FInf  == FloatB(<<0, 0, 0, 0, 0, 0, 240, 127>>)
FNInf == FloatB(<<0, 0, 0, 0, 0, 0, 240, 255>>)
FNZero == FloatB(<<0, 0, 0, 0, 0, 0, 0, 128>>)
FloatsCore == <<FloatH(0), FNZero, FloatH(2), FloatH(-5), FNan, FInf, FNInf, FloatH(5)>>
FloatsB == FloatsCore \o
   <<FloatH(1), FloatH(3), FloatH(-1), FloatH(-3), FloatH(7), FloatH(-7), FloatH(200), FloatH(16777215), FloatH(-16777215), FNanN,
     FloatB(<<255, 255, 255, 255, 255, 255, 239, 127>>),     \* f64::MAX
     FloatB(<<1, 0, 0, 0, 0, 0, 0, 0>>),                     \* smallest subnormal
     FloatB(<<0, 0, 0, 0, 0, 0, 16, 0>>),                    \* MIN_POSITIVE
     FloatB(<<0, 0, 0, 0, 0, 0, 224, 67>>),                  \* 2^63
     FloatB(<<0, 0, 0, 0, 0, 0, 224, 195>>),                 \* -2^63
     FloatB(<<0, 0, 0, 0, 0, 0, 64, 67>>),                   \* 2^53
     FloatB(<<154, 153, 153, 153, 153, 153, 185, 63>>),      \* 0.1
     FloatB(<<156, 117, 0, 136, 60, 228, 55, 126>>)>>        \* 1e300

S(cps) == StrV(cps)
D(ds) == [i \in 1..Len(ds) |-> 48 + ds[i]]
MaxTxt == D(<<9, 2, 2, 3, 3, 7, 2, 0, 3, 6, 8, 5, 4, 7, 7, 5, 8, 0, 7>>)
MaxTxt1 == D(<<9, 2, 2, 3, 3, 7, 2, 0, 3, 6, 8, 5, 4, 7, 7, 5, 8, 0, 8>>)
MaxTxt2 == D(<<9, 2, 2, 3, 3, 7, 2, 0, 3, 6, 8, 5, 4, 7, 7, 5, 8, 0, 9>>)
StrsB == <<S(<<>>), S(<<97>>), S(<<97, 98, 99>>), S(<<97, 44, 98>>), S(<<44, 97, 44, 44, 98, 44>>),
           S(<<32, 32, 97, 32, 98, 9, 10>>), S(<<233>>), S(<<26085, 26412, 35486>>), S(<<128512>>),
           S(<<97, 233, 128512>>), S(<<0>>), S(<<97, 0, 98>>), S(<<192, 201>>), S(<<223>>), S(<<304>>),
           S(<<65533>>), S(<<133, 160, 120, 12288>>), S(<<8203, 97, 8203>>), S(<<5760, 32, 97, 8232>>),
           S(<<6158, 97>>), S(<<72, 101, 108, 108, 111, 44, 32, 87, 111, 114, 108, 100, 33>>),
           S(<<65, 66, 67, 32, 120, 121, 122>>), S(<<34, 92>>), S(<<10>>), S(<<1114111>>), S(<<55295, 57344>>),
           S(<<13, 10>>), S(<<64, 91, 96, 123>>),
           \* case mappings that depend on the position or change the length: word-final capital sigma, sigma inside a
           \* word, a lone sigma, sharp s, dotted capital I, a titlecase digraph
           S(<<927, 916, 933, 931, 931, 917, 933, 931>>), S(<<913, 931, 32, 914, 931, 913>>), S(<<931>>), S(<<97, 931>>),
           S(<<223, 97>>), S(<<304, 73>>), S(<<453>>), S(<<64257>>)>>
ParseIntB == <<S(<<48>>), S(<<45, 48>>), S(<<43, 48>>), S(<<53>>), S(<<43, 53>>), S(<<45, 53>>), S(<<45, 45, 53>>),
               S(<<43, 45, 53>>), S(<<45>>), S(<<43>>), S(<<>>), S(<<32, 53>>), S(<<53, 32>>), S(<<49, 95, 48, 48, 48>>),
               S(<<48, 120, 49, 48>>), S(<<49, 50, 97>>), S(<<65297, 65298>>), S(<<1635>>),
               S(MaxTxt), S(MaxTxt1), S(<<45>> \o MaxTxt1), S(<<45>> \o MaxTxt2), S(<<43>> \o MaxTxt),
               S([i \in 1..30 |-> 48] \o <<49, 50>>), S([i \in 1..32 |-> 57]),
               S(<<49, 101, 51>>), S(<<49, 46, 48>>),
               S(D(<<1, 8, 4, 4, 6, 7, 4, 4, 0, 7, 3, 7, 0, 9, 5, 5, 1, 6, 1, 6>>)),
               S(D(<<1, 8, 4, 4, 6, 7, 4, 4, 0, 7, 3, 7, 0, 9, 5, 5, 1, 6, 1, 7>>)),
               S(<<53, 10>>)>>
ParseFloatB == <<S(<<49, 46, 53>>), S(<<45, 48, 46, 48>>), S(<<110, 97, 110>>), S(<<78, 97, 78>>), S(<<105, 110, 102>>),
                 S(<<45, 105, 110, 102>>), S(<<105, 110, 102, 105, 110, 105, 116, 121>>), S(<<49, 101, 52, 48, 48>>),
                 S(<<49, 101, 45, 52, 48, 48>>), S(<<46, 53>>), S(<<53, 46>>), S(<<>>), S(<<97, 98, 99>>),
                 S(<<49, 95, 48>>), S(<<32, 49>>), S(<<48, 120, 49, 112, 51>>), S(<<43, 51, 46, 53, 69, 43, 50>>), S(<<53>>)>>
SubjB == <<S(<<>>), S(<<97, 44, 98>>), S(<<44, 97, 44, 44, 98, 44>>), S(<<97, 97, 97>>), S(<<97, 98, 99, 97, 98, 99>>),
           S(<<97, 233, 128512, 233>>), S(<<97, 32, 98>>), S(<<44>>)>>
PatB == <<S(<<44>>), S(<<>>), S(<<97>>), S(<<97, 97>>), S(<<233>>), S(<<44, 44>>), S(<<97, 98, 99>>), S(<<128512>>),
          S(<<120>>), S(<<97, 233, 128512, 233>>)>>
ReplSubjB == <<S(<<>>), S(<<97, 97, 97>>), S(<<97, 44, 98, 44, 44, 99>>), S(<<104, 233, 108, 108, 111, 128512>>),
               S(<<97, 98, 99, 97, 98, 99>>)>>
ReplFromB == <<S(<<44>>), S(<<>>), S(<<97>>), S(<<97, 97>>), S(<<233>>), S(<<98, 99>>)>>
ReplToB == <<S(<<>>), S(<<88>>), S(<<233, 233>>), S(<<97, 97>>)>>

ByteArr(ns) == ArrV(IF Len(ns) = 0 THEN TNever ELSE TInt, ns)
BytesB == <<ByteArr(<<>>), ByteArr(<<I8(65)>>), ByteArr(<<I8(195), I8(169)>>), ByteArr(<<I8(195)>>), ByteArr(<<I8(169)>>),
            ByteArr(<<I8(226), I8(130), I8(172)>>), ByteArr(<<I8(240), I8(159), I8(152), I8(128)>>),
            ByteArr(<<I8(237), I8(160), I8(128)>>), ByteArr(<<I8(192), I8(128)>>),
            ByteArr(<<I8(244), I8(144), I8(128), I8(128)>>), ByteArr(<<I8(244), I8(143), I8(191), I8(191)>>),
            ByteArr(<<I8(255)>>), ByteArr(<<I8(0)>>), ByteArr(<<I8(104), I8(105), I8(10)>>),
            ByteArr(<<I8(256)>>), ByteArr(<<I8(-1)>>), ByteArr(<<I8(321)>>), ByteArr(<<IMin>>), ByteArr(<<IMax>>),
            ByteArr(<<I8(65), I8(300), I8(66)>>), ByteArr(<<I8(65), I8(128), I8(66)>>),
            ArrV(TInt, <<I8(72), I8(105)>>)>>

IntFloat == Multi({TInt, TFloat})
IntStr == Multi({TInt, TString})
Lambda == [k |-> "fnv", sig |-> Fn(<<TInt>>, TInt), src |-> "lambda"]
IterV(t, arr) == [k |-> "fnv", sig |-> IterT(t), src |-> "iter", of |-> arr]
ArraysB == <<ArrV(TNever, <<>>), ArrV(TInt, <<I8(1), I8(2)>>), ArrV(IntStr, <<I8(1), S(<<97>>)>>),
             ArrV(Arr(TInt), <<ArrV(TInt, <<I8(1)>>), ArrV(TInt, <<I8(2), I8(3)>>)>>),
             ArrV(TString, <<S(<<97>>), S(<<233, 128512>>), S(<<>>)>>), ArrV(TVoid, <<VoidV>>),
             ArrV(TFloat, <<FloatH(5), FNan>>), ArrV(Arr(TNever), <<ArrV(TNever, <<>>)>>)>>
AnyB == <<I8(5), IMin, FloatH(5), FNan, FNZero, S(<<>>), S(<<97, 233>>), BoolV(TRUE), BoolV(FALSE), VoidV,
          [k |-> "tuple", es |-> <<I8(1), S(<<97>>)>>],
          [k |-> "struct", fs |-> "a" :> I8(1)], [k |-> "struct", fs |-> <<>>],
          [k |-> "struct", fs |-> "a" :> I8(1) @@ "b" :> S(<<120>>)],
          [k |-> "cell", ty |-> TInt, c |-> I8(5)], [k |-> "cell", ty |-> IntStr, c |-> S(<<97>>)],
          Lambda, IterV(TInt, ArrV(TInt, <<I8(1)>>))>> \o ArraysB
SepsB == <<S(<<>>), S(<<44, 32>>), S(<<233>>)>>
IntItersB == <<IterV(TNever, ArrV(TNever, <<>>)), IterV(TInt, ArrV(TInt, <<I8(5)>>)),
               IterV(TInt, ArrV(TInt, <<I8(1), I8(2), I8(3)>>)), IterV(TInt, ArrV(TInt, <<IMax, I8(1)>>)),
               IterV(TInt, ArrV(TInt, <<IMin, I8(-1)>>)), IterV(TInt, ArrV(TInt, <<I8(255), I8(15)>>)),
               IterV(TInt, ArrV(TInt, <<I8(-1), I8(0)>>)), IterV(TInt, ArrV(TInt, <<IMax, I8(2)>>)),
               IterV(TInt, ArrV(TInt, <<IMin, IMin>>))>>
BoolItersB == <<IterV(TNever, ArrV(TNever, <<>>)), IterV(TBool, ArrV(TBool, <<BoolV(TRUE)>>)),
                IterV(TBool, ArrV(TBool, <<BoolV(TRUE), BoolV(FALSE)>>)),
                IterV(TBool, ArrV(TBool, <<BoolV(FALSE), BoolV(FALSE)>>)),
                IterV(TBool, ArrV(TBool, <<BoolV(TRUE), BoolV(TRUE), BoolV(TRUE)>>))>>
FloatItersB == <<IterV(TNever, ArrV(TNever, <<>>)), IterV(TFloat, ArrV(TFloat, <<FloatH(1)>>)),
                 IterV(TFloat, ArrV(TFloat, <<FloatH(3), FloatH(5)>>)), IterV(TFloat, ArrV(TFloat, <<FInf, FNInf>>)),
                 IterV(TFloat, ArrV(TFloat, <<FNan, FloatH(2)>>)), IterV(TFloat, ArrV(TFloat, <<FInf, FloatH(0)>>)),
                 \* a zero BEFORE a NaN / an infinity / a negative element: zero is not absorbing in IEEE arithmetic
                 IterV(TFloat, ArrV(TFloat, <<FloatH(0), FNan>>)), IterV(TFloat, ArrV(TFloat, <<FloatH(0), FInf>>)),
                 IterV(TFloat, ArrV(TFloat, <<FloatH(0), FloatH(-6)>>)), IterV(TFloat, ArrV(TFloat, <<FloatH(4), FloatH(0), FloatH(-2), FloatH(3)>>))>>
StrItersB == <<IterV(TNever, ArrV(TNever, <<>>)), IterV(TString, ArrV(TString, <<S(<<97>>)>>)),
               IterV(TString, ArrV(TString, <<S(<<97>>), S(<<233, 128512>>), S(<<>>)>>))>>
\* fs / io arguments of the table suite: relative to the scratch directory the harness works in;
\* never absolute, never `..' (the state machine Fs.tla covers the real file-system behaviour)
FsPathsB == <<S(<<>>), S(<<97, 0, 98>>), S(<<110, 111, 47, 115, 117, 99, 104, 47, 101>>), S(<<233, 128512>>),
              S([i \in 1..300 |-> 97])>>

P1(name, L1) == [i \in 1..Len(L1) |-> [name |-> name, args |-> <<L1[i]>>]]
P2(name, L1, L2) == [i \in 1..(Len(L1) * Len(L2)) |->
                       [name |-> name, args |-> <<L1[((i - 1) \div Len(L2)) + 1], L2[((i - 1) % Len(L2)) + 1]>>]]
P3(name, L1, L2, L3) == [i \in 1..(Len(L1) * Len(L2) * Len(L3)) |->
                       [name |-> name, args |-> <<L1[((i - 1) \div (Len(L2) * Len(L3))) + 1],
                                                  L2[(((i - 1) \div Len(L3)) % Len(L2)) + 1], L3[((i - 1) % Len(L3)) + 1]>>]]
P0(name) == <<[name |-> name, args |-> <<>>]>>
ConcatAll(ss) == FlattenSeq(ss)
Each(names, prefix, L) == ConcatAll([i \in 1..Len(names) |-> P1(prefix \o names[i], L)])

Cases ==
  ConcatAll(<<
    P1("std.len", StrsB \o ArraysB \o BytesB),
    P1("std.convert.to_float", IntsB \o FloatsB), P1("std.convert.to_int", IntsB \o FloatsB),
    P1("std.convert.parse_int", ParseIntB \o StrsB), P1("std.convert.parse_float", ParseFloatB \o ParseIntB),
    P1("std.convert.to_string", AnyB \o StrsB),
    P1("std.fs.file_read_to_string", FsPathsB), P2("std.fs.write_to_file", FsPathsB, <<S(<<>>), S(<<120, 233>>)>>),
    P2("std.fs.copy_file", SubSeq(FsPathsB, 1, 4), SubSeq(FsPathsB, 1, 4)),
    P2("std.fs.rename", SubSeq(FsPathsB, 1, 4), SubSeq(FsPathsB, 1, 4)),
    Each(FsFns1, "std.fs.", FsPathsB),
    P1("std.io.print", AnyB), P2("std.io.print_array", ArraysB, SepsB), P0("std.io.cgetline"),
    P2("std.string.split", SubjB, PatB), P3("std.string.replace", ReplSubjB, ReplFromB, ReplToB),
    P2("std.string.contains", SubjB, PatB), P2("std.string.starts_with", SubjB, PatB),
    P2("std.string.ends_with", SubjB, PatB),
    P1("std.string.chars", StrsB), P1("std.string.bytes", StrsB),
    P1("std.string.str_from_utf8", BytesB), P1("std.string.str_from_utf8_lossy", BytesB),
    P1("std.string.to_lowercase", StrsB), P1("std.string.to_uppercase", StrsB),
    P1("std.string.trim", StrsB), P1("std.string.trim_start", StrsB), P1("std.string.trim_end", StrsB),
    P0("std.math.MIN_INT"), P0("std.math.MAX_INT"), P0("std.math.E"), P0("std.math.PI"),
    Each(IntFns1, "std.math.", IntsB),
    P2("std.math.ilog", IntsB, BasesB), P1("std.math.ilog2", IntsB), P1("std.math.ilog10", IntsB),
    P2("std.math.log", FloatsCore, FloatsCore), P2("std.math.atan2", FloatsCore, FloatsCore),
    P1("std.math.to_bits", FloatsB), P1("std.math.from_bits", IntsB \o [i \in 1..Len(FloatsB) |-> IntL(FloatsB[i].bl)]),
    Each(FloatFns1, "std.math.", FloatsB), Each(FloatPreds, "std.math.", FloatsB),
    P1("std.operators.bitand_reduce", IntItersB), P1("std.operators.bitor_reduce", IntItersB),
    P1("std.operators.int_product", IntItersB), P1("std.operators.int_sum", IntItersB),
    P1("std.operators.all", BoolItersB), P1("std.operators.any", BoolItersB),
    P1("std.operators.float_product", FloatItersB), P1("std.operators.float_sum", FloatItersB),
    P1("std.operators.string_sum", StrItersB)>>)
NCases == Len(Cases)

\* every export has at least one case; constants are `called' with no arguments
CasesCoverTable == LET cases == Cases IN {cases[i].name : i \in 1..Len(cases)} = ExportNames

CaseLaws(c) ==
  LET e == Export(c.name)
      p == Pred(c.name, c.args)
  IN /\ ArgsAdmitted(c.name, c.args)
     /\ \A i \in 1..Len(c.args) : WellFormed(c.args[i])
     /\ (p.k = "exact" => Member(p.v, e.r) /\ WellFormed(p.v))
     \* the judgement accepts the specification's own prediction
     /\ (p.k = "exact" => Judge(c.name, c.args, [k |-> "value", v |-> p.v]).ok)

\* cgetline scenarios: stdin bytes, number of calls, expected results
StdinB == <<<<>>, <<97, 98, 99, 10>>,
            <<104, 195, 169, 108, 108, 111, 10, 115, 101, 99, 111, 110, 100, 10, 10, 108, 97, 115, 116>>,
            <<97, 13, 10, 98, 10>>, <<255, 10, 97, 10>>, <<120>>, <<97, 0, 98, 10, 240, 159, 152, 128>>,
            <<10, 10>>, <<195, 10, 169, 10>>>>
StdinCases == [i \in 1..Len(StdinB) |-> [id |-> i, stdin |-> StdinB[i], n |-> 5,
                 expect |-> LET rs == ReadLines(StdinB[i], 5) IN
                            [j \in 1..5 |-> IF rs[j].k = "exact" THEN [k |-> "exact", v |-> WireOfVal(rs[j].v)] ELSE rs[j]]]]

(***************************************************************************)
(* State machine and invariants.                                            *)
(***************************************************************************)
\* cases mode: a row is a GROUP of cases (i with i % Groups = row % Groups): `Cases' mentions recursive
\* operators, TLC re-evaluates such a definition at every use, so it is bound once per state
Groups == 48
N == IF Mode = "laws" THEN NLaws ELSE Groups

InvLaws == (Mode = "laws" /\ row > 0) =>
              CASE KindOf(row) = "int" -> IntLaws(CurInt(row))
                [] KindOf(row) = "str" -> StrLaws(CurStr(row))
                [] OTHER -> ByteLaws(CurBytes(row))
InvStart == (Mode = "laws" /\ row = 0) => StartLaws
InvCases == (Mode = "cases" /\ row > 0) =>
              LET cases == Cases IN
              \A i \in {j \in 1..Len(cases) : j % Groups = row % Groups} : CaseLaws(cases[i])
InvTable == (Mode = "cases" /\ row = 0) => TableWellFormed /\ CasesCoverTable /\ NCases > Groups

\* quick tier: every 16th int plus the ints with an extreme byte, every 4th two-byte sequence;
\* thorough: all 65 536 ints and all byte sequences
Sampled(i) == \/ Mode # "laws" \/ Thorough
              \/ /\ i <= NI
                 /\ \/ (i - 1) % 16 = 0 \/ ((i - 1) \div 256) \in {0, 127, 128, 255} \/ ((i - 1) % 256) \in {0, 255}
              \/ KindOf(i) = "str" \/ KindOf(i) = "bytes2"
              \/ KindOf(i) = "bytes1" /\ (i - NI - NS <= 257 \/ i % 4 = 0)

Init == row = 0
Next == \/ row = 0 /\ row' \in {-c : c \in 1..Chunks}
        \/ row < 0 /\ row' \in {i \in 1..N : i % Chunks = (-row) % Chunks /\ Sampled(i)}
Spec == Init /\ [][Next]_row

(***************************************************************************)
(* Emission (cases mode).                                                   *)
(***************************************************************************)
Out == IOEnv.VERIF_OUT
WirePred(p) == IF p.k = "exact" THEN [k |-> "exact", v |-> WireOfVal(p.v)] ELSE p

Emit ==
  LET cases == Cases IN          \* bound once (TLC re-evaluates recursive constant definitions per use)
  /\ TLCGet("stats").distinct > 0
  /\ IF Mode = "laws" THEN PrintT(<<"LAWS", NI, NS, NB1, NB2>>)
     ELSE
     /\ ndJsonSerialize(Out \o "/stdlib_cases.ndjson",
          [i \in 1..Len(cases) |->
             LET c == cases[i] IN
             [id |-> i, name |-> c.name, args |-> [j \in 1..Len(c.args) |-> WireOfVal(c.args[j])],
              pred |-> WirePred(Pred(c.name, c.args)), r |-> WireOfType(Export(c.name).r)]])
     /\ ndJsonSerialize(Out \o "/stdlib_table.ndjson",
          [i \in 1..Len(Exports) |->
             LET e == Exports[i] IN
             [name |-> e.name, kind |-> e.kind, ps |-> [j \in 1..Len(e.ps) |-> WireOfType(e.ps[j])],
              r |-> WireOfType(e.r), t |-> WireOfType(IF e.kind = "fn" THEN Fn(e.ps, e.r) ELSE e.r)]])
     /\ ndJsonSerialize(Out \o "/stdlib_stdin.ndjson", StdinCases)
     /\ ndJsonSerialize(Out \o "/stdlib_docreadings.ndjson", DocReadings)
     /\ PrintT(<<"CASES", Len(cases), Len(Exports)>>)
=============================================================================
