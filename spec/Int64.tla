------------------------------- MODULE Int64 -------------------------------
(***************************************************************************)
(* SimpleSL's scalar operators (property C08).                              *)
(*                                                                           *)
(* TLC's integers are 32 bit wide, so an `int' of SimpleSL is modelled as a  *)
(* little-endian tuple of N limbs of B bits each, in two's complement        *)
(* (limb 1 is the least significant one).  N and B are constants: the SAME   *)
(* module is checked with N=2,B=2 (and other small widths), where every     *)
(* operator is compared with its mathematical definition on TLC's native     *)
(* integers for ALL operand pairs (MC_Int64Small), and instantiated with     *)
(* N=8,B=8 (64 bits), where it predicts what the implementation must answer  *)
(* (MC_Int64Grid, Trace_Arith).                                              *)
(*                                                                           *)
(* Results are tagged records                                                *)
(*    [k |-> "int", l |-> limbs]   [k |-> "bool", v |-> b]                   *)
(*    [k |-> "float", l |-> limbs of the IEEE-754 bit pattern]               *)
(*    [k |-> "err", e |-> "ZeroDivision" | "ZeroModulo" | "NegativeExponent" *)
(*                        | "OverflowShift"]                                 *)
(***************************************************************************)
EXTENDS Integers, Sequences, TLC

CONSTANTS N, B

ASSUME WidthOK == /\ N \in Nat /\ N >= 1 /\ B \in Nat /\ B >= 1
                  \* the column sums of Mul must stay below 2^31
                  /\ B <= 12 /\ N * ((2^B) * (2^B)) < 2^30

Base == 2^B                      \* one limb holds 0 .. Base-1
NB   == N * B                    \* width in bits
Half == Base \div 2              \* weight of the sign bit inside the top limb

Limb == 0..(Base - 1)
IsWord(a) == DOMAIN a = 1..N /\ \A i \in 1..N : a[i] \in Limb

Zero     == [i \in 1..N |-> 0]
One      == [i \in 1..N |-> IF i = 1 THEN 1 ELSE 0]
MinusOne == [i \in 1..N |-> Base - 1]
MinV     == [i \in 1..N |-> IF i = N THEN Half ELSE 0]              \* MIN_INT
MaxV     == [i \in 1..N |-> IF i = N THEN Half - 1 ELSE Base - 1]   \* MAX_INT

\* a small non-negative native integer as a word (reduced modulo 2^NB)
RECURSIVE FromNatR(_, _)
FromNatR(n, i) == IF i > N THEN <<>> ELSE <<n % Base>> \o FromNatR(n \div Base, i + 1)
FromNat(n) == FromNatR(n, 1)

(***************************************************************************)
(* Bits.  BitOf(a, j) is bit j (0 = least significant) of the word a.        *)
(***************************************************************************)
BitOf(a, j) == (a[(j \div B) + 1] \div (2^(j % B))) % 2

RECURSIVE LimbOfBits(_, _, _)
LimbOfBits(f, i, k) == IF k = B THEN 0 ELSE f[(i - 1) * B + k] * (2^k) + LimbOfBits(f, i, k + 1)
\* f : [0..NB-1 -> {0, 1}]
FromBits(f) == [i \in 1..N |-> LimbOfBits(f, i, 0)]

IsNeg(a) == a[N] >= Half          \* the sign bit

(***************************************************************************)
(* + - unary minus * : arithmetic modulo 2^NB ("wraps around")              *)
(***************************************************************************)
RECURSIVE AddC(_, _, _, _)       \* ripple carry from limb i on with carry c
AddC(a, b, i, c) ==
  IF i > N THEN <<>>
  ELSE LET s == a[i] + b[i] + c IN <<s % Base>> \o AddC(a, b, i + 1, s \div Base)

Not(a)    == [i \in 1..N |-> Base - 1 - a[i]]          \* ! on int: all bits negated
Add(a, b) == AddC(a, b, 1, 0)
Sub(a, b) == AddC(a, Not(b), 1, 1)                     \* a + ~b + 1
Neg(a)    == AddC(Zero, Not(a), 1, 1)                  \* -MIN_INT = MIN_INT falls out

RECURSIVE ColSum(_, _, _, _)     \* sum of a[i] * b[k+1-i] for i = i..k  (column k of the schoolbook scheme)
ColSum(a, b, k, i) == IF i > k THEN 0 ELSE a[i] * b[k + 1 - i] + ColSum(a, b, k, i + 1)
RECURSIVE MulC(_, _, _, _)
MulC(a, b, k, c) ==
  IF k > N THEN <<>>
  ELSE LET s == ColSum(a, b, k, 1) + c IN <<s % Base>> \o MulC(a, b, k + 1, s \div Base)
Mul(a, b) == MulC(a, b, 1, 0)

(***************************************************************************)
(* & | ^ : bit by bit                                                        *)
(***************************************************************************)
And(a, b) == FromBits([j \in 0..(NB - 1) |-> BitOf(a, j) * BitOf(b, j)])
Or(a, b)  == FromBits([j \in 0..(NB - 1) |-> BitOf(a, j) + BitOf(b, j) - BitOf(a, j) * BitOf(b, j)])
Xor(a, b) == FromBits([j \in 0..(NB - 1) |-> (BitOf(a, j) + BitOf(b, j)) % 2])

(***************************************************************************)
(* comparisons are signed                                                    *)
(***************************************************************************)
RECURSIVE ULtFrom(_, _, _)       \* unsigned comparison, from the top limb down
ULtFrom(a, b, i) == IF i = 0 THEN FALSE
                    ELSE IF a[i] # b[i] THEN a[i] < b[i] ELSE ULtFrom(a, b, i - 1)
ULt(a, b) == ULtFrom(a, b, N)

Lt(a, b) == IF IsNeg(a) # IsNeg(b) THEN IsNeg(a) ELSE ULt(a, b)
Le(a, b) == a = b \/ Lt(a, b)
Gt(a, b) == Lt(b, a)
Ge(a, b) == Le(b, a)
Eq(a, b) == a = b
Ne(a, b) == a # b

(***************************************************************************)
(* << and >> (arithmetic).  The admissible amounts are exactly 0 .. NB-1.   *)
(***************************************************************************)
ShlBy(a, s) == FromBits([j \in 0..(NB - 1) |-> IF j >= s THEN BitOf(a, j - s) ELSE 0])
ShrBy(a, s) == FromBits([j \in 0..(NB - 1) |-> IF j + s < NB THEN BitOf(a, j + s) ELSE BitOf(a, NB - 1)])

ShiftOk(b) == ~IsNeg(b) /\ Lt(b, FromNat(NB))
\* the native value of a word that is known to be small and non-negative (Horner from the top:
\* the upper limbs are 0, so nothing overflows)
RECURSIVE ValFrom(_, _, _)
ValFrom(b, i, acc) == IF i = 0 THEN acc ELSE ValFrom(b, i - 1, acc * Base + b[i])
SmallVal(b) == ValFrom(b, N, 0)

(***************************************************************************)
(* / and % : truncating division; the remainder has the sign of the         *)
(* dividend.  Computed by shift-subtract long division on magnitudes.  The   *)
(* magnitude of MIN_INT, 2^(NB-1), is representable as an UNSIGNED word, so  *)
(* MIN_INT / -1 = MIN_INT and MIN_INT % -1 = 0 fall out of the wrap-around.  *)
(***************************************************************************)
Mag(a) == IF IsNeg(a) THEN Neg(a) ELSE a       \* |a| as an unsigned word

RECURSIVE UDivR(_, _, _, _, _)   \* bits j, j-1, .. 0 of u still to be brought down
UDivR(u, v, j, q, r) ==
  IF j < 0 THEN [q |-> q, r |-> r]
  ELSE LET r2 == AddC(r, r, 1, BitOf(u, j))       \* r < v <= 2^(NB-1), so 2r+1 fits
           ge == ~ULt(r2, v)
       IN UDivR(u, v, j - 1, AddC(q, q, 1, IF ge THEN 1 ELSE 0), IF ge THEN Sub(r2, v) ELSE r2)
UDivMod(u, v) == UDivR(u, v, NB - 1, Zero, Zero)  \* v # Zero

Div(a, b) == LET d == UDivMod(Mag(a), Mag(b)) IN IF IsNeg(a) # IsNeg(b) THEN Neg(d.q) ELSE d.q
Mod(a, b) == LET d == UDivMod(Mag(a), Mag(b)) IN IF IsNeg(a) THEN Neg(d.r) ELSE d.r

\* full (2N-limb, unsigned) product and sum, to state "no wrap-around" in the relation below
RECURSIVE ColSumW(_, _, _, _)
ColSumW(a, b, k, i) == IF i > N \/ i > k THEN 0
                       ELSE (IF k + 1 - i <= N THEN a[i] * b[k + 1 - i] ELSE 0) + ColSumW(a, b, k, i + 1)
RECURSIVE MulWC(_, _, _, _)
MulWC(a, b, k, c) ==
  IF k > 2 * N THEN <<>>
  ELSE LET s == ColSumW(a, b, k, 1) + c IN <<s % Base>> \o MulWC(a, b, k + 1, s \div Base)
MulWide(a, b) == MulWC(a, b, 1, 0)
RECURSIVE AddWC(_, _, _, _)
AddWC(a, b, i, c) ==
  IF i > 2 * N THEN <<>>
  ELSE LET s == a[i] + b[i] + c IN <<s % Base>> \o AddWC(a, b, i + 1, s \div Base)
Widen(a) == [i \in 1..(2 * N) |-> IF i <= N THEN a[i] ELSE 0]

\* the RELATION that defines quotient and remainder (checked as a law, and shown to have
\* exactly one solution in the small configurations)
DivModOk(a, b, q, r) ==
  /\ b # Zero
  /\ Add(Mul(q, b), r) = a                          \* a = q*b + r in machine arithmetic ...
  /\ AddWC(MulWide(Mag(q), Mag(b)), Widen(Mag(r)), 1, 0) = Widen(Mag(a))
                                                    \* ... and |a| = |q|*|b| + |r| exactly
  /\ ULt(Mag(r), Mag(b))                            \* |r| < |b|
  /\ r = Zero \/ IsNeg(r) = IsNeg(a)                \* sign of the remainder = sign of the dividend
  /\ ~ULt(Mag(a), Mag(q))                           \* |q| <= |a|
  /\ \/ q = Zero
     \/ IsNeg(q) = (IsNeg(a) # IsNeg(b))            \* truncation toward zero
     \/ a = MinV /\ b = MinusOne /\ q = MinV        \* the one overflowing quotient wraps

(***************************************************************************)
(* ** : square-and-multiply over ALL NB bits of a non-negative exponent     *)
(* (so exponents above 2^32 are not truncated).                              *)
(***************************************************************************)
RECURSIVE PowR(_, _, _, _)
PowR(x, e, j, acc) ==
  IF j = NB THEN acc
  ELSE PowR(IF j = NB - 1 THEN x ELSE Mul(x, x), e, j + 1, IF BitOf(e, j) = 1 THEN Mul(acc, x) ELSE acc)
Pow(a, e) == PowR(a, e, 0, One)                     \* e non-negative

(***************************************************************************)
(* The operator tables.                                                      *)
(***************************************************************************)
IntV(l)  == [k |-> "int", l |-> l]
BoolV(b) == [k |-> "bool", v |-> b]
FloatV(l) == [k |-> "float", l |-> l]
ErrV(e)  == [k |-> "err", e |-> e]
IsErr(r) == r.k = "err"

ArithOps  == {"+", "-", "*", "/", "%", "**", "<<", ">>", "&", "|", "^"}   \* these have `op=' forms
CmpOps    == {"==", "!=", "<", "<=", ">", ">="}
IntBinOps == ArithOps \cup CmpOps
IntUnOps  == {"neg", "not"}
ErrorKinds == {"ZeroDivision", "ZeroModulo", "NegativeExponent", "OverflowShift"}

ApplyInt(op, a, b) ==
  CASE op = "+"  -> IntV(Add(a, b))
    [] op = "-"  -> IntV(Sub(a, b))
    [] op = "*"  -> IntV(Mul(a, b))
    [] op = "/"  -> IF b = Zero THEN ErrV("ZeroDivision") ELSE IntV(Div(a, b))
    [] op = "%"  -> IF b = Zero THEN ErrV("ZeroModulo") ELSE IntV(Mod(a, b))
    [] op = "**" -> IF IsNeg(b) THEN ErrV("NegativeExponent") ELSE IntV(Pow(a, b))
    [] op = "<<" -> IF ShiftOk(b) THEN IntV(ShlBy(a, SmallVal(b))) ELSE ErrV("OverflowShift")
    [] op = ">>" -> IF ShiftOk(b) THEN IntV(ShrBy(a, SmallVal(b))) ELSE ErrV("OverflowShift")
    [] op = "&"  -> IntV(And(a, b))
    [] op = "|"  -> IntV(Or(a, b))
    [] op = "^"  -> IntV(Xor(a, b))
    [] op = "==" -> BoolV(Eq(a, b))
    [] op = "!=" -> BoolV(Ne(a, b))
    [] op = "<"  -> BoolV(Lt(a, b))
    [] op = "<=" -> BoolV(Le(a, b))
    [] op = ">"  -> BoolV(Gt(a, b))
    [] op = ">=" -> BoolV(Ge(a, b))

ApplyIntUn(op, a) ==
  CASE op = "neg" -> IntV(Neg(a))
    [] op = "not" -> IntV(Not(a))

\* the documented error arises in exactly these situations, and in no other
ErrorOf(op, a, b) ==
  CASE op = "/" /\ b = Zero -> "ZeroDivision"
    [] op = "%" /\ b = Zero -> "ZeroModulo"
    [] op = "**" /\ IsNeg(b) -> "NegativeExponent"
    [] op \in {"<<", ">>"} /\ (IsNeg(b) \/ ~Lt(b, FromNat(NB))) -> "OverflowShift"
    [] OTHER -> "none"

\* `c := mut a; c op= b': the value of the assignment expression and the content of the cell
\* afterwards; an error leaves the cell as it was
AssignInt(op, a, b) ==
  LET r == ApplyInt(op, a, b) IN [r |-> r, cell |-> IF IsErr(r) THEN IntV(a) ELSE r]

(***************************************************************************)
(* bool: & | ^ ! (and == !=) are the logical operations                      *)
(***************************************************************************)
BoolBinOps == {"&", "|", "^", "==", "!="}
BoolAssignOps == {"&", "|", "^"}
ApplyBool(op, x, y) ==
  CASE op = "&"  -> BoolV(x /\ y)
    [] op = "|"  -> BoolV(x \/ y)
    [] op = "^"  -> BoolV(x # y)
    [] op = "==" -> BoolV(x <=> y)
    [] op = "!=" -> BoolV(~(x <=> y))
ApplyBoolUn(op, x) == CASE op = "not" -> BoolV(~x)

(***************************************************************************)
(* float.  TLA+ cannot express IEEE-754 arithmetic; the result of            *)
(* + - * / ** is compared with the host's f64 by the harness.  What CAN be   *)
(* said on the 64-bit pattern (sign bit 63, exponent bits 52..62, mantissa   *)
(* bits 0..51; only meaningful when NB = 64) is said here:                   *)
(*  - NaN = exponent all ones and mantissa non-zero;                         *)
(*  - on non-NaN values the order is the order of sign-and-magnitude         *)
(*    integers, with -0.0 = 0.0;                                             *)
(*  - every comparison with a NaN is false, except != which is true;         *)
(*  - unary minus flips the sign bit and nothing else;                       *)
(*  - every operator is a FUNCTION of the operand patterns (Trace_Arith).    *)
(***************************************************************************)
FManBits == 52
\* the pattern of +infinity: exponent bits all ones, mantissa zero
FInfPattern == FromBits([j \in 0..(NB - 1) |-> IF j >= FManBits /\ j <= NB - 2 THEN 1 ELSE 0])
FMag(x)        == [x EXCEPT ![N] = @ % Half]                 \* sign bit cleared
FKey(x)        == IF IsNeg(x) THEN Neg(FMag(x)) ELSE FMag(x) \* -0.0 and 0.0 both give Zero
FNeg(x)        == [x EXCEPT ![N] = (@ + Half) % Base]
FIsNaN(x)      == ULt(FInfPattern, FMag(x))     \* exponent all ones and mantissa non-zero
FIsInf(x)      == FMag(x) = FInfPattern

FEq(x, y) == ~FIsNaN(x) /\ ~FIsNaN(y) /\ FKey(x) = FKey(y)
FLt(x, y) == ~FIsNaN(x) /\ ~FIsNaN(y) /\ Lt(FKey(x), FKey(y))

FloatArithOps == {"+", "-", "*", "/", "**"}
FloatCmpOps   == CmpOps
ApplyFloatCmp(op, x, y) ==
  CASE op = "==" -> BoolV(FEq(x, y))
    [] op = "!=" -> BoolV(~FEq(x, y))
    [] op = "<"  -> BoolV(FLt(x, y))
    [] op = "<=" -> BoolV(FLt(x, y) \/ FEq(x, y))
    [] op = ">"  -> BoolV(FLt(y, x))
    [] op = ">=" -> BoolV(FLt(y, x) \/ FEq(x, y))
ApplyFloatUn(op, x) == CASE op = "neg" -> FloatV(FNeg(x))

=============================================================================
