SPECIFICATION Spec
CONSTANTS
  N = 5
  B = 1
  Chunks = 8
INVARIANTS
  InvConst
  InvBool
  InvUnary
  InvBinary
  InvDiv
  InvShift
  InvPow
  InvTable
POSTCONDITION Done
CHECK_DEADLOCK FALSE
