SPECIFICATION Spec
CONSTANTS
  Chunks = 8
INVARIANTS
  ScopeDiscipline
POSTCONDITION Emit
CHECK_DEADLOCK FALSE
