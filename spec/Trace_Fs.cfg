SPECIFICATION Spec
INVARIANT InvWellFormed
POSTCONDITION Accepted
CHECK_DEADLOCK FALSE
