SPECIFICATION Spec
CONSTANTS
  Chunks = 32
INVARIANTS
  Lockstep
  NoPanic
  RelationA
  NoSpecOnly
  NoImplOnly
  Tally
  Wider
POSTCONDITION Consumed
CHECK_DEADLOCK FALSE
