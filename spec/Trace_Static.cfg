SPECIFICATION Spec
CONSTANTS
  Chunks = 32
INVARIANTS
  Tally
  Wider
  Lockstep
  NoPanic
  RelationA
  NoSpecOnly
  NoImplOnly
POSTCONDITION Consumed
CHECK_DEADLOCK FALSE
