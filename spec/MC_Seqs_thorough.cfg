SPECIFICATION Spec
CONSTANTS
  MaxLen = 6
  Chunks = 16
INVARIANTS
  InvAt
  InvSlice
  InvWhole
POSTCONDITION Emit
CHECK_DEADLOCK FALSE
