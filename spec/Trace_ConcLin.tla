--------------------------- MODULE Trace_ConcLin ---------------------------
(***************************************************************************)
(* Hook-independent validation of recorded histories: only what the callers *)
(* saw (operation, returned value, the interval [s, e] of global sequence   *)
(* numbers around the call) and the final contents are used, nothing that   *)
(* the observation hooks inside the library report.                          *)
(*                                                                           *)
(* Search: a history is accepted iff it has a linearization -- an order of  *)
(* all calls that respects real time (a call that ended before another      *)
(* began comes first) in which every call returns what Conc's atomic        *)
(* operation returns on the content left by the calls before it, and which  *)
(* ends in the final contents.  TLC explores the orders; a state is (set of *)
(* linearized calls, contents).                                             *)
(* Aggregate laws for histories of any size: N increments return a          *)
(* permutation of init+1..init+N, in increasing order within each thread,   *)
(* and leave init+N (IncrementsPermutation); additions and subtractions     *)
(* leave init + the sum of the operands (NoLostUpdate).                     *)
(***************************************************************************)
EXTENDS Conc, Json, IOUtils, SequencesExt, FiniteSetsExt

VARIABLES h, done

Rec == ndJsonDeserialize(IOEnv.VERIF_IN)
H == Len(Rec)
Only == IF "VERIF_ONLY" \in DOMAIN IOEnv THEN {atoi(IOEnv.VERIF_ONLY)} ELSE 1..H

LnThreads == 1..16
LnCells == {"c", "d"}
LnCellType == [x \in LnCells |-> "int"]
LnEmpty == {}

lvars == <<vars, h, done>>
Unused == UNCHANGED <<prog, init, pc, ph, holdW, waitW, readers, res, tmp, rnd, hist>>

Calls == Rec[h].calls
N == Len(Calls)

LinInit ==
  /\ h \in Only
  /\ done = {}
  /\ init = Rec[h].init
  /\ val = init
  /\ prog = <<>> /\ pc = <<>> /\ ph = <<>> /\ holdW = <<>> /\ waitW = <<>> /\ readers = <<>>
  /\ res = <<>> /\ tmp = <<>> /\ rnd = <<>> /\ hist = <<>>

\* Conc's atomic step for one call on the current contents
Atomic(o) ==
  LET p == <<<<o>>>>
      cf == [val |-> val, pc |-> <<1>>, rs |-> <<NoRenderState>>, res |-> <<<<>>>>]
  IN AStep(p, cf, 1)

\* call i may be linearized next: nothing still open ended before it began
Minimal(i) == \A j \in (1..N) \ done : j # i => Calls[j].e > Calls[i].s

Lin(i) ==
  /\ h > 0 /\ Rec[h].search
  /\ i \notin done /\ Minimal(i)
  /\ LET a == Atomic(Calls[i].op) IN
       /\ a.res[1][1] = Calls[i].ret
       /\ val' = a.val
  /\ done' = done \cup {i}
  /\ h' = h

\* ---- aggregate laws (no search)
RetInt(i) == Calls[i].ret.v.v
RECURSIVE SumCalls(_)
SumCalls(n) == IF n = 0 THEN 0
               ELSE SumCalls(n - 1) + (IF Calls[n].op.op = "+" THEN Calls[n].op.rhs.v ELSE -Calls[n].op.rhs.v)

IncLaw ==
  LET i0 == init["c"].v IN
  /\ \A i \in 1..N : Calls[i].op = Asg("c", "+", I(1)) /\ Calls[i].ret.k = "val" /\ Calls[i].ret.v.k = "int"
  /\ {RetInt(i) : i \in 1..N} = (i0 + 1)..(i0 + N)                         \* a permutation: N calls, N distinct values
  /\ Rec[h].final["c"] = I(i0 + N)
  /\ \A i, j \in 1..N : (Calls[i].t = Calls[j].t /\ Calls[i].e < Calls[j].s) => RetInt(i) < RetInt(j)

AddLaw ==
  /\ \A i \in 1..N : Calls[i].op.k = "asg" /\ Calls[i].op.c = "c" /\ Calls[i].op.op \in {"+", "-"}
  /\ Rec[h].final["c"] = I(init["c"].v + SumCalls(N))

LawOfKind == CASE Rec[h].kind = "inc" -> IncLaw
               [] Rec[h].kind = "additive" -> AddLaw
               [] OTHER -> TRUE

\* small histories are searched AND must satisfy the aggregate law of their kind
LinFinish ==
  /\ h > 0 /\ Rec[h].search
  /\ done = 1..N
  /\ \A c \in Cells : val[c] = Rec[h].final[c]
  /\ LawOfKind = TRUE     \* (compared with TRUE so that TLC evaluates the law as an expression:
                         \*  as part of the action its quantifiers would be unfolded recursively)
  /\ PrintT(<<"LIN_OK", h>>)
  /\ h' = 0 /\ UNCHANGED <<done, val>>

Aggregate ==
  /\ h > 0 /\ ~Rec[h].search
  /\ LawOfKind = TRUE     \* (compared with TRUE so that TLC evaluates the law as an expression:
                         \*  as part of the action its quantifiers would be unfolded recursively)
  /\ PrintT(<<"LIN_OK", h>>)
  /\ h' = 0 /\ UNCHANGED <<done, val>>


Finished0 == h = 0 /\ UNCHANGED lvars

LinNext ==
  \/ h > 0 /\ (\E i \in 1..N : Lin(i)) /\ Unused
  \/ LinFinish /\ Unused
  \/ Aggregate /\ Unused
  \/ Finished0

LinSpec == LinInit /\ [][LinNext]_lvars

LinAccepted == PrintT(<<"LIN", TLCGet("stats").distinct, H>>)
=============================================================================
