SPECIFICATION Spec
CONSTANTS
  Chunks = 64
INVARIANTS
  Tally
  Wider
  Lockstep
  NoPanic
  RelationA
  NoSpecOnly
  NoImplOnly
POSTCONDITION Consumed
CHECK_DEADLOCK FALSE
