SPECIFICATION Spec
CONSTANTS
  Chunks = 16
  Thorough = TRUE
INVARIANTS
  InvEq
  InvProducers
POSTCONDITION Emit
CHECK_DEADLOCK FALSE
