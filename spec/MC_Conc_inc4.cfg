SPECIFICATION Spec
CONSTANTS
  Config = "inc"
  T = 4
  K = 2
  Thorough = TRUE
  RenderDepth = 6
  NestedRead = FALSE
  WriterPreferring = TRUE
  SplitGuards = FALSE
  Threads <- MCThreads
  Cells <- MCCells
  CellType <- MCCellType
  ProgSpace <- MCProgSpace
  InitSpace <- MCInitSpace
INVARIANTS
  TypeOK
  MutualExclusion
  Linearizable
  ReturnsOwnUpdate
  NoLostUpdate
  IncrementsPermutation
  OutcomeIsSerial
  IndependentRunsEqualSequential
  FailureLeavesContent
  QuiescentAtEnd
  NoOod
PROPERTIES
  LinearizableStep
  WritesOnlyUnderLock
POSTCONDITION NoEmit
CHECK_DEADLOCK TRUE
VIEW View
