SPECIFICATION Spec
CONSTANTS
  Thorough = FALSE
  SamplePermille = 40
INVARIANTS
  InvDomain
  InvTokensOnce
  InvUnique
  InvConserve
  InvAgree
  InvProgress
  InvLex
  InvTable
POSTCONDITION Emit
CHECK_DEADLOCK FALSE
