SPECIFICATION Spec
CONSTANTS
  Chunks = 8
  Full = FALSE
INVARIANTS
  NoStuck
  AliasesAgree
  CellTyped
  AssignYieldsStored
  FailureLeavesContent
POSTCONDITION Emit
CHECK_DEADLOCK FALSE
