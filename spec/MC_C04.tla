------------------------------ MODULE MC_C04 ------------------------------
(***************************************************************************)
(* C04 — constant folding and propagation are unobservable.                *)
(* Every position a constant can occupy: for each construct with k operand  *)
(* positions, each of the 2^k choices "literal (visible to the optimiser)   *)
(* / hidden (passed through an identity function)", operands from boundary  *)
(* sets including the failing ones, at top level, inside a called function, *)
(* inside a function that is never called, after an effect, and through     *)
(* names bound to the constants (propagation).                              *)
(*                                                                           *)
(* In the specification `hide' is the identity, so all 2^k twins have ONE   *)
(* meaning: FoldUnobservable is true of the specification by construction,  *)
(* and TLC checks the side conditions (TwinsAgree, NoStuck).  The permitted *)
(* difference is specified by AllowParse: the kinds of parse-time error a   *)
(* twin may report = the documented errors of operations whose deciding     *)
(* operands are literal in that twin and which fail whenever evaluated.     *)
(***************************************************************************)
EXTENDS LangAst, Json, IOUtils

CONSTANTS Chunks, SampleMod
VARIABLE row

\* ---------------------------------------------------------------- operand positions
TyOf(v) == CASE v.k = "int" -> WInt [] v.k = "bool" -> WBool [] v.k = "float" -> WFloat
             [] v.k = "string" -> WStr [] v.k = "array" -> WArr(WInt)
Arg(v, lit) == IF lit THEN Lit(v) ELSE Hide(TyOf(v), Lit(v))
\* hidden AND effectful: a tick call (opaque to the optimiser, logs its position number)
ArgT(v, lit, i) == IF lit THEN Lit(v) ELSE Tick(i, TyOf(v), Lit(v))
ArrLit(xs) == [k |-> "array", tag |-> TInt, es |-> [i \in 1..Len(xs) |-> IntV(xs[i])]]

\* does `a op b' fail whenever evaluated, and how
FailKind(op, a, b) ==
  CASE op \in {"/"} /\ b.k = "int" /\ b.v = 0 -> "ZeroDivision"
    [] op = "%" /\ b.v = 0 -> "ZeroModulo"
    [] op \in {"<<", ">>"} /\ (b.v < 0 \/ b.v > 63) -> "OverflowShift"
    [] op = "**" /\ b.k = "int" /\ b.v < 0 -> "NegativeExponent"
    [] OTHER -> "none"

\* ---------------------------------------------------------------- templates
\* a template instance: [name, e (expression under test), rty, allow (parse-time error kinds this twin may report)]
Inst(name, e, rty, allow) == [name |-> name, e |-> e, rty |-> rty, allow |-> allow]
Masks(k) == [1..k -> BOOLEAN]
MaskStr(m) == LET RECURSIVE Go(_) Go(i) == IF i > Len(m) THEN "" ELSE (IF m[i] THEN "L" ELSE "h") \o Go(i + 1) IN Go(1)

IntPairs == {<<12, 2>>, <<7, 0>>, <<5, -1>>, <<1, 64>>, <<1, 63>>, <<-8, 3>>, <<0, 0>>, <<-1, 1>>}
IntOps == {"+", "-", "*", "/", "%", "**", "<<", ">>", "&", "|", "^", "==", "!=", "<", "<=", ">", ">="}
IsCmp(op) == op \in {"==", "!=", "<", "<=", ">", ">="}

BinInsts ==
  {Inst("bin" \o op \o ToString(p[1]) \o "," \o ToString(p[2]) \o "-" \o MaskStr(m),
        Bin(op, ArgT(IntV(p[1]), m[1], 1), ArgT(IntV(p[2]), m[2], 2)), IF IsCmp(op) THEN WBool ELSE WInt,
        \* the deciding operand of / % << >> ** is the right one
        IF m[2] /\ FailKind(op, IntV(p[1]), IntV(p[2])) # "none" THEN {FailKind(op, IntV(p[1]), IntV(p[2]))} ELSE {})
     : op \in IntOps, p \in IntPairs, m \in Masks(2)}

FloatInsts ==
  {Inst("fbin" \o op \o "-" \o MaskStr(m), Bin(op, ArgT(FloatV(3), m[1], 1), ArgT(FloatV(-1), m[2], 2)), IF IsCmp(op) THEN WBool ELSE WFloat, {})
     : op \in {"+", "-", "<", ">=", "=="}, m \in Masks(2)}
  \cup {Inst("sbin" \o op \o "-" \o MaskStr(m), Bin(op, ArgT(StrV(<<97>>), m[1], 1), ArgT(StrV(<<98, 99>>), m[2], 2)), IF op = "+" THEN WStr ELSE WBool, {})
     : op \in {"+", "==", "!="}, m \in Masks(2)}
  \cup {Inst("abin" \o op \o "-" \o MaskStr(m), Bin(op, ArgT(ArrLit(<<1>>), m[1], 1), ArgT(ArrLit(xs), m[2], 2)), IF op = "+" THEN WArr(WInt) ELSE WBool, {})
     : op \in {"+", "=="}, xs \in {<<>>, <<1>>, <<2, 3>>}, m \in Masks(2)}

\* Chains x op c1 op c2 over floats whose rounding makes the grouping visible (1e16 + 1.0 + 1.0, 1e-200 * 1e200 * 1e200).
\* The values are outside the machine's exact float domain, so the specification does not predict the result
\* (inconclusive); the twins of one chain (same `group') must nevertheless all agree with each other, bit for bit.
FBits(b) == [k |-> "float", bits |-> b]
TyOfF == WFloat
ArgF(v, lit, i) == IF lit THEN Lit(v) ELSE Tick(i, WFloat, Lit(v))
ChainVals == [a |-> <<FBits("4846369599423283200"), FloatV(2), FloatV(2)>>,                                   \* 1e16, 1.0, 1.0
              b |-> <<FBits("1614679632300144556"), FBits("7598952565167317594"), FBits("7598952565167317594")>>]  \* 1e-200, 1e200, 1e200
ChainInsts ==
  {[name |-> "fchain" \o op \o g \o "-" \o MaskStr(m), group |-> "fchain" \o op \o g,
    e |-> Bin(op, Bin(op, ArgF(ChainVals[g][1], m[1], 1), ArgF(ChainVals[g][2], m[2], 2)), ArgF(ChainVals[g][3], m[3], 3)),
    rty |-> WFloat, allow |-> {}]
     : m \in Masks(3), op \in {"+", "*"}, g \in {"a", "b"}}

\* single float operators on operands whose exact result is not representable (5.0 / 3.0, 3.0 / 10.0, 49.0 / 49.0,
\* 0.1 + 0.2, 1.1 * 1.1, 2.0 ** 0.5): a rewriting of the operator (reciprocal multiplication, fused forms ...) shows
\* in the last bit; all literal/hidden twins of a pair form one group
FPairs == << <<FBits("4617315517961601024"), FBits("4613937818241073152")>>, <<FBits("4613937818241073152"), FBits("4621819117588971520")>>, <<FBits("4632092954238910464"), FBits("4632092954238910464")>>,
            <<FBits("4591870180066957722"), FBits("4596373779694328218")>>, <<FBits("4607632778762754458"), FBits("4607632778762754458")>>, <<FBits("4611686018427387904"), FBits("4602678819172646912")>>,
            <<FBits("9223372036854775808"), FBits("0")>>, <<FBits("0"), FBits("9223372036854775808")>>, <<FBits("9223372036854775808"), FBits("9223372036854775808")>> >>
FOpInsts ==
  {[name |-> "fop" \o op \o ToString(pi) \o "-" \o MaskStr(m), group |-> "fop" \o op \o ToString(pi),
    e |-> Bin(op, ArgF(FPairs[pi][1], m[1], 1), ArgF(FPairs[pi][2], m[2], 2)), rty |-> WFloat, allow |-> {}]
     : m \in Masks(2), op \in {"+", "-", "*", "/", "**"}, pi \in 1..Len(FPairs)}

UnaryInsts ==
  {Inst("neg" \o ToString(n) \o MaskStr(m), NegE(ArgT(IntV(n), m[1], 1)), WInt, {}) : n \in {0, 5, -3}, m \in Masks(1)}
  \cup {Inst("not" \o ToString(n) \o MaskStr(m), NotE(ArgT(IntV(n), m[1], 1)), WInt, {}) : n \in {0, 5, -1}, m \in Masks(1)}
  \cup {Inst("notb" \o ToString(b) \o MaskStr(m), NotE(ArgT(BoolV(b), m[1], 1)), WBool, {}) : b \in BOOLEAN, m \in Masks(1)}

\* short-circuit operands with an effect on the right
LogicInsts ==
  {Inst("and" \o ToString(a) \o ToString(b) \o MaskStr(m), AndE(ArgT(BoolV(a), m[1], 1), ArgT(BoolV(b), m[2], 2)), WBool, {})
     : a \in BOOLEAN, b \in BOOLEAN, m \in Masks(2)}
  \cup {Inst("or" \o ToString(a) \o ToString(b) \o MaskStr(m), OrE(ArgT(BoolV(a), m[1], 1), ArgT(BoolV(b), m[2], 2)), WBool, {})
     : a \in BOOLEAN, b \in BOOLEAN, m \in Masks(2)}
  \* an effectful / failing left operand in front of a literal right operand must still be evaluated
  \cup {Inst("and-lhs-fails" \o ToString(b) \o MaskStr(m),
             AndE(Bin("==", At(ArrE(<<I(1)>>), ArgT(IntV(3), m[1], 1)), I(0)), ArgT(BoolV(b), m[2], 2)), WBool,
             IF m[1] THEN {"IndexOutOfBounds"} ELSE {}) : b \in BOOLEAN, m \in Masks(2)}
  \cup {Inst("or-lhs-fails" \o ToString(b) \o MaskStr(m),
             OrE(Bin("==", Bin("/", I(1), ArgT(IntV(0), m[1], 1)), I(0)), ArgT(BoolV(b), m[2], 2)), WBool,
             IF m[1] THEN {"ZeroDivision"} ELSE {}) : b \in BOOLEAN, m \in Masks(2)}
  \cup {Inst("and-fail" \o ToString(a) \o MaskStr(m), AndE(ArgT(BoolV(a), m[1], 1), Bin("==", Bin("/", I(1), ArgT(IntV(0), m[2], 2)), I(1))), WBool,
             IF m[2] THEN {"ZeroDivision"} ELSE {}) : a \in BOOLEAN, m \in Masks(2)}

\* indexing: elements and index literal / hidden
IndexInsts ==
  {Inst("at" \o ToString(i) \o MaskStr(m), At(ArrE(<<ArgT(IntV(10), m[1], 1), ArgT(IntV(20), m[2], 2), I(30)>>), ArgT(IntV(i), m[3], 3)), WInt,
        IF m[3] /\ (i > 2 \/ i < -3) THEN {"IndexOutOfBounds"} ELSE {}) : i \in {0, 2, -1, -3, 3, -4}, m \in Masks(3)}
  \cup {Inst("at-var" \o ToString(i) \o MaskStr(m), At(ArgT(ArrLit(<<10, 20, 30>>), m[1], 1), ArgT(IntV(i), m[2], 2)), WInt,
        IF m[1] /\ m[2] /\ (i > 2 \/ i < -3) THEN {"IndexOutOfBounds"} ELSE {}) : i \in {1, -3, 3, -4}, m \in Masks(2)}
  \cup {Inst("at-str" \o ToString(i) \o MaskStr(m), At(ArgT(StrV(<<97, 98>>), m[1], 1), ArgT(IntV(i), m[2], 2)), WStr,
        IF m[1] /\ m[2] /\ (i > 1 \/ i < -2) THEN {"IndexOutOfBounds"} ELSE {}) : i \in {0, -2, 2}, m \in Masks(2)}
  \cup {Inst("slice" \o MaskStr(m), Slice(ArgT(ArrLit(<<10, 20, 30, 40>>), m[1], 1), ArgT(IntV(1), m[2], 2), ArgT(IntV(-1), m[3], 3), NoneV), WArr(WInt), {})
        : m \in Masks(3)}

DataInsts ==
  {Inst("arr" \o MaskStr(m), ArrE(<<ArgT(IntV(1), m[1], 1), ArgT(IntV(2), m[2], 2)>>), WArr(WInt), {}) : m \in Masks(2)}
  \cup {Inst("tup" \o MaskStr(m), TupE(<<ArgT(IntV(1), m[1], 1), ArgT(StrV(<<97>>), m[2], 2)>>), WTup(<<WInt, WStr>>), {}) : m \in Masks(2)}
  \cup {Inst("tupat" \o MaskStr(m), TupAt(TupE(<<ArgT(IntV(1), m[1], 1), ArgT(IntV(2), m[2], 2)>>), 1), WInt, {}) : m \in Masks(2)}
  \cup {Inst("struct" \o MaskStr(m), Field(StructE(<< <<"a", ArgT(IntV(1), m[1], 1)>>, <<"b", ArgT(IntV(2), m[2], 2)>> >>), "b"), WInt, {}) : m \in Masks(2)}
  \cup {Inst("rep" \o ToString(n) \o MaskStr(m), RepE(ArgT(IntV(7), m[1], 1), ArgT(IntV(n), m[2], 2)), WArr(WInt),
             IF m[2] /\ n < 0 THEN {"NegativeLength"} ELSE {}) : n \in {2, 0, -1}, m \in Masks(2)}
  \cup {Inst("nested" \o MaskStr(m), Bin("+", Bin("*", ArgT(IntV(2), m[1], 1), ArgT(IntV(3), m[2], 2)), At(ArrE(<<ArgT(IntV(4), m[3], 3), I(5)>>), ArgT(IntV(1), m[4], 4))), WInt, {})
        : m \in Masks(4)}
  \cup {Inst("nested-fail" \o MaskStr(m), Bin("+", ArgT(IntV(1), m[1], 1), Bin("/", ArgT(IntV(6), m[2], 2), Bin("-", ArgT(IntV(2), m[3], 3), ArgT(IntV(2), m[4], 4)))), WInt,
             IF m[3] /\ m[4] THEN {"ZeroDivision"} ELSE {}) : m \in Masks(4)}

\* ---------------------------------------------------------------- statement-level templates (whole programs)
ProgCase(name, prog, allow) == [name |-> name, prog |-> prog, allow |-> allow, allowx |-> {}, group |-> ""]
ProgCaseX(name, prog, allow, allowx) == [name |-> name, prog |-> prog, allow |-> allow, allowx |-> allowx, group |-> ""]
\* Named deviation of the implementation from the reference semantics (not covered by any listed property):
\* creating a closure substitutes the captured values into its body and folds it, so a body operation that
\* fails whenever it is evaluated surfaces as that documented run-time error when the closure is CREATED,
\* even if it is never called.  Such cases carry the kinds in `allow_exec'.
CtlCases ==
  {ProgCase("if" \o ToString(c) \o MaskStr(m),
            <<Set("r", If(Arg(BoolV(c), m[1]), Block(<<Mark(1), I(10)>>), Block(<<Mark(2), I(20)>>))), V("r")>>, {}) : c \in BOOLEAN, m \in Masks(1)}
  \cup {ProgCase("if-dead-fail" \o ToString(c) \o MaskStr(m),
            <<Set("r", If(Arg(BoolV(c), m[1]), Block(<<Mark(1), Bin("/", I(1), Arg(IntV(0), m[2]))>>), Block(<<Mark(2), I(20)>>))), V("r")>>,
            IF m[2] THEN {"ZeroDivision"} ELSE {}) : c \in BOOLEAN, m \in Masks(2)}
  \cup {ProgCase("while" \o ToString(c) \o MaskStr(m),
            <<Set("k", MutE(WInt, I(0))),
              While(AndE(Arg(BoolV(c), m[1]), Bin("<", Deref(V("k")), I(2))), Block(<<Mark(1), Asg("+=", V("k"), I(1))>>)), Deref(V("k"))>>, {})
          : c \in BOOLEAN, m \in Masks(1)}
  \cup {ProgCase("while-lit-false" \o MaskStr(m), <<While(Arg(BoolV(FALSE), m[1]), Block(<<Mark(1)>>)), I(5)>>, {}) : m \in Masks(1)}
  \cup {ProgCase("match" \o ToString(s) \o MaskStr(m),
            <<Set("r", Match(Arg(IntV(s), m[1]), <<ArmVal(<<Arg(IntV(5), m[2]), Tick(1, WInt, I(6))>>, Block(<<Mark(10), I(100)>>)),
                                                    ArmTy("y", WInt, Block(<<Mark(20), V("y")>>))>>)), V("r")>>, {})
          : s \in {5, 6, 7}, m \in Masks(2)}
  \cup {ProgCase("call-arg" \o MaskStr(m),
            <<FnDecl("f", <<P("a", WInt), P("b", WInt)>>, WInt, <<Mark(1), Ret(Bin("-", V("a"), V("b")))>>),
              CallE(V("f"), <<Arg(IntV(9), m[1]), Arg(IntV(4), m[2])>>)>>, {}) : m \in Masks(2)}
  \cup {ProgCase("assign" \o op \o MaskStr(m),
            <<Set("c", MutE(WInt, Arg(IntV(12), m[1]))), Set("y", Asg(op, V("c"), Arg(IntV(3), m[2]))), TupE(<<V("y"), Deref(V("c"))>>)>>, {})
          : op \in {"=", "+=", "*=", "<<=", "%="}, m \in Masks(2)}
  \cup {ProgCase("assign-fail" \o op \o MaskStr(m),
            <<Set("c", MutE(WInt, I(12))), Mark(1), Set("y", Asg(op, V("c"), Arg(IntV(0), m[1]))), Deref(V("c"))>>, {})
          : op \in {"/=", "%="}, m \in Masks(1)}
  \cup {ProgCase("propagate" \o MaskStr(m),
            <<Set("a", Arg(IntV(3), m[1])), Set("b", Bin("+", V("a"), Arg(IntV(1), m[2]))), Set("a", Bin("*", V("b"), V("a"))),
              TupE(<<V("a"), V("b")>>)>>, {}) : m \in Masks(2)}
  \cup {ProgCase("propagate-zero" \o MaskStr(m),
            <<Set("z", Arg(IntV(0), m[1])), Mark(1), Set("q", Bin("/", Arg(IntV(8), m[2]), V("z"))), V("q")>>,
            IF m[1] THEN {"ZeroDivision"} ELSE {}) : m \in Masks(2)}
  \cup {ProgCase("propagate-destruct" \o MaskStr(m),
            <<Destruct(<<"a", "b">>, TupE(<<Arg(IntV(3), m[1]), Arg(IntV(4), m[2])>>)), Bin("-", V("a"), V("b"))>>, {}) : m \in Masks(2)}
  \cup {ProgCase("capture" \o MaskStr(m),
            <<Set("k", Arg(IntV(3), m[1])), Set("f", FnE(<<P("v", WInt)>>, WInt, <<Ret(Bin("+", V("k"), V("v")))>>)),
              Set("k", Arg(IntV(100), m[2])), CallE(V("f"), <<I(1)>>)>>, {}) : m \in Masks(2)}
  \cup {ProgCaseX("capture-fail-uncalled" \o MaskStr(m),
            <<Set("z", Arg(IntV(0), m[1])), Set("f", FnE(<<>>, WInt, <<Ret(Bin("%", I(5), V("z")))>>)), I(7)>>,
            IF m[1] THEN {"ZeroModulo"} ELSE {}, {"ZeroModulo"}) : m \in Masks(1)}
  \cup {ProgCase("const-statements" \o MaskStr(m),
            <<Arg(IntV(5), m[1]), Set("x", Arg(IntV(1), m[2])), Lit(StrV(<<115>>)), Block(<<Arg(IntV(6), m[1]), Lit(VoidV), V("x")>>)>>, {}) : m \in Masks(2)}
  \cup {ProgCase("for-const-array" \o MaskStr(m),
            <<Set("acc", MutE(WInt, I(0))), For("e", IterE(ArrE(<<Arg(IntV(1), m[1]), Arg(IntV(2), m[2])>>)), Block(<<Asg("+=", V("acc"), V("e"))>>)), Deref(V("acc"))>>, {})
          : m \in Masks(2)}
  \cup {ProgCase("ifset-const" \o MaskStr(m),
            <<Set("r", IfSet("y", WInt, Arg(IntV(4), m[1]), Block(<<Mark(1), Bin("+", V("y"), Arg(IntV(1), m[2]))>>), Block(<<Mark(2), I(0)>>))), V("r")>>, {})
          : m \in Masks(2)}

\* (kept out of the sampled part: every twin is run in the quick tier too)
SiteTwiceCases ==
  \* a foldable SITE evaluated more than once (a function called twice, a loop body): what the folder computes early must
  \* not be shared between the evaluations (an iterator over a constant array has a position)
  {ProgCase("iter-twice-sum" \o MaskStr(m),
            <<FnDecl("run", <<>>, WInt, <<Ret(RedE("$+", "int", IterE(ArrE(<<Arg(IntV(1), m[1]), Arg(IntV(2), m[2]), I(3)>>))))>>),
              TupE(<<CallE(V("run"), <<>>), CallE(V("run"), <<>>)>>)>>, {}) : m \in Masks(2)}
  \cup {ProgCase("iter-twice-collect-via-name" \o MaskStr(m),
            <<Set("a", ArrE(<<Arg(IntV(4), m[1]), Arg(IntV(5), m[2])>>)), FnDecl("f", <<>>, WArr(WInt), <<Ret(CollectE(IterE(V("a"))))>>),
              TupE(<<CallE(V("f"), <<>>), CallE(V("f"), <<>>)>>)>>, {}) : m \in Masks(2)}
  \cup {ProgCase("iter-in-loop" \o MaskStr(m),
            <<Set("acc", MutE(WInt, I(0))), Set("k", MutE(WInt, I(0))),
              While(Bin("<", Deref(V("k")), I(3)),
                    Block(<<For("e", IterE(ArrE(<<Arg(IntV(1), m[1]), Arg(IntV(2), m[2])>>)), Block(<<Mark(1), Asg("+=", V("acc"), V("e"))>>)),
                            Asg("+=", V("k"), I(1))>>)), Deref(V("acc"))>>, {}) : m \in Masks(2)}
  \cup {ProgCase("iter-first-pull-twice" \o MaskStr(m),
            <<FnDecl("first", <<>>, WInt, <<Set("it", IterE(ArrE(<<Arg(IntV(7), m[1]), Arg(IntV(8), m[2])>>))), Ret(TupAt(CallE(V("it"), <<>>), 1))>>),
              TupE(<<CallE(V("first"), <<>>), CallE(V("first"), <<>>)>>)>>, {}) : m \in Masks(2)}
  \cup {ProgCase("iter-map-twice" \o MaskStr(m),
            <<FnDecl("run", <<>>, WArr(WInt),
                     <<Ret(CollectE(MapE(IterE(ArrE(<<Arg(IntV(1), m[1]), Arg(IntV(2), m[2])>>)), FnE(<<P("v", WInt)>>, WInt, <<Ret(Bin("*", V("v"), I(2)))>>))))>>),
              TupE(<<CallE(V("run"), <<>>), CallE(V("run"), <<>>)>>)>>, {}) : m \in Masks(2)}

\* ---------------------------------------------------------------- a constant next to a bare NAME
\* Identities the folder may be tempted by (0 * x, x * 0, 0 % x, x % 1, 0 / x, x ** 0, 0 << x, x & 0, x - x, x / x, x == x ...)
\* hold only for some values of x: the operand is a parameter (a plain read of a name bound to a non-constant value, with
\* no effect of its own), called with hidden arguments from the boundary set, the constant on either side; and the
\* same name on both sides.  A literal right operand that makes the operation fail whenever it is evaluated may be
\* reported when the program is checked (the permitted difference).
NameConsts == {0, 1, -1}
NameVals == {0, 1, -1, 7, 64}
RtyOf(op) == IF IsCmp(op) THEN WBool ELSE WInt
NameCases ==
  {ProgCase("name-" \o ToString(c) \o op \o "x=" \o ToString(xv),
            <<FnDecl("g", <<P("x", WInt)>>, RtyOf(op), <<Ret(Bin(op, I(c), V("x")))>>), CallE(V("g"), <<Hide(WInt, I(xv))>>)>>, {})
     : op \in IntOps, c \in NameConsts, xv \in NameVals}
  \cup {ProgCase("name-x" \o op \o ToString(c) \o "-x=" \o ToString(xv),
            <<FnDecl("g", <<P("x", WInt)>>, RtyOf(op), <<Ret(Bin(op, V("x"), I(c)))>>), CallE(V("g"), <<Hide(WInt, I(xv))>>)>>,
            IF FailKind(op, IntV(xv), IntV(c)) # "none" THEN {FailKind(op, IntV(xv), IntV(c))} ELSE {})
     : op \in IntOps, c \in NameConsts, xv \in NameVals}
  \cup {ProgCase("name-x" \o op \o "x-x=" \o ToString(xv),
            <<FnDecl("g", <<P("x", WInt)>>, RtyOf(op), <<Ret(Bin(op, V("x"), V("x")))>>), CallE(V("g"), <<Hide(WInt, I(xv))>>)>>, {})
     : op \in IntOps, xv \in NameVals}
  \* the same through a local bound from a cell, and through a loop variable
  \cup {ProgCase("local-" \o ToString(c) \o op \o "x=" \o ToString(xv),
            <<Set("cl", MutE(WInt, I(xv))), Set("x", Deref(V("cl"))), Mark(1), Set("r", Bin(op, I(c), V("x"))), Mark(2), V("r")>>, {})
     : op \in {"*", "/", "%", "**", "<<", ">>", "&"}, c \in {0, 1}, xv \in NameVals}
  \cup {ProgCase("loopvar-" \o ToString(c) \o op,
            <<Set("acc", MutE(WInt, I(0))),
              For("x", IterE(ArrE(<<I(7), I(1), Hide(WInt, I(0)), I(-1)>>)), Block(<<Mark(1), Asg("+=", V("acc"), Bin(op, I(c), V("x")))>>)),
              Deref(V("acc"))>>, {})
     : op \in {"*", "/", "%", "**", "&"}, c \in {0, 1}}
  \cup {ProgCase("name-bool-" \o op \o ToString(a) \o ToString(b),
            <<FnDecl("g", <<P("x", WBool)>>, WBool, <<Ret(IF op = "and" THEN AndE(V("x"), B(b)) ELSE OrE(V("x"), B(b)))>>), CallE(V("g"), <<Hide(WBool, B(a))>>)>>, {})
     : op \in {"and", "or"}, a \in BOOLEAN, b \in BOOLEAN}
NameSeq == SetToSeq(NameCases) \o SetToSeq(SiteTwiceCases)

\* ---------------------------------------------------------------- contexts for expression templates
Contexts == {"top", "fn", "fn-uncalled", "after-effect", "via-name"}
InCtx(t, ctx) ==
  CASE ctx = "top" -> <<Set("r", t.e), V("r")>>
    [] ctx = "fn" -> <<FnDecl("g", <<>>, t.rty, <<Set("r", t.e), Ret(V("r"))>>), CallE(V("g"), <<>>)>>
    [] ctx = "fn-uncalled" -> <<FnDecl("g", <<>>, t.rty, <<Ret(t.e)>>), I(1)>>
    [] ctx = "after-effect" -> <<Mark(77), Set("r", t.e), Mark(78), V("r")>>
    [] ctx = "via-name" -> <<Set("r", Block(<<Set("tmp", t.e), V("tmp")>>)), V("r")>>

ExprInsts == BinInsts \cup FloatInsts \cup UnaryInsts \cup LogicInsts \cup IndexInsts \cup DataInsts
ExprCases == {[name |-> t.name \o "/" \o ctx, prog |-> InCtx(t, ctx), allow |-> t.allow, allowx |-> {}, group |-> ""] : t \in ExprInsts, ctx \in Contexts}
ChainCases == {[name |-> t.name \o "/" \o ctx, prog |-> InCtx(t, ctx), allow |-> {}, allowx |-> {}, group |-> t.group \o "/" \o ctx]
                 : t \in ChainInsts \cup FOpInsts, ctx \in {"top", "fn"}}

CaseSeq0 == SetToSeq(ExprCases) \o SetToSeq(CtlCases)
ChainSeq == SetToSeq(ChainCases)
CaseSeq == SelectSeq([i \in 1..Len(CaseSeq0) |-> IF i % SampleMod = 0 THEN CaseSeq0[i] ELSE NoneV], LAMBDA b : b # NoneV) \o ChainSeq \o NameSeq
N == Len(CaseSeq)
Fuel == 2000
Out(i) == Outcome(Run(CaseSeq[i].prog, Fuel))

\* the same program with every literal operand hidden has the same meaning (hide is the identity): re-derive it
RECURSIVE HideAll(_)
HideAllSeq(ss) == [i \in 1..Len(ss) |-> HideAll(ss[i])]
HideAll(e) ==
  CASE e.k = "lit" /\ e.v.k \in {"int", "bool", "float", "string"} -> Hide(TyOf(e.v), e)
    [] e.k = "hide" -> e
    [] e.k \in {"set", "destruct", "neg", "not", "deref", "field", "tupat", "iter"} -> [e EXCEPT !.e = HideAll(@)]
    [] e.k \in {"block", "mod"} -> [e EXCEPT !.body = HideAllSeq(@)]
    [] e.k \in {"bin", "and", "or", "asg"} -> [e EXCEPT !.l = HideAll(@), !.r = HideAll(@)]
    [] e.k \in {"tup", "arr"} -> [e EXCEPT !.es = HideAllSeq(@)]
    [] e.k = "tick" -> [e EXCEPT !.e = HideAll(@)]
    [] OTHER -> e
NoStuck == row > 0 => (Out(row).status \in {"value", "error", "inconclusive"} \/ (PrintT(<<"STUCK", CaseSeq[row].name, Out(row)>>) /\ FALSE))
TwinsAgree == row > 0 => Outcome(Run(HideAllSeq(CaseSeq[row].prog), Fuel)) = Out(row)
\* a twin may only be allowed a parse-time error of a kind that the documentation lists
AllowSane == row > 0 => CaseSeq[row].allow \subseteq DocErrors

Init == row = 0
Next == \/ row = 0 /\ row' \in {-c : c \in 1..Chunks}
        \/ row < 0 /\ row' \in {i \in 1..N : i % Chunks = (-row) % Chunks}
Spec == Init /\ [][Next]_row

Emit ==
  /\ TLCGet("stats").distinct > 0
  /\ ndJsonSerialize(IOEnv.VERIF_OUT \o "/c04_cases.ndjson",
        [i \in 1..N |-> [id |-> CaseSeq[i].name, suite |-> "c04", prog |-> CaseSeq[i].prog, exp |-> Out(i),
                         allow_parse |-> SetToSeq(CaseSeq[i].allow), group |-> CaseSeq[i].group,
                         allow_exec |-> SetToSeq(CaseSeq[i].allowx)]])
  /\ PrintT(<<"CASES", N, Len(CaseSeq0)>>)
=============================================================================
