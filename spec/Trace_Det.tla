----------------------------- MODULE Trace_Det -----------------------------
(***************************************************************************)
(* C05 — outcomes are functions of the program text.  The specification's  *)
(* semantics is a function (Lang!Run has one result per program; unions are *)
(* sets), so repeated runs of one program — same process, other processes,  *)
(* after unrelated work — must all report ONE outcome.  Trace validation:   *)
(* the harness parses and runs every program K times in each of several     *)
(* processes and records (program id, canonical outcome: accepted?, static  *)
(* type, value or error, log; union members and struct fields sorted).      *)
(* `seen' is a write-once map; a record whose outcome differs from the one   *)
(* already seen for its program is rejected (collected in `bad').           *)
(***************************************************************************)
EXTENDS Sequences, Integers, TLC, Json, IOUtils

Rec == ndJsonDeserialize(IOEnv.VERIF_IN)
VARIABLES l, seen, bad
vars == <<l, seen, bad>>

Init == l = 1 /\ seen = <<>> /\ bad = {}
Known(id) == \E i \in 1..Len(seen) : seen[i].id = id
OutcomeOf(id) == seen[CHOOSE i \in 1..Len(seen) : seen[i].id = id].outcome

First == /\ l <= Len(Rec) /\ ~Known(Rec[l].id)
         /\ seen' = Append(seen, [id |-> Rec[l].id, outcome |-> Rec[l].outcome])
         /\ l' = l + 1 /\ UNCHANGED bad
Again == /\ l <= Len(Rec) /\ Known(Rec[l].id)
         /\ bad' = IF Rec[l].outcome = OutcomeOf(Rec[l].id) THEN bad
                   ELSE IF PrintT(<<"BAD", ToJson([id |-> Rec[l].id, run |-> Rec[l].run, l |-> l])>>) THEN bad \cup {l} ELSE bad
         /\ l' = l + 1 /\ UNCHANGED seen
Next == First \/ Again
Spec == Init /\ [][Next]_vars

Accepted ==
  /\ TLCGet("stats").diameter = Len(Rec) + 1
  /\ PrintT(<<"RECORDS", Len(Rec)>>)
=============================================================================
