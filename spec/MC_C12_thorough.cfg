SPECIFICATION Spec
CONSTANTS
  Chunks = 8
  D = 2
  SampleMod = 1
INVARIANTS
  NoStuck
  DeadNeverLogged
  ReturnWins
POSTCONDITION Emit
CHECK_DEADLOCK FALSE
