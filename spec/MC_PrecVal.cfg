SPECIFICATION Spec
CONSTANTS
  Chunks = 8
  TriplePermille = 5
  MaxTried = 400
INVARIANTS
  InvShape
  InvDiscriminates
  InvIdioms
  InvRejected
  InvEvalAgrees
POSTCONDITION Emit
CHECK_DEADLOCK FALSE
