SPECIFICATION Spec
CONSTANTS
  N = 1
  B = 5
  Chunks = 8
INVARIANTS
  InvConst
  InvBool
  InvUnary
  InvBinary
  InvDiv
  InvShift
  InvPow
  InvTable
POSTCONDITION Done
CHECK_DEADLOCK FALSE
