----------------------------- MODULE MC_Types -----------------------------
(***************************************************************************)
(* Model-checking harness for Types: builds a universe of types closed      *)
(* under every constructor up to depth 2 (with reduced alphabets at depth   *)
(* 2), checks the laws of C10 on it, and writes the universe together with  *)
(* the specification's answers (matches matrix, joins, meets, query         *)
(* answers, value membership) for replay against the implementation.        *)
(*                                                                           *)
(* State machine: a two-level fan-out so that TLC's workers share the rows. *)
(*   row = 0            start                                               *)
(*   row = -c           chunk c of the rows (1..Chunks)                     *)
(*   row = i > 0        "type number i has been compared with every other"  *)
(* The laws are invariants evaluated in the row states.                     *)
(***************************************************************************)
EXTENDS Types, Json, IOUtils

CONSTANTS Chunks, Thorough

VARIABLE row

Leaf == {TBool, TInt, TFloat, TString, TVoid, TAny, TNever}
Plain == {TBool, TInt, TFloat, TString, TVoid}
FieldNames == {"a", "b", "c"}

Unions2(S) == {Multi({x, y}) : x \in S, y \in S} \ {Multi({x}) : x \in S}

Built(S, P) ==  \* S: alphabet for components, P: alphabet for union members
     {Arr(t) : t \in S}
  \cup {MutT(t) : t \in S}
  \cup {Tup(<<x, y>>) : x \in S, y \in S}
  \cup {Fn(<<>>, r) : r \in S}
  \cup {Fn(<<p>>, r) : p \in S, r \in S}
  \cup {Struct("a" :> x) : x \in S}
  \cup {Struct("a" :> x @@ "b" :> y) : x \in S, y \in S}
  \cup Unions2(P)

D1 == Built(Leaf, Plain)

IntFloat == Multi({TInt, TFloat})
S2 == {TInt, TFloat, TAny, TNever, IntFloat, Arr(TInt), Arr(IntFloat), MutT(TInt),
       Fn(<<>>, TInt), Struct("a" :> TInt)}
P2 == S2 \ {TAny, TNever, IntFloat}
D2 == Built(S2, P2)

Extra == {
  Struct(<<>>),
  Struct("a" :> TInt @@ "b" :> TInt @@ "c" :> TInt),
  \* structs whose field NAME sets are incomparable or overlap partly (same width, other names)
  Struct("b" :> TInt), Struct("c" :> TInt), Struct("a" :> TInt @@ "c" :> TInt), Struct("b" :> TInt @@ "c" :> TInt),
  Struct("b" :> TInt @@ "c" :> TFloat), Struct("a" :> IntFloat @@ "c" :> TInt),
  Multi({Struct("a" :> TInt), Struct("b" :> TInt)}), Multi({Struct("a" :> TInt @@ "b" :> TInt), Struct("a" :> TInt @@ "c" :> TInt)}),
  Arr(Struct("b" :> TInt)), Fn(<<Struct("a" :> TInt @@ "b" :> TInt)>>, Struct("a" :> TInt @@ "c" :> TInt)),
  Tup(<<TInt, TInt, TInt>>), Tup(<<TInt, TFloat, TString>>),
  Fn(<<TInt, TInt>>, TInt), Fn(<<TAny, TInt>>, TInt), Fn(<<TInt, TFloat>>, IntFloat),
  Multi({TInt, TFloat, TString}), Multi({TInt, TVoid}), Multi({TString, Arr(TAny)}),
  Multi({Arr(TInt), Arr(TFloat)}), Multi({Arr(TInt), TString}),
  Multi({Tup(<<TInt, TInt>>), Tup(<<TFloat, TFloat>>)}),
  Multi({Tup(<<TInt, TInt>>), Tup(<<TInt, TInt, TInt>>)}),
  Multi({Fn(<<TInt>>, TInt), Fn(<<TFloat>>, TInt)}),
  Multi({Fn(<<TInt>>, TInt), Fn(<<TFloat>>, TFloat)}),
  Multi({Fn(<<TInt>>, TInt), Fn(<<TInt, TInt>>, TInt)}),
  Multi({Fn(<<>>, Tup(<<TBool, TInt>>)), Fn(<<>>, Tup(<<TBool, TFloat>>))}),
  Multi({MutT(TInt), MutT(TFloat)}),
  Multi({Struct("a" :> TInt), Struct("a" :> TFloat)}),
  Multi({Struct("a" :> TInt), Struct("a" :> TInt @@ "b" :> TInt)}),
  Multi({Struct("a" :> TInt @@ "b" :> TInt @@ "c" :> TInt), TInt}),
  Fn(<<>>, Tup(<<TBool, TInt>>)), Fn(<<>>, Tup(<<TBool, TAny>>)), Fn(<<>>, Tup(<<TBool, IntFloat>>)),
  Fn(<<>>, Multi({Tup(<<TBool, TInt>>), Tup(<<TBool, TFloat>>)})),
  Fn(<<>>, Tup(<<TAny, TAny>>)), Fn(<<>>, Tup(<<TBool, TNever>>)),
  Arr(Arr(Arr(TInt))), MutT(MutT(TInt)), Arr(MutT(IntFloat)), MutT(Arr(TNever)),
  Fn(<<Fn(<<TInt>>, TInt)>>, Fn(<<TInt>>, TInt)), Fn(<<Fn(<<IntFloat>>, TInt)>>, TInt),
  Arr(Multi({Arr(TInt), Arr(TFloat)})), Arr(Struct("a" :> IntFloat))
}

U == Leaf \cup D1 \cup D2 \cup Extra
USeq == SetToSeq(U)
N == Len(USeq)

\* representatives for the cubic laws in the quick tier: depth <= 1 over a reduced alphabet + Extra
RepLeaf == {TInt, TFloat, TAny, TNever, TVoid}
Rep == IF Thorough THEN U
       ELSE RepLeaf \cup Built(RepLeaf, {TInt, TFloat, TVoid}) \cup Extra
              \cup {Arr(IntFloat), MutT(IntFloat), Fn(<<IntFloat>>, TInt), Fn(<<TInt>>, IntFloat),
                    Fn(<<>>, IntFloat), Tup(<<IntFloat, TInt>>), Struct("a" :> IntFloat)}

(***************************************************************************)
(* Values for MatchesSoundForValues.                                        *)
(***************************************************************************)
VInt == [k |-> "int", v |-> 1]
VFloat == [k |-> "float", v |-> 3]
VStr == [k |-> "string", v |-> "s"]
VBool == [k |-> "bool", v |-> TRUE]
VVoid == [k |-> "void"]
Scalars == {VInt, VFloat, VStr, VBool, VVoid}
VArr(tag, es) == [k |-> "array", tag |-> tag, es |-> es]
Vals0 == Scalars
   \cup {VArr(TNever, <<>>), VArr(TInt, <<>>), VArr(TInt, <<VInt>>), VArr(TFloat, <<VFloat>>),
         VArr(IntFloat, <<VInt, VFloat>>), VArr(IntFloat, <<VInt>>), VArr(TAny, <<VInt>>),
         VArr(Multi({TInt, TString}), <<VStr>>)}
   \cup {[k |-> "tuple", es |-> <<x, y>>] : x \in Scalars, y \in {VInt, VFloat}}
   \cup {[k |-> "tuple", es |-> <<VInt, VInt, VInt>>]}
   \cup {[k |-> "struct", fs |-> <<>>]}
   \cup {[k |-> "struct", fs |-> "a" :> x] : x \in Scalars}
   \cup {[k |-> "struct", fs |-> "a" :> x @@ "b" :> y] : x \in {VInt, VFloat}, y \in {VInt, VStr}}
   \cup {[k |-> "struct", fs |-> "a" :> VInt @@ "b" :> VInt @@ "c" :> VInt]}
   \cup {[k |-> "struct", fs |-> "b" :> VInt], [k |-> "struct", fs |-> "a" :> VInt @@ "c" :> VInt],
         [k |-> "struct", fs |-> "b" :> VInt @@ "c" :> VInt]}
   \cup {[k |-> "cell", ty |-> TInt, c |-> VInt], [k |-> "cell", ty |-> TFloat, c |-> VFloat],
         [k |-> "cell", ty |-> IntFloat, c |-> VInt], [k |-> "cell", ty |-> TAny, c |-> VStr],
         [k |-> "cell", ty |-> Arr(TInt), c |-> VArr(TNever, <<>>)]}
   \cup {[k |-> "fnv", sig |-> s] : s \in {Fn(<<>>, TInt), Fn(<<TInt>>, TInt), Fn(<<TAny>>, TInt),
                                           Fn(<<IntFloat>>, TInt), Fn(<<TInt>>, IntFloat),
                                           Fn(<<>>, Tup(<<TBool, TInt>>)), Fn(<<TInt, TInt>>, TInt)}}
Vals == Vals0
   \cup {VArr(TagOf(v), <<v>>) : v \in {x \in Vals0 : x.k \in {"array", "cell", "fnv", "struct"}}}
   \cup {[k |-> "tuple", es |-> <<VBool, v>>] : v \in {x \in Vals0 : x.k \in {"array", "cell", "fnv"}}}
VSeq == SetToSeq(Vals)

(***************************************************************************)
(* Laws (C10).  Row i compares USeq[i] with everything.                     *)
(***************************************************************************)
Reflexive(a) == Matches(a, a)
NeverLeast(a) == Matches(TNever, a)
AnyGreatest(a) == Matches(a, TAny)
Transitive(a) == \A b \in Rep : Matches(a, b) => \A c \in Rep : Matches(b, c) => Matches(a, c)
TransitiveMid(b) == \A a \in Rep : Matches(a, b) => \A c \in Rep : Matches(b, c) => Matches(a, c)

Variance(a) == \A b \in Rep :
   /\ Matches(Arr(a), Arr(b)) = Matches(a, b)                                 \* arrays covariant
   /\ Matches(Tup(<<a, TInt>>), Tup(<<b, TInt>>)) = Matches(a, b)             \* tuples covariant
   /\ Matches(Tup(<<TInt, a>>), Tup(<<TInt, b>>)) = Matches(a, b)
   /\ Matches(Struct("a" :> a), Struct("a" :> b)) = Matches(a, b)             \* fields covariant
   /\ Matches(Fn(<<>>, a), Fn(<<>>, b)) = Matches(a, b)                       \* results covariant
   /\ Matches(Fn(<<a>>, TInt), Fn(<<b>>, TInt)) = Matches(b, a)               \* params contravariant
   /\ Matches(MutT(a), MutT(b)) = (a = b)                                     \* cells invariant
   /\ Matches(Struct("a" :> a @@ "b" :> TInt), Struct("a" :> b)) = Matches(a, b)   \* width

UnionLaws(a) == \A b \in Rep :
   LET j == Join(a, b) IN
   /\ Matches(a, j) /\ Matches(b, j)                                            \* upper bound
   /\ \A c \in Rep : Matches(j, c) = (Matches(a, c) /\ Matches(b, c))           \* below exactly ...
   /\ Join(b, a) = j
   /\ Join(a, a) = a

MeetLaws(a) == \A b \in Rep :
   LET m == Meet(a, b) IN Matches(m, a) /\ Matches(m, b)

ValueSound(a) == \A b \in Rep : Matches(a, b) =>
                   \A v \in Vals : Member(v, a) => Member(v, b)
ValuesWellFormed == \A v \in Vals : WellFormed(v) /\ Member(v, TagOf(v))

FoldsOrderInsensitive(a) == IsMulti(a) => FoldsAgree(a)

Cur == USeq[row]
InRep == row > 0 /\ Cur \in Rep

InvReflexive  == row > 0 => Reflexive(Cur) /\ NeverLeast(Cur) /\ AnyGreatest(Cur)
InvTransitive == InRep => Transitive(Cur)
InvVariance   == InRep => Variance(Cur)
InvUnion      == InRep => UnionLaws(Cur)
InvMeet       == InRep => MeetLaws(Cur)
InvValueSound == InRep => ValueSound(Cur)
InvFolds      == row > 0 => FoldsOrderInsensitive(Cur)
InvValues     == row = 0 => ValuesWellFormed

Init == row = 0
Next == \/ row = 0 /\ row' \in {-c : c \in 1..Chunks}
        \/ row < 0 /\ row' \in {i \in 1..N : i % Chunks = (-row) % Chunks}
Spec == Init /\ [][Next]_row

(***************************************************************************)
(* Emission for replay (POSTCONDITION; evaluated once after the search).    *)
(***************************************************************************)
RECURSIVE Wire(_)
Wire(t) ==
  CASE t.k = "array"  -> [k |-> "array", e |-> Wire(t.e)]
    [] t.k = "mut"    -> [k |-> "mut", e |-> Wire(t.e)]
    [] t.k = "tuple"  -> [k |-> "tuple", es |-> [i \in 1..Len(t.es) |-> Wire(t.es[i])]]
    [] t.k = "fn"     -> [k |-> "fn", ps |-> [i \in 1..Len(t.ps) |-> Wire(t.ps[i])], r |-> Wire(t.r)]
    [] t.k = "struct" -> [k |-> "struct", fs |-> SetToSeq({<<f, Wire(t.fs[f])>> : f \in DOMAIN t.fs})]
    [] t.k = "multi"  -> [k |-> "multi", ms |-> SetToSeq({Wire(m) : m \in t.ms})]
    [] OTHER -> t

RECURSIVE WireV(_)
WireV(v) ==
  CASE v.k = "array"  -> [k |-> "array", tag |-> Wire(v.tag), es |-> [i \in 1..Len(v.es) |-> WireV(v.es[i])]]
    [] v.k = "tuple"  -> [k |-> "tuple", es |-> [i \in 1..Len(v.es) |-> WireV(v.es[i])]]
    [] v.k = "struct" -> [k |-> "struct", fs |-> SetToSeq({<<f, WireV(v.fs[f])>> : f \in DOMAIN v.fs})]
    [] v.k = "cell"   -> [k |-> "cell", ty |-> Wire(v.ty), c |-> WireV(v.c)]
    [] v.k = "fnv"    -> [k |-> "fnv", sig |-> Wire(v.sig)]
    [] OTHER -> v

WireOpt(x) == IF IsNone(x) THEN None ELSE Wire(x)
B(x) == IF x THEN 1 ELSE 0

RepSeq == SetToSeq(Rep)
IdxOf(t) == CHOOSE i \in 1..N : USeq[i] = t

QueryRow(t) ==
  [index_result |-> WireOpt(QIndexResult(t)), element_type |-> WireOpt(QElementType(t)),
   mut_element_type |-> WireOpt(QMutElementType(t)), return_type |-> WireOpt(QReturnType(t)),
   iter_element |-> WireOpt(QIterElement(t)), flatten_tuple |-> WireOpt(QFlattenTuple(t)),
   field_a |-> WireOpt(QFieldType(t, "a")), field_b |-> WireOpt(QFieldType(t, "b")),
   has_a |-> B(QHasField(t, "a")), has_b |-> B(QHasField(t, "b")),
   at0 |-> WireOpt(QTupleAt(t, 1)), at1 |-> WireOpt(QTupleAt(t, 2)), at2 |-> WireOpt(QTupleAt(t, 3)),
   tuple_len |-> QTupleLen(t), min_tuple_len |-> QMinTupleLen(t),
   is_function |-> B(QIsFunction(t)), is_tuple |-> B(QIsTuple(t)), is_mut |-> B(QIsMut(t)),
   is_iterator |-> B(QIsIterator(t)), is_struct |-> B(QIsStruct(t)),
   can_be_indexed |-> B(QCanBeIndexed(t)),
   params |-> LET ps == FoldParams(SetToSeq(Members(t))) IN
              IF IsNone(ps) THEN None ELSE SomePs([j \in 1..Len(ps.ps) |-> Wire(ps.ps[j])])]

Out == IOEnv.VERIF_OUT

Emit ==
  /\ TLCGet("stats").distinct > 0
  /\ ndJsonSerialize(Out \o "/types_universe.ndjson",
        [i \in 1..N |-> [i |-> i, t |-> Wire(USeq[i]), q |-> QueryRow(USeq[i]),
                         rep |-> B(USeq[i] \in Rep),
                         row |-> [j \in 1..N |-> B(Matches(USeq[i], USeq[j]))]]])
  /\ ndJsonSerialize(Out \o "/types_joinmeet.ndjson",
        [p \in 1..(Len(RepSeq) * Len(RepSeq)) |->
           LET a == RepSeq[((p - 1) \div Len(RepSeq)) + 1]
               b == RepSeq[((p - 1) % Len(RepSeq)) + 1]
           IN [a |-> IdxOf(a), b |-> IdxOf(b), join |-> Wire(Join(a, b)), meet |-> Wire(Meet(a, b))]])
  /\ ndJsonSerialize(Out \o "/types_values.ndjson",
        [i \in 1..Len(VSeq) |-> [v |-> WireV(VSeq[i]), tag |-> Wire(TagOf(VSeq[i])),
                                 member |-> [j \in 1..N |-> B(Member(VSeq[i], USeq[j]))],
                                 tagmatch |-> [j \in 1..N |-> B(Matches(TagOf(VSeq[i]), USeq[j]))]]])
  /\ PrintT(<<"UNIVERSE", N, Len(RepSeq), Len(VSeq)>>)
=============================================================================
