SPECIFICATION SpecE
CONSTANTS
  GridLevel = 2
  Chunks = 1
POSTCONDITION EmitExtra
CHECK_DEADLOCK FALSE
