SPECIFICATION Spec
CONSTANTS
  Chunks = 8
  PerCase = 4
INVARIANTS
  CtxLaw
POSTCONDITION Emit
CHECK_DEADLOCK FALSE
