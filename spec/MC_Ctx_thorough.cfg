SPECIFICATION Spec
CONSTANTS
  Chunks = 8
  PerCase = 16
INVARIANTS
  CtxLaw
POSTCONDITION Emit
CHECK_DEADLOCK FALSE
