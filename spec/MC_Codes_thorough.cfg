SPECIFICATION Spec
CONSTANTS
  MaxLen = 6
INVARIANTS
  AnswersAreValues
  EmitBehaviours
POSTCONDITION EmitPool
CHECK_DEADLOCK FALSE
