-------------------------------- MODULE Seqs --------------------------------
(***************************************************************************)
(* Sequences of SimpleSL: strings are sequences of Unicode scalar values,   *)
(* arrays are sequences of values.  This module says what indexing, slicing *)
(* and std.len must answer (C09), what `==' must answer (C19: ValEq), and   *)
(* gives the list meaning of the array-producing operators that C19 uses as *)
(* provenance paths (concatenation, repetition, collect, filter, partition, *)
(* filter by type).                                                         *)
(*                                                                           *)
(* Values (tagged records, never compared across kinds):                    *)
(*   [k |-> "bool", b |-> b]   [k |-> "int", v |-> n]   [k |-> "void"]       *)
(*   [k |-> "float", c |-> "fin", h |-> n]        the half-integer n/2       *)
(*   [k |-> "float", c |-> "nan"|"negzero"|"inf"|"neginf", h |-> 0]          *)
(*   [k |-> "string", cps |-> <<scalar values>>]                            *)
(*   [k |-> "array", es |-> <<values>>]   [k |-> "tuple", es |-> <<values>>] *)
(*   [k |-> "struct", fs |-> [field name -> value]]                         *)
(*   [k |-> "fnv", id |-> n]   [k |-> "cell", id |-> n]     (identities)     *)
(* A value carries NO hidden element type: content is all there is.         *)
(*                                                                           *)
(* Index operands are `extended integers' because TLC's integers are 32 bit *)
(* and the property quantifies over all of i64:                             *)
(*   [k |-> "none"]            the operand is absent (slices only)          *)
(*   [k |-> "i", v |-> n]      the integer n (|n| small)                     *)
(*   [k |-> "min", d |-> d]    the integer MIN_INT + d   (d >= 0 small)      *)
(*   [k |-> "max", d |-> d]    the integer MAX_INT - d   (d >= 0 small)      *)
(* For a sequence of length n (n is tiny compared with 2^63) every integer  *)
(* <= -(n+1) behaves like -(n+1) and every integer >= n+1 like n+1, as an    *)
(* index (out of bounds), as a slice bound (clamped) and as a slice step (at *)
(* most the first element is selected).  Fin maps the symbolic extremes to   *)
(* these representatives; the laws SaturatesBelow / SaturatesAbove in        *)
(* MC_Seqs check, for every finite value beyond the representative that the  *)
(* model contains, that the answer is the representative's, so the symbols   *)
(* are the limit of the finite behaviour and not an extra assumption.        *)
(***************************************************************************)
EXTENDS Integers, Sequences, FiniteSets, TLC

\* ------------------------------------------------------------------ values
VBool(b)   == [k |-> "bool", b |-> b]
VInt(n)    == [k |-> "int", v |-> n]
VFloat(h)  == [k |-> "float", c |-> "fin", h |-> h]
VNaN       == [k |-> "float", c |-> "nan", h |-> 0]
VNegZero   == [k |-> "float", c |-> "negzero", h |-> 0]
VInf       == [k |-> "float", c |-> "inf", h |-> 0]
VNegInf    == [k |-> "float", c |-> "neginf", h |-> 0]
VStr(cps)  == [k |-> "string", cps |-> cps]
VVoid      == [k |-> "void"]
VArr(es)   == [k |-> "array", es |-> es]
VTup(es)   == [k |-> "tuple", es |-> es]
VStruct(fs) == [k |-> "struct", fs |-> fs]
VFn(id)    == [k |-> "fnv", id |-> id]
VCell(id)  == [k |-> "cell", id |-> id]

\* ------------------------------------------------------- extended integers
XNone    == [k |-> "none"]
XI(n)    == [k |-> "i", v |-> n]
XMin(d)  == [k |-> "min", d |-> d]
XMax(d)  == [k |-> "max", d |-> d]

\* finite representative of an extended integer for a sequence of length n
Fin(x, n) == CASE x.k = "i"   -> x.v
               [] x.k = "min" -> -(n + 1)
               [] x.k = "max" -> n + 1

\* --------------------------------------------------------------- sequences
IsSeqVal(s)      == s.k \in {"string", "array"}
Items(s)         == IF s.k = "string" THEN s.cps ELSE s.es
WithItems(s, xs) == IF s.k = "string" THEN VStr(xs) ELSE VArr(xs)
SeqLen(s)        == Len(Items(s))                       \* std.len: scalar values, not bytes
\* the value that indexing yields for the item at (1-based) position p:
\* an element of the array / the one-scalar string
ElemAt(s, p)     == IF s.k = "string" THEN VStr(<<s.cps[p]>>) ELSE s.es[p]

Ok(v)  == [k |-> "ok", v |-> v]
Err(e) == [k |-> "err", e |-> e]
OutOfBounds == Err("IndexOutOfBounds")

(***************************************************************************)
(* s[i]: succeeds exactly when -n <= i < n; a negative index counts from    *)
(* the end.                                                                  *)
(***************************************************************************)
InRange(n, j) == -n <= j /\ j < n
At(s, i) ==
  LET n == SeqLen(s)
      j == Fin(i, n)
  IN IF InRange(n, j) THEN Ok(ElemAt(s, (IF j < 0 THEN n + j ELSE j) + 1))
     ELSE OutOfBounds

(***************************************************************************)
(* s[start:stop:step]: Python's slice.indices (PySlice_AdjustIndices),      *)
(* except that step 0 selects nothing instead of being an error.            *)
(* Positions are 0-based.                                                    *)
(***************************************************************************)
StepOf(step, n) == IF step.k = "none" THEN 1 ELSE Fin(step, n)

LowerB(st)    == IF st < 0 THEN -1 ELSE 0
UpperB(st, n) == IF st < 0 THEN n - 1 ELSE n

\* a present bound: negative counts from the end, then clamp into [LowerB, UpperB]
Clamp(b, n, st) ==
  IF b < 0 THEN (IF b + n < 0 THEN LowerB(st) ELSE b + n)
  ELSE (IF b >= n THEN UpperB(st, n) ELSE b)

StartOf(start, n, st) ==
  IF start.k = "none" THEN (IF st < 0 THEN n - 1 ELSE 0) ELSE Clamp(Fin(start, n), n, st)
StopOf(stop, n, st) ==
  IF stop.k = "none" THEN (IF st < 0 THEN -1 ELSE n) ELSE Clamp(Fin(stop, n), n, st)

\* operational definition: what Python's iteration visits
RECURSIVE Walk(_, _, _)
Walk(i, b, st) ==
  IF st > 0 /\ i < b THEN <<i>> \o Walk(i + st, b, st)
  ELSE IF st < 0 /\ i > b THEN <<i>> \o Walk(i + st, b, st)
  ELSE <<>>

SlicePositions(n, start, stop, step) ==
  LET st == StepOf(step, n) IN Walk(StartOf(start, n, st), StopOf(stop, n, st), st)

PySlice(s, start, stop, step) ==
  LET ps == SlicePositions(SeqLen(s), start, stop, step)
  IN WithItems(s, [j \in 1..Len(ps) |-> Items(s)[ps[j] + 1]])

\* closed form of the number of selected elements
SliceLen(n, start, stop, step) ==
  LET st == StepOf(step, n)
      a == StartOf(start, n, st)
      b == StopOf(stop, n, st)
  IN IF st > 0 /\ a < b THEN (b - a - 1) \div st + 1
     ELSE IF st < 0 /\ b < a THEN (a - b - 1) \div (-st) + 1
     ELSE 0

\* declarative definition: the set of positions a slice selects
SliceSet(n, start, stop, step) ==
  LET st == StepOf(step, n)
      a == StartOf(start, n, st)
      b == StopOf(stop, n, st)
  IN {p \in 0..(n - 1) :
        /\ st # 0
        /\ (p - a) % (IF st < 0 THEN -st ELSE st) = 0
        /\ IF st > 0 THEN a <= p /\ p < b ELSE b < p /\ p <= a}

Rev(xs) == [j \in 1..Len(xs) |-> xs[Len(xs) + 1 - j]]
SeqRange(xs) == {xs[j] : j \in 1..Len(xs)}

(***************************************************************************)
(* List meaning of the array-producing operators (C19 provenance paths;     *)
(* C11 reuses them).                                                         *)
(***************************************************************************)
ConcatV(a, b)   == VArr(a.es \o b.es)                       \* [..] + [..]
RepeatV(v, n)   == VArr([j \in 1..n |-> v])                  \* [v; n]
CollectSeq(xs)  == VArr(xs)                                  \* xs~ $]
FilterSeq(xs, P(_)) == SelectSeq(xs, P)                      \* xs~ ? p $]
PartitionSeq(xs, P(_)) ==                                    \* xs~ \ p
  LET NotP(x) == ~P(x) IN VTup(<<VArr(SelectSeq(xs, P)), VArr(SelectSeq(xs, NotP))>>)

(***************************************************************************)
(* Equality by content (C19).                                                *)
(***************************************************************************)
FloatEq(a, b) ==
  IF a.c = "nan" \/ b.c = "nan" THEN FALSE                   \* NaN is unequal to everything
  ELSE LET Z(x) == IF x.c = "negzero" THEN VFloat(0) ELSE x  \* -0.0 == 0.0
       IN Z(a).c = Z(b).c /\ Z(a).h = Z(b).h

RECURSIVE ValEq(_, _)
ValEq(a, b) ==
  IF a.k # b.k THEN FALSE                                    \* different kinds are unequal
  ELSE CASE a.k = "bool"   -> a.b = b.b
         [] a.k = "int"    -> a.v = b.v
         [] a.k = "string" -> a.cps = b.cps
         [] a.k = "void"   -> TRUE
         [] a.k = "float"  -> FloatEq(a, b)
         [] a.k \in {"array", "tuple"} ->
              /\ Len(a.es) = Len(b.es)
              /\ \A j \in 1..Len(a.es) : ValEq(a.es[j], b.es[j])
         [] a.k = "struct" ->
              /\ DOMAIN a.fs = DOMAIN b.fs
              /\ \A f \in DOMAIN a.fs : ValEq(a.fs[f], b.fs[f])
         [] a.k \in {"fnv", "cell"} -> a.id = b.id           \* identity
ValNe(a, b) == ~ValEq(a, b)

RECURSIVE HasNaN(_)
HasNaN(v) ==
  CASE v.k = "float" -> v.c = "nan"
    [] v.k \in {"array", "tuple"} -> \E j \in 1..Len(v.es) : HasNaN(v.es[j])
    [] v.k = "struct" -> \E f \in DOMAIN v.fs : HasNaN(v.fs[f])
    [] OTHER -> FALSE

=============================================================================
