--------------------------------- MODULE Fs ---------------------------------
(***************************************************************************)
(* C18 - the nine std.fs functions as a state machine over a small file     *)
(* tree (POSIX / Rust std semantics as documented in docs/stdlib.md and the *)
(* Rust std::fs documentation the functions expose).                        *)
(*                                                                           *)
(* A node is                                                                *)
(*   [k |-> "file", c |-> content]          content: a token, see Contents   *)
(*   [k |-> "dir", ro |-> BOOLEAN, ch |-> [names -> node]]                  *)
(* and the state is the root directory node (never read-only itself).       *)
(* `ro' is the `unwritable' flag: entries of a read-only directory cannot   *)
(* be created, removed or renamed (its files can still be read and          *)
(* overwritten, it can itself be removed or renamed inside a writable       *)
(* parent, but not moved to another parent).  A missing path is             *)
(* [k |-> "missing"].  Calls address the paths p, q, d, d/x.                *)
(*                                                                           *)
(* Step(root, call) = [ok, st, ret]: whether the call succeeds, the tree    *)
(* afterwards and what is returned ("void", the file content, or "err" =    *)
(* the struct {error_code: int, msg: string}; codes and messages are the    *)
(* operating system's and are not modelled).                                *)
(* remove_dir_all and create_dir_all are modelled operationally (entry by   *)
(* entry, stopping at the first error and KEEPING what was done so far), so *)
(* that `a failing call leaves the tree unchanged' is a theorem that TLC    *)
(* checks, not a definition.                                                *)
(***************************************************************************)
EXTENDS Integers, Sequences, FiniteSets, TLC

Missing == [k |-> "missing"]
FileN(c) == [k |-> "file", c |-> c]
DirN(ro, ch) == [k |-> "dir", ro |-> ro, ch |-> ch]
EmptyDir == DirN(FALSE, <<>>)
BadUtf8 == "<not utf-8>"                     \* a file whose bytes are not UTF-8
Contents == {"a", "b", "c", "w", BadUtf8}

PathP == <<"p">>
PathQ == <<"q">>
PathD == <<"d">>
PathDX == <<"d", "x">>
ArgPaths == {PathP, PathQ, PathD, PathDX}

Parent(path) == SubSeq(path, 1, Len(path) - 1)
LastName(path) == path[Len(path)]
IsProperPrefix(a, b) == Len(a) < Len(b) /\ SubSeq(b, 1, Len(a)) = a

RECURSIVE Lookup(_, _)
Lookup(n, path) ==
  IF path = <<>> THEN n
  ELSE IF n.k # "dir" \/ Head(path) \notin DOMAIN n.ch THEN Missing
  ELSE Lookup(n.ch[Head(path)], Tail(path))

RECURSIVE Put(_, _, _)                        \* the parent of path is a directory of n
Put(n, path, new) ==
  LET h == Head(path) IN
  IF Len(path) = 1 THEN [n EXCEPT !.ch = (h :> new) @@ n.ch]
  ELSE [n EXCEPT !.ch = (h :> Put(n.ch[h], Tail(path), new)) @@ n.ch]

RECURSIVE Del(_, _)
Del(n, path) ==
  LET h == Head(path) IN
  IF Len(path) = 1 THEN [n EXCEPT !.ch = [x \in (DOMAIN n.ch) \ {h} |-> n.ch[x]]]
  ELSE [n EXCEPT !.ch = (h :> Del(n.ch[h], Tail(path))) @@ n.ch]

Ok(st, ret) == [ok |-> TRUE, st |-> st, ret |-> ret]
Fail(st)    == [ok |-> FALSE, st |-> st, ret |-> "err"]

\* --- remove_dir_all, operationally: depth first; the first entry that cannot be unlinked stops it
RECURSIVE Purge(_)                            \* [ok, n]: the directory node after trying to empty it
Purge(n) ==
  IF DOMAIN n.ch = {} THEN [ok |-> TRUE, n |-> n]
  ELSE LET h == CHOOSE x \in DOMAIN n.ch : TRUE
           c == n.ch[h]
       IN IF c.k = "dir" THEN
            LET r == Purge(c) IN
            IF ~r.ok THEN [ok |-> FALSE, n |-> [n EXCEPT !.ch = (h :> r.n) @@ n.ch]]
            ELSE IF n.ro THEN [ok |-> FALSE, n |-> [n EXCEPT !.ch = (h :> r.n) @@ n.ch]]
            ELSE Purge([n EXCEPT !.ch = [x \in (DOMAIN n.ch) \ {h} |-> n.ch[x]]])
          ELSE IF n.ro THEN [ok |-> FALSE, n |-> n]
          ELSE Purge([n EXCEPT !.ch = [x \in (DOMAIN n.ch) \ {h} |-> n.ch[x]]])

\* --- create_dir_all, operationally: component by component
RECURSIVE MkAll(_, _)                         \* n a directory node; [ok, n]
MkAll(n, path) ==
  IF path = <<>> THEN [ok |-> TRUE, n |-> n]
  ELSE LET h == Head(path) IN
       IF h \in DOMAIN n.ch THEN
         IF n.ch[h].k # "dir" THEN [ok |-> FALSE, n |-> n]
         ELSE LET r == MkAll(n.ch[h], Tail(path)) IN
              [ok |-> r.ok, n |-> [n EXCEPT !.ch = (h :> r.n) @@ n.ch]]
       ELSE IF n.ro THEN [ok |-> FALSE, n |-> n]
       ELSE LET r == MkAll(EmptyDir, Tail(path)) IN
            [ok |-> r.ok, n |-> [n EXCEPT !.ch = (h :> r.n) @@ n.ch]]

(***************************************************************************)
(* Calls: [f |-> name, p |-> path, q |-> path or <<>>, c |-> content or ""] *)
(***************************************************************************)
Call1(f, p)     == [f |-> f, p |-> p, q |-> <<>>, c |-> ""]
Call2(f, p, q)  == [f |-> f, p |-> p, q |-> q, c |-> ""]
CallW(p, c)     == [f |-> "write_to_file", p |-> p, q |-> <<>>, c |-> c]
Unary == {"file_read_to_string", "remove_file", "remove_dir", "remove_dir_all", "create_dir", "create_dir_all"}
\* copy_file onto the same path is outside the model: see the note in MC_Fs.tla
Calls == {Call1(f, p) : f \in Unary, p \in ArgPaths}
         \cup {CallW(p, "w") : p \in ArgPaths}
         \cup ({Call2("copy_file", p, q) : p \in ArgPaths, q \in ArgPaths} \ {Call2("copy_file", p, p) : p \in ArgPaths})
         \cup {Call2("rename", p, q) : p \in ArgPaths, q \in ArgPaths}

Step(root, call) ==
  LET P == call.p
      par == Lookup(root, Parent(P))
      node == Lookup(root, P)
      parDir == par.k = "dir"
  IN
  CASE call.f = "file_read_to_string" ->
         IF node.k = "file" /\ node.c # BadUtf8 THEN Ok(root, node.c) ELSE Fail(root)
    [] call.f = "write_to_file" ->
         IF parDir /\ (node.k = "file" \/ (node.k = "missing" /\ ~par.ro))
         THEN Ok(Put(root, P, FileN(call.c)), "void") ELSE Fail(root)
    [] call.f = "copy_file" ->
         LET Q == call.q
             qpar == Lookup(root, Parent(Q))
             qnode == Lookup(root, Q)
         IN IF node.k = "file" /\ qpar.k = "dir" /\ (qnode.k = "file" \/ (qnode.k = "missing" /\ ~qpar.ro))
            THEN Ok(Put(root, Q, FileN(node.c)), "void") ELSE Fail(root)
    [] call.f = "remove_file" ->
         IF node.k = "file" /\ ~par.ro THEN Ok(Del(root, P), "void") ELSE Fail(root)
    [] call.f = "remove_dir" ->
         IF node.k = "dir" /\ DOMAIN node.ch = {} /\ ~par.ro THEN Ok(Del(root, P), "void") ELSE Fail(root)
    [] call.f = "remove_dir_all" ->
         IF node.k # "dir" THEN Fail(root)
         ELSE LET r == Purge(node) IN
              IF ~r.ok THEN Fail(Put(root, P, r.n))
              ELSE IF par.ro THEN Fail(Put(root, P, r.n))
              ELSE Ok(Del(root, P), "void")
    [] call.f = "create_dir" ->
         IF parDir /\ node.k = "missing" /\ ~par.ro THEN Ok(Put(root, P, EmptyDir), "void") ELSE Fail(root)
    [] call.f = "create_dir_all" ->
         LET r == MkAll(root, P) IN IF r.ok THEN Ok(r.n, "void") ELSE Fail(r.n)
    [] call.f = "rename" ->
         LET Q == call.q
             qpar == Lookup(root, Parent(Q))
             qnode == Lookup(root, Q)
         IN IF node.k = "missing" THEN Fail(root)
            ELSE IF P = Q THEN Ok(root, "void")                       \* same link: nothing to do
            ELSE IF qpar.k # "dir" \/ par.ro \/ qpar.ro THEN Fail(root)
            ELSE IF IsProperPrefix(P, Q) THEN Fail(root)              \* into its own subtree
            ELSE IF node.k = "file" THEN
                   IF qnode.k = "dir" THEN Fail(root) ELSE Ok(Put(Del(root, P), Q, node), "void")
            ELSE \* a directory
                 IF qnode.k = "file" THEN Fail(root)
                 ELSE IF qnode.k = "dir" /\ DOMAIN qnode.ch # {} THEN Fail(root)
                 ELSE IF Parent(P) # Parent(Q) /\ node.ro THEN Fail(root)   \* `..' must be rewritten
                 ELSE Ok(Put(Del(root, P), Q, node), "void")

(***************************************************************************)
(* Well-formedness of a tree: files have content and no children, children  *)
(* listed in a directory are nodes themselves; bounded depth.               *)
(***************************************************************************)
RECURSIVE WellFormedNode(_, _)
WellFormedNode(n, depth) ==
  /\ depth >= 0
  /\ \/ /\ n.k = "file" /\ DOMAIN n = {"k", "c"} /\ n.c \in Contents
     \/ /\ n.k = "dir" /\ DOMAIN n = {"k", "ro", "ch"} /\ n.ro \in BOOLEAN
        /\ DOMAIN n.ch \subseteq {"p", "q", "d", "x"}
        /\ \A x \in DOMAIN n.ch : WellFormedNode(n.ch[x], depth - 1)

\* flat listing of a tree: <<[p |-> "d/x", k |-> "file", c |-> "a"], ...>> in a canonical order
NameOrder == <<"d", "p", "q", "x">>
RECURSIVE Flatten(_, _)
Flatten(n, prefix) ==
  LET RECURSIVE Go(_)
      Go(i) == IF i > Len(NameOrder) THEN <<>>
               ELSE LET x == NameOrder[i] IN
                    IF x \notin DOMAIN n.ch THEN Go(i + 1)
                    ELSE LET c == n.ch[x]
                             path == IF prefix = "" THEN x ELSE prefix \o "/" \o x
                         IN IF c.k = "file" THEN <<[p |-> path, k |-> "file", c |-> c.c, ro |-> FALSE]>> \o Go(i + 1)
                            ELSE <<[p |-> path, k |-> "dir", c |-> "", ro |-> c.ro]>> \o Flatten(c, path) \o Go(i + 1)
  IN Go(1)
=============================================================================
