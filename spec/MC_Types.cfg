SPECIFICATION Spec
CONSTANTS
  Chunks = 16
  Thorough = FALSE
INVARIANTS
  InvReflexive
  InvTransitive
  InvVariance
  InvUnion
  InvMeet
  InvValueSound
  InvFolds
  InvValues
POSTCONDITION Emit
CHECK_DEADLOCK FALSE
