SPECIFICATION Spec
CONSTANTS
  Chunks = 16
INVARIANTS
  TraceInv
POSTCONDITION AllSeen
CHECK_DEADLOCK FALSE
