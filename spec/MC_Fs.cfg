SPECIFICATION Spec
CONSTANTS
  Depth = 2
INVARIANTS
  InvWellFormed
  InvFailNoChange
  InvReturns
  InvLaws
POSTCONDITION Emit
CHECK_DEADLOCK FALSE
