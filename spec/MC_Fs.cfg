SPECIFICATION Spec
CONSTANTS
  Depth = 2
  EmitDepth = 3
  MoreInits = FALSE
INVARIANTS
  InvWellFormed
  InvFailNoChange
  InvReturns
  InvLaws
POSTCONDITION Emit
CHECK_DEADLOCK FALSE
