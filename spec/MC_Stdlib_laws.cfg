SPECIFICATION Spec
CONSTANTS
  NL = 2
  Mode = "laws"
  Chunks = 64
  Thorough = FALSE
INVARIANTS
  InvLaws
  InvStart
  InvCases
  InvTable
POSTCONDITION Emit
CHECK_DEADLOCK FALSE
