SPECIFICATION Spec
CONSTANTS
  Chunks = 8
INVARIANTS
  TypeTestLaw
POSTCONDITION Emit
CHECK_DEADLOCK FALSE
