------------------------------- MODULE Stdlib -------------------------------
(***************************************************************************)
(* C18 - the standard library: the export table of docs/stdlib.md (name,    *)
(* declared parameter types, declared result type, as Types.tla records),   *)
(* reference definitions of the pure helpers on modelled values, and the    *)
(* judgement `Judge' that says whether an observed result of a call is      *)
(* acceptable: a member of the declared result type (Types!Member: by tag   *)
(* and by content) and, for the pure helpers, what the documentation        *)
(* states: len, conversions, parse_int, the string helpers, bit counting,   *)
(* byte swap, bit reversal, ilog*, float classification / to_bits /         *)
(* from_bits / rounding of exact half-integers, the constants, and the      *)
(* std.operators folds over array iterators (wrapping + and *, & | && ||,   *)
(* string concatenation).  Everything else is judged by type only.          *)
(*                                                                           *)
(* Values are Types.tla values with these payloads:                         *)
(*   int     [k |-> "int", l |-> <<b1..bNL>>]  little-endian 8-bit limbs,    *)
(*           two's complement; NL = 8 is SimpleSL's int, NL = 2 is the small *)
(*           width on which TLC compares every limb definition with TLC's    *)
(*           own integers exhaustively                                      *)
(*   float   [k |-> "float", bl |-> <<8 limbs>>]  the IEEE-754 binary64 bit  *)
(*           pattern.  Only the *representation* is modelled (sign, class,  *)
(*           exactly representable half-integers); no arithmetic.           *)
(*   string  [k |-> "string", cps |-> <<Unicode scalar values>>]             *)
(*   array / tuple / struct / cell / fnv / bool / void as in Types.tla       *)
(***************************************************************************)
EXTENDS Types

CONSTANT NL      \* number of 8-bit limbs of an int

W == 8 * NL

SumOver(F(_), lo, hi) ==
  LET RECURSIVE S(_)
      S(i) == IF i > hi THEN 0 ELSE F(i) + S(i + 1)
  IN S(lo)

(***************************************************************************)
(* Bit sequences over limbs (independent of NL: used for ints and floats).  *)
(***************************************************************************)
BitAt(l, i) == (l[(i \div 8) + 1] \div (2 ^ (i % 8))) % 2
FromBitFn(b(_), n) == [j \in 1..n |-> SumOver(LAMBDA i : b(8 * (j - 1) + i) * (2 ^ i), 0, 7)]
OnesIdx(l)  == {i \in 0..(8 * Len(l) - 1) : BitAt(l, i) = 1}
ZerosIdx(l) == {i \in 0..(8 * Len(l) - 1) : BitAt(l, i) = 0}

(***************************************************************************)
(* Integers.                                                                *)
(***************************************************************************)
IntL(l)  == [k |-> "int", l |-> l]
VoidV    == [k |-> "void"]
BoolV(b) == [k |-> "bool", v |-> b]
ZeroL == [j \in 1..NL |-> 0]
MaxL  == [j \in 1..NL |-> IF j = NL THEN 127 ELSE 255]
MinL  == [j \in 1..NL |-> IF j = NL THEN 128 ELSE 0]
IsNegL(l) == l[NL] >= 128

RECURSIVE NatDigits(_, _)
NatDigits(n, j) == IF j > NL THEN <<>> ELSE <<n % 256>> \o NatDigits(n \div 256, j + 1)
NatL(n) == NatDigits(n, 1)                       \* 0 <= n < 2^31
NotL(l) == [j \in 1..NL |-> 255 - l[j]]
AddSmallL(l, c) ==                               \* (l + c) mod 2^W for a small natural c
  LET RECURSIVE A(_, _)
      A(j, carry) == IF j > NL THEN <<>>
                     ELSE LET s == l[j] + carry IN <<s % 256>> \o A(j + 1, s \div 256)
  IN A(1, c)
NegL(l) == AddSmallL(NotL(l), 1)
FromNative(n) == IF n >= 0 THEN NatL(n) ELSE NegL(NatL(-n))
IntV(n) == IntL(FromNative(n))

\* the ints whose value lies in -2^23 .. 2^23 - 1 (every int when NL <= 3)
IsSmallL(l) == IF NL <= 3 THEN TRUE
               ELSE /\ \A j \in 4..NL : l[j] = (IF IsNegL(l) THEN 255 ELSE 0)
                    /\ (l[3] >= 128) = IsNegL(l)
NatOfL(l) == SumOver(LAMBDA j : l[j] * (256 ^ (j - 1)), 1, IF NL < 3 THEN NL ELSE 3)
ToNative(l) == IF IsNegL(l) THEN -NatOfL(NegL(l)) ELSE NatOfL(l)     \* for IsSmallL(l)

\* --- bit counting, byte swap, bit reversal: definitions over the bit sequence
CountOnes(l)     == SumOver(LAMBDA i : BitAt(l, i), 0, W - 1)
CountZeros(l)    == Cardinality(ZerosIdx(l))
LeadingZeros(l)  == IF OnesIdx(l) = {} THEN W ELSE W - 1 - Max(OnesIdx(l))
TrailingZeros(l) == IF OnesIdx(l) = {} THEN W ELSE Min(OnesIdx(l))
LeadingOnes(l)   == IF ZerosIdx(l) = {} THEN W ELSE W - 1 - Max(ZerosIdx(l))
TrailingOnes(l)  == IF ZerosIdx(l) = {} THEN W ELSE Min(ZerosIdx(l))
SwapBytes(l)     == [j \in 1..NL |-> l[NL + 1 - j]]
ReverseBits(l)   == FromBitFn(LAMBDA i : BitAt(l, W - 1 - i), NL)

\* --- unsigned arithmetic on NL limbs (for ilog and parse_int)
UMul(a, b) ==                                    \* 2*NL limbs, schoolbook
  LET Col(c) == SumOver(LAMBDA i : IF c - i \in 0..(NL - 1) THEN a[i + 1] * b[c - i + 1] ELSE 0, 0, NL - 1)
      RECURSIVE C(_, _)
      C(c, carry) == IF c = 2 * NL THEN <<>>
                     ELSE LET s == Col(c) + carry IN <<s % 256>> \o C(c + 1, s \div 256)
  IN C(0, 0)
LowHalf(q)  == SubSeq(q, 1, NL)
HighZero(q) == \A j \in (NL + 1)..(2 * NL) : q[j] = 0
ULe(a, b) ==                                     \* a <= b as unsigned numbers
  LET RECURSIVE Cmp(_)
      Cmp(j) == IF j = 0 THEN TRUE
                ELSE IF a[j] < b[j] THEN TRUE
                ELSE IF a[j] > b[j] THEN FALSE ELSE Cmp(j - 1)
  IN Cmp(NL)

\* wrapping (two's complement) sum and product, bitwise and / or: what + * & | are on ints
AddL(a, b) ==
  LET RECURSIVE A(_, _)
      A(j, carry) == IF j > NL THEN <<>>
                     ELSE LET s2 == a[j] + b[j] + carry IN <<s2 % 256>> \o A(j + 1, s2 \div 256)
  IN A(1, 0)
MulL(a, b) == LowHalf(UMul(a, b))
AndL(a, b) == FromBitFn(LAMBDA i : BitAt(a, i) * BitAt(b, i), NL)
OrL(a, b)  == FromBitFn(LAMBDA i : IF BitAt(a, i) + BitAt(b, i) > 0 THEN 1 ELSE 0, NL)
AllOnesL == [j \in 1..NL |-> 255]
FoldL(Op(_, _), init, es) ==                    \* left fold over the ints of an array value
  LET RECURSIVE Fo(_, _)
      Fo(acc, i) == IF i > Len(es) THEN acc ELSE Fo(Op(acc, es[i].l), i + 1)
  IN Fo(init, 1)

\* ilog: the k with base^k <= num < base^(k+1); none unless num > 0 and base >= 2
ILogL(n, b) ==
  IF IsNegL(n) \/ n = ZeroL \/ IsNegL(b) \/ ~ULe(NatL(2), b) THEN None
  ELSE LET RECURSIVE It(_, _)
           It(p, c) == LET q == UMul(p, b) IN
                       IF HighZero(q) /\ ULe(LowHalf(q), n) THEN It(LowHalf(q), c + 1) ELSE c
       IN [k |-> "some", v |-> It(NatL(1), 0)]
OptIntV(o) == IF IsNone(o) THEN VoidV ELSE IntV(o.v)

\* parse_int: [+-]? [0-9]+ , nothing else (no blanks, no `_'), value within the int range
IsDigit(c) == c \in 48..57
ParseIntCps(s) ==
  LET signed == Len(s) > 0 /\ s[1] \in {43, 45}
      neg    == Len(s) > 0 /\ s[1] = 45
      ds     == IF signed THEN Tail(s) ELSE s
      \* magnitude with a sticky overflow flag: [l, ovf]
      RECURSIVE Acc(_, _, _)
      Acc(i, l, ovf) ==
        IF i > Len(ds) THEN [l |-> l, ovf |-> ovf]
        ELSE IF ovf THEN Acc(i + 1, l, TRUE)
        ELSE LET RECURSIVE M(_, _)      \* l * 10 + digit, NL + 1 limbs
                 M(j, carry) == IF j > NL THEN <<carry>>
                                ELSE LET s2 == l[j] * 10 + carry IN <<s2 % 256>> \o M(j + 1, s2 \div 256)
                 r == M(1, ds[i] - 48)
             IN Acc(i + 1, SubSeq(r, 1, NL), r[NL + 1] # 0)
  IN IF ds = <<>> \/ \E i \in 1..Len(ds) : ~IsDigit(ds[i]) THEN VoidV
     ELSE LET m == Acc(1, ZeroL, FALSE) IN
          IF m.ovf THEN VoidV
          ELSE IF ~neg THEN (IF m.l[NL] < 128 THEN IntL(m.l) ELSE VoidV)
          ELSE IF m.l[NL] < 128 \/ m.l = MinL THEN IntL(NegL(m.l)) ELSE VoidV

(***************************************************************************)
(* Floats: representation only.  bl = the 8 limbs of the binary64 pattern.  *)
(***************************************************************************)
FloatB(bl) == [k |-> "float", bl |-> bl]
FSign(bl)  == BitAt(bl, 63)
FExp(bl)   == SumOver(LAMBDA i : BitAt(bl, 52 + i) * (2 ^ i), 0, 10)
FMantZero(bl) == \A i \in 0..51 : BitAt(bl, i) = 0
FIsNan(bl)       == FExp(bl) = 2047 /\ ~FMantZero(bl)
FIsInfinite(bl)  == FExp(bl) = 2047 /\ FMantZero(bl)
FIsFinite(bl)    == FExp(bl) # 2047
FIsZero(bl)      == FExp(bl) = 0 /\ FMantZero(bl)
FIsSubnormal(bl) == FExp(bl) = 0 /\ ~FMantZero(bl)
FIsNormal(bl)    == FExp(bl) \in 1..2046

\* the pattern of the half-integer h/2, 0 < |h| < 2^24 (exact in binary64); h = 0 is +0.0
MsbOf(n) == CHOOSE m \in 0..24 : 2 ^ m <= n /\ n < 2 ^ (m + 1)
FloatOfHalf(h) ==
  IF h = 0 THEN [j \in 1..8 |-> 0]
  ELSE LET a == IF h < 0 THEN -h ELSE h
           m == MsbOf(a)
           e == m - 1 + 1023                      \* value = a * 2^-1 = 1.xxx * 2^(m-1)
           B(i) == IF i = 63 THEN (IF h < 0 THEN 1 ELSE 0)
                   ELSE IF i >= 52 THEN (e \div (2 ^ (i - 52))) % 2
                   ELSE IF i >= 52 - m THEN (a \div (2 ^ (i - (52 - m)))) % 2   \* bits below the msb
                   ELSE 0
       IN FromBitFn(B, 8)
FloatH(h) == FloatB(FloatOfHalf(h))
\* the inverse on the same domain: none unless bl is +-0 or a half-integer with |h| < 2^24
HalfOfFloat(bl) ==
  IF FIsZero(bl) THEN [k |-> "some", h |-> 0, neg |-> FSign(bl) = 1]
  ELSE IF ~FIsNormal(bl) THEN None
  ELSE LET m == FExp(bl) - 1023 + 1 IN           \* msb position of a = 2 * |value|
       IF m < 0 \/ m > 23 THEN None
       ELSE IF \E i \in 0..(51 - m) : BitAt(bl, i) = 1 THEN None     \* finer than one half
       ELSE LET a == (2 ^ m) + SumOver(LAMBDA i : BitAt(bl, 52 - m + i) * (2 ^ i), 0, m - 1)
            IN [k |-> "some", h |-> IF FSign(bl) = 1 THEN -a ELSE a, neg |-> FSign(bl) = 1]

TruncHalf(h) == IF h >= 0 THEN h \div 2 ELSE -((-h) \div 2)          \* towards zero
FloorHalf(h) == h \div 2                                             \* TLA+ \div floors
CeilHalf(h)  == -((-h) \div 2)
RoundHalf(h) == IF h % 2 = 0 THEN h \div 2                           \* ties away from zero
                ELSE IF h > 0 THEN (h + 1) \div 2 ELSE (h - 1) \div 2
RoundEvenHalf(h) == IF h % 2 = 0 THEN h \div 2
                    ELSE LET lo == h \div 2 IN IF lo % 2 = 0 THEN lo ELSE lo + 1

(***************************************************************************)
(* Strings: sequences of Unicode scalar values.                             *)
(***************************************************************************)
StrV(cps) == [k |-> "string", cps |-> cps]
IsScalar(c) == c \in 0..55295 \/ c \in 57344..1114111
ArrV(tag, es) == [k |-> "array", tag |-> tag, es |-> es]

MatchAt(s, p, i) == i + Len(p) - 1 <= Len(s) /\ SubSeq(s, i, i + Len(p) - 1) = p
FindFrom(s, p, i) ==                              \* first match position >= i, 0 if none (p # <<>>)
  LET c == {j \in i..(Len(s) - Len(p) + 1) : MatchAt(s, p, j)} IN IF c = {} THEN 0 ELSE Min(c)
StrContains(s, p)   == \E i \in 1..(Len(s) + 1) : MatchAt(s, p, i)
StrStartsWith(s, p) == MatchAt(s, p, 1)
StrEndsWith(s, p)   == Len(p) <= Len(s) /\ SubSeq(s, Len(s) - Len(p) + 1, Len(s)) = p

RECURSIVE StrSplit(_, _)                          \* p # <<>>: leftmost, non-overlapping
StrSplit(s, p) ==
  LET i == FindFrom(s, p, 1) IN
  IF i = 0 THEN <<s>>
  ELSE <<SubSeq(s, 1, i - 1)>> \o StrSplit(SubSeq(s, i + Len(p), Len(s)), p)
RECURSIVE StrJoin(_, _)
StrJoin(ps, sep) == IF Len(ps) = 0 THEN <<>>
                    ELSE IF Len(ps) = 1 THEN ps[1]
                    ELSE ps[1] \o sep \o StrJoin(Tail(ps), sep)
RECURSIVE StrReplace(_, _, _)                     \* f # <<>>
StrReplace(s, f, t) ==
  LET i == FindFrom(s, f, 1) IN
  IF i = 0 THEN s
  ELSE SubSeq(s, 1, i - 1) \o t \o StrReplace(SubSeq(s, i + Len(f), Len(s)), f, t)
StrChars(s) == [i \in 1..Len(s) |-> <<s[i]>>]

\* UTF-8 (RFC 3629)
Utf8Enc(c) ==
  IF c < 128 THEN <<c>>
  ELSE IF c < 2048 THEN <<192 + (c \div 64), 128 + (c % 64)>>
  ELSE IF c < 65536 THEN <<224 + (c \div 4096), 128 + ((c \div 64) % 64), 128 + (c % 64)>>
  ELSE <<240 + (c \div 262144), 128 + ((c \div 4096) % 64), 128 + ((c \div 64) % 64), 128 + (c % 64)>>
RECURSIVE Utf8Bytes(_)
Utf8Bytes(s) == IF s = <<>> THEN <<>> ELSE Utf8Enc(Head(s)) \o Utf8Bytes(Tail(s))
\* decoder: none unless every element is a byte and the sequence is the UTF-8 form of a string
\* (a code point counts only in its canonical encoding, which excludes over-long forms,
\* surrogates and values above U+10FFFF)
IsCont(b) == b \in 128..191
RECURSIVE Utf8Dec(_)
Utf8Dec(bs) ==
  IF bs = <<>> THEN [k |-> "some", cps |-> <<>>]
  ELSE LET b == bs[1]
           n == IF b \in 0..127 THEN 1 ELSE IF b \in 192..223 THEN 2
                ELSE IF b \in 224..239 THEN 3 ELSE IF b \in 240..247 THEN 4 ELSE 0
       IN IF n = 0 \/ Len(bs) < n \/ \E i \in 2..n : ~IsCont(bs[i]) THEN None
          ELSE LET c == CASE n = 1 -> b
                          [] n = 2 -> (b - 192) * 64 + (bs[2] - 128)
                          [] n = 3 -> (b - 224) * 4096 + (bs[2] - 128) * 64 + (bs[3] - 128)
                          [] n = 4 -> (b - 240) * 262144 + (bs[2] - 128) * 4096 + (bs[3] - 128) * 64 + (bs[4] - 128)
               IN IF ~IsScalar(c) \/ Utf8Enc(c) # SubSeq(bs, 1, n) THEN None
                  ELSE LET r == Utf8Dec(SubSeq(bs, n + 1, Len(bs))) IN
                       IF IsNone(r) THEN None ELSE [k |-> "some", cps |-> <<c>> \o r.cps]

\* Unicode White_Space
IsWs(c) == c \in 9..13 \/ c \in {32, 133, 160, 5760, 8232, 8233, 8239, 8287, 12288} \/ c \in 8192..8202
RECURSIVE StrTrimStart(_)
StrTrimStart(s) == IF s # <<>> /\ IsWs(Head(s)) THEN StrTrimStart(Tail(s)) ELSE s
RECURSIVE StrTrimEnd(_)
StrTrimEnd(s) == IF s # <<>> /\ IsWs(s[Len(s)]) THEN StrTrimEnd(SubSeq(s, 1, Len(s) - 1)) ELSE s
StrTrim(s) == StrTrimEnd(StrTrimStart(s))
IsAscii(s) == \A i \in 1..Len(s) : s[i] < 128
AsciiLower(s) == [i \in 1..Len(s) |-> IF s[i] \in 65..90 THEN s[i] + 32 ELSE s[i]]
AsciiUpper(s) == [i \in 1..Len(s) |-> IF s[i] \in 97..122 THEN s[i] - 32 ELSE s[i]]

\* cgetline: stdin is a byte sequence; one call consumes through the first line feed (or everything)
\* and returns the text without the line feed; a line that is not UTF-8 is an operating-system
\* style failure (the error struct); at end of input the empty string.
ReadLine(bytes) ==
  LET nl == {i \in 1..Len(bytes) : bytes[i] = 10}
      n  == IF nl = {} THEN Len(bytes) ELSE Min(nl)
      line == SubSeq(bytes, 1, n)
      d == Utf8Dec(line)
  IN [rest |-> SubSeq(bytes, n + 1, Len(bytes)),
      res  |-> IF IsNone(d) THEN [k |-> "err"]
               ELSE [k |-> "exact", v |-> StrV(SelectSeq(d.cps, LAMBDA c : c # 10))]]
RECURSIVE ReadLines(_, _)
ReadLines(bytes, n) == IF n = 0 THEN <<>>
                       ELSE LET r == ReadLine(bytes) IN <<r.res>> \o ReadLines(r.rest, n - 1)

(***************************************************************************)
(* The export table.  Names are qualified paths below `std'.                *)
(*                                                                           *)
(* Source: the headings of docs/stdlib.md.  Where a heading is evidently a  *)
(* slip of the pen the table follows the text below the heading / the       *)
(* section's evident intent; every such reading is listed in DocReadings so *)
(* that it is visible (they are reported, not silently absorbed).           *)
(***************************************************************************)
ErrT == Struct("error_code" :> TInt @@ "msg" :> TString)
IoRes(t) == Multi({t, ErrT})
Opt(t)  == Multi({t, TVoid})
IterT(t) == Fn(<<>>, Tup(<<TBool, t>>))
F(name, ps, r) == [name |-> name, kind |-> "fn", ps |-> ps, r |-> r]
Cst(name, t)   == [name |-> name, kind |-> "const", ps |-> <<>>, r |-> t]
IntFloatT == Multi({TInt, TFloat})

FloatFns1 == <<"floor", "ceil", "round", "round_ties_even", "trunc", "fract", "ln", "log2", "log10",
               "sin", "cos", "tan", "asin", "acos", "atan", "exp_m1", "ln_1p", "sinh", "cosh", "tanh",
               "asinh", "acosh", "atanh">>
FloatPreds == <<"is_nan", "is_infinite", "is_finite", "is_normal", "is_subnormal",
                "is_sign_positive", "is_sign_negative">>
IntFns1 == <<"count_ones", "count_zeros", "leading_zeroes", "trailing_zeroes", "leading_ones",
             "trailing_ones", "swap_bytes", "reverse_bits">>
FsFns1 == <<"remove_file", "remove_dir", "remove_dir_all", "create_dir", "create_dir_all">>

Exports ==
  <<F("std.len", <<Multi({Arr(TAny), TString})>>, TInt),
    F("std.convert.to_float", <<IntFloatT>>, TFloat),
    F("std.convert.to_int", <<IntFloatT>>, TInt),
    F("std.convert.parse_int", <<TString>>, Opt(TInt)),
    F("std.convert.parse_float", <<TString>>, Opt(TFloat)),
    F("std.convert.to_string", <<TAny>>, TString),
    F("std.fs.file_read_to_string", <<TString>>, IoRes(TString)),
    F("std.fs.write_to_file", <<TString, TString>>, IoRes(TVoid)),
    F("std.fs.copy_file", <<TString, TString>>, IoRes(TVoid)),
    F("std.fs.rename", <<TString, TString>>, IoRes(TVoid))>>
  \o [i \in 1..Len(FsFns1) |-> F("std.fs." \o FsFns1[i], <<TString>>, IoRes(TVoid))]
  \o <<F("std.io.print", <<TAny>>, TVoid),
       F("std.io.print_array", <<Arr(TAny), TString>>, TVoid),
       F("std.io.cgetline", <<>>, IoRes(TString)),
       F("std.string.split", <<TString, TString>>, Arr(TString)),
       F("std.string.replace", <<TString, TString, TString>>, TString),
       F("std.string.contains", <<TString, TString>>, TBool),
       F("std.string.starts_with", <<TString, TString>>, TBool),
       F("std.string.ends_with", <<TString, TString>>, TBool),
       F("std.string.chars", <<TString>>, Arr(TString)),
       F("std.string.bytes", <<TString>>, Arr(TInt)),
       F("std.string.str_from_utf8", <<Arr(TInt)>>, Opt(TString)),
       F("std.string.str_from_utf8_lossy", <<Arr(TInt)>>, TString),
       F("std.string.to_lowercase", <<TString>>, TString),
       F("std.string.to_uppercase", <<TString>>, TString),
       F("std.string.trim", <<TString>>, TString),
       F("std.string.trim_start", <<TString>>, TString),
       F("std.string.trim_end", <<TString>>, TString),
       Cst("std.math.MIN_INT", TInt), Cst("std.math.MAX_INT", TInt),
       Cst("std.math.E", TFloat), Cst("std.math.PI", TFloat)>>
  \o [i \in 1..Len(IntFns1) |-> F("std.math." \o IntFns1[i], <<TInt>>, TInt)]
  \o <<F("std.math.ilog", <<TInt, TInt>>, Opt(TInt)),
       F("std.math.ilog2", <<TInt>>, Opt(TInt)),
       F("std.math.ilog10", <<TInt>>, Opt(TInt)),
       F("std.math.log", <<TFloat, TFloat>>, TFloat),
       F("std.math.atan2", <<TFloat, TFloat>>, TFloat),
       F("std.math.to_bits", <<TFloat>>, TInt),
       F("std.math.from_bits", <<TInt>>, TFloat)>>
  \o [i \in 1..Len(FloatFns1) |-> F("std.math." \o FloatFns1[i], <<TFloat>>, TFloat)]
  \o [i \in 1..Len(FloatPreds) |-> F("std.math." \o FloatPreds[i], <<TFloat>>, TBool)]
  \o <<F("std.operators.bitand_reduce", <<IterT(TInt)>>, TInt),
       F("std.operators.bitor_reduce", <<IterT(TInt)>>, TInt),
       F("std.operators.all", <<IterT(TBool)>>, TBool),
       F("std.operators.any", <<IterT(TBool)>>, TBool),
       F("std.operators.int_product", <<IterT(TInt)>>, TInt),
       F("std.operators.float_product", <<IterT(TFloat)>>, TFloat),
       F("std.operators.int_sum", <<IterT(TInt)>>, TInt),
       F("std.operators.float_sum", <<IterT(TFloat)>>, TFloat),
       F("std.operators.string_sum", <<IterT(TString)>>, TString)>>

\* heading in docs/stdlib.md  |->  how the table reads it
DocReadings ==
  <<[doc |-> "second heading `parse_int(string: string) -> float|()'", read |-> "std.convert.parse_float"],
    [doc |-> "second heading `create_dir(path: string)' (`This will create all parents directories')", read |-> "std.fs.create_dir_all"],
    [doc |-> "`renames(from: string, to: string)'", read |-> "std.fs.rename"],
    [doc |-> "`cgetline() -> string'", read |-> "string|struct{error_code: int, msg: string} (C18: input functions return the error struct on failure)"],
    [doc |-> "`print(var: any)' / `print_array(array: [any], sep: string)' without result", read |-> "result ()"],
    [doc |-> "`str_from_utf8(string: string)' / `str_from_utf8_lossy(string: string)' (`Converts array of bytes')", read |-> "parameter [int]"],
    [doc |-> "`leading_zeros' / `trailing_zeros'", read |-> "std.math.leading_zeroes / std.math.trailing_zeroes (the exported names)"],
    [doc |-> "`ilog(num: int)' (`with respect to an arbitrary base')", read |-> "std.math.ilog(num: int, base: int)"],
    [doc |-> "`tangent(angle: float)'", read |-> "std.math.tan"],
    [doc |-> "`atan(num1: float, num2: float)'", read |-> "std.math.atan2"],
    [doc |-> "second heading `to_bits(num: float) -> int'", read |-> "std.math.from_bits(num: int) -> float"]>>

ExportNames == {Exports[i].name : i \in 1..Len(Exports)}
Export(name) == Exports[CHOOSE i \in 1..Len(Exports) : Exports[i].name = name]
TableWellFormed == Cardinality(ExportNames) = Len(Exports)

(***************************************************************************)
(* What the documentation states for a call: [k |-> "exact", v |-> V],      *)
(* [k |-> "join"] (split on the empty pattern: the pieces joined give the   *)
(* string back) or [k |-> "type"] (only the declared result type).          *)
(***************************************************************************)
OperatorFns == {"std.operators.all", "std.operators.any", "std.operators.bitand_reduce", "std.operators.bitor_reduce",
                "std.operators.int_sum", "std.operators.int_product", "std.operators.string_sum",
                "std.operators.float_sum", "std.operators.float_product"}
Exact(v) == [k |-> "exact", v |-> v]
TypeOnly == [k |-> "type"]
StrArr(ss) == ArrV(TString, [i \in 1..Len(ss) |-> StrV(ss[i])])
IntArr(ns) == ArrV(TInt, [i \in 1..Len(ns) |-> IntV(ns[i])])

RoundingPred(fn, bl) ==
  LET d == HalfOfFloat(bl) IN
  IF IsNone(d) THEN TypeOnly
  ELSE LET r == CASE fn = "floor" -> FloorHalf(d.h) [] fn = "ceil" -> CeilHalf(d.h)
                  [] fn = "round" -> RoundHalf(d.h) [] fn = "round_ties_even" -> RoundEvenHalf(d.h)
                  [] fn = "trunc" -> TruncHalf(d.h)
       IN IF r = 0 THEN TypeOnly ELSE Exact(FloatH(2 * r))     \* sign of a zero result: IEEE, not modelled

Pred(name, a) ==
  CASE name = "std.len" -> Exact(IntV(IF a[1].k = "string" THEN Len(a[1].cps) ELSE Len(a[1].es)))
    [] name = "std.convert.to_int" ->
         IF a[1].k = "int" THEN Exact(a[1])
         ELSE LET d == HalfOfFloat(a[1].bl) IN IF IsNone(d) THEN TypeOnly ELSE Exact(IntV(TruncHalf(d.h)))
    [] name = "std.convert.to_float" ->
         IF a[1].k = "float" THEN Exact(a[1])
         ELSE IF IsSmallL(a[1].l) THEN Exact(FloatH(2 * ToNative(a[1].l))) ELSE TypeOnly
    [] name = "std.convert.parse_int" -> Exact(ParseIntCps(a[1].cps))
    [] name = "std.convert.to_string" -> IF a[1].k = "string" THEN Exact(a[1]) ELSE TypeOnly
    [] name = "std.string.split" ->
         IF a[2].cps = <<>> THEN [k |-> "join"] ELSE Exact(StrArr(StrSplit(a[1].cps, a[2].cps)))
    [] name = "std.string.replace" ->
         IF a[2].cps = <<>> THEN TypeOnly ELSE Exact(StrV(StrReplace(a[1].cps, a[2].cps, a[3].cps)))
    [] name = "std.string.contains" -> Exact(BoolV(StrContains(a[1].cps, a[2].cps)))
    [] name = "std.string.starts_with" -> Exact(BoolV(StrStartsWith(a[1].cps, a[2].cps)))
    [] name = "std.string.ends_with" -> Exact(BoolV(StrEndsWith(a[1].cps, a[2].cps)))
    [] name = "std.string.chars" -> Exact(StrArr(StrChars(a[1].cps)))
    [] name = "std.string.bytes" -> Exact(IntArr(Utf8Bytes(a[1].cps)))
    [] name \in {"std.string.str_from_utf8", "std.string.str_from_utf8_lossy"} ->
         LET es == a[1].es
             isByte(i) == IsSmallL(es[i].l) /\ ToNative(es[i].l) \in 0..255
             d == IF \A i \in 1..Len(es) : isByte(i)
                  THEN Utf8Dec([i \in 1..Len(es) |-> ToNative(es[i].l)]) ELSE None
         IN IF name = "std.string.str_from_utf8"
            THEN Exact(IF IsNone(d) THEN VoidV ELSE StrV(d.cps))
            ELSE IF IsNone(d) THEN TypeOnly ELSE Exact(StrV(d.cps))
    [] name = "std.string.to_lowercase" -> IF IsAscii(a[1].cps) THEN Exact(StrV(AsciiLower(a[1].cps))) ELSE TypeOnly
    [] name = "std.string.to_uppercase" -> IF IsAscii(a[1].cps) THEN Exact(StrV(AsciiUpper(a[1].cps))) ELSE TypeOnly
    [] name = "std.string.trim" -> Exact(StrV(StrTrim(a[1].cps)))
    [] name = "std.string.trim_start" -> Exact(StrV(StrTrimStart(a[1].cps)))
    [] name = "std.string.trim_end" -> Exact(StrV(StrTrimEnd(a[1].cps)))
    [] name = "std.math.count_ones" -> Exact(IntV(CountOnes(a[1].l)))
    [] name = "std.math.count_zeros" -> Exact(IntV(CountZeros(a[1].l)))
    [] name = "std.math.leading_zeroes" -> Exact(IntV(LeadingZeros(a[1].l)))
    [] name = "std.math.trailing_zeroes" -> Exact(IntV(TrailingZeros(a[1].l)))
    [] name = "std.math.leading_ones" -> Exact(IntV(LeadingOnes(a[1].l)))
    [] name = "std.math.trailing_ones" -> Exact(IntV(TrailingOnes(a[1].l)))
    [] name = "std.math.swap_bytes" -> Exact(IntL(SwapBytes(a[1].l)))
    [] name = "std.math.reverse_bits" -> Exact(IntL(ReverseBits(a[1].l)))
    [] name = "std.math.ilog" -> Exact(OptIntV(ILogL(a[1].l, a[2].l)))
    [] name = "std.math.ilog2" -> Exact(OptIntV(ILogL(a[1].l, NatL(2))))
    [] name = "std.math.ilog10" -> Exact(OptIntV(ILogL(a[1].l, NatL(10))))
    [] name = "std.math.to_bits" -> IF NL = 8 THEN Exact(IntL(a[1].bl)) ELSE TypeOnly
    [] name = "std.math.from_bits" -> IF NL = 8 THEN Exact(FloatB(a[1].l)) ELSE TypeOnly
    [] name = "std.math.is_nan" -> Exact(BoolV(FIsNan(a[1].bl)))
    [] name = "std.math.is_infinite" -> Exact(BoolV(FIsInfinite(a[1].bl)))
    [] name = "std.math.is_finite" -> Exact(BoolV(FIsFinite(a[1].bl)))
    [] name = "std.math.is_normal" -> Exact(BoolV(FIsNormal(a[1].bl)))
    [] name = "std.math.is_subnormal" -> Exact(BoolV(FIsSubnormal(a[1].bl)))
    [] name = "std.math.is_sign_positive" -> Exact(BoolV(FSign(a[1].bl) = 0))
    [] name = "std.math.is_sign_negative" -> Exact(BoolV(FSign(a[1].bl) = 1))
    [] name = "std.math.floor" -> RoundingPred("floor", a[1].bl)
    [] name = "std.math.ceil" -> RoundingPred("ceil", a[1].bl)
    [] name = "std.math.round" -> RoundingPred("round", a[1].bl)
    [] name = "std.math.round_ties_even" -> RoundingPred("round_ties_even", a[1].bl)
    [] name = "std.math.trunc" -> RoundingPred("trunc", a[1].bl)
    \* std.operators.f(it) is documented as `it $op'; for an iterator over an array (it = array~) that is
    \* the fold of the operator over the elements
    [] name \in OperatorFns /\ "of" \in DOMAIN a[1] ->
         LET es == a[1].of.es IN
         CASE name = "std.operators.all" -> Exact(BoolV(\A i \in 1..Len(es) : es[i].v))
           [] name = "std.operators.any" -> Exact(BoolV(\E i \in 1..Len(es) : es[i].v))
           [] name = "std.operators.bitand_reduce" -> Exact(IntL(FoldL(AndL, AllOnesL, es)))
           [] name = "std.operators.bitor_reduce" -> Exact(IntL(FoldL(OrL, ZeroL, es)))
           [] name = "std.operators.int_sum" -> Exact(IntL(FoldL(AddL, ZeroL, es)))
           [] name = "std.operators.int_product" -> Exact(IntL(FoldL(MulL, NatL(1), es)))
           [] name = "std.operators.string_sum" -> Exact(StrV(FlattenSeq([i \in 1..Len(es) |-> es[i].cps])))
           [] OTHER -> TypeOnly                  \* float_sum / float_product: IEEE arithmetic
    [] name = "std.math.MIN_INT" -> Exact(IntL(MinL))
    [] name = "std.math.MAX_INT" -> Exact(IntL(MaxL))
    \* the binary64 nearest to pi / e (given facts about the constants, not computed)
    [] name = "std.math.PI" -> IF NL = 8 THEN Exact(FloatB(<<24, 45, 68, 84, 251, 33, 9, 64>>)) ELSE TypeOnly
    [] name = "std.math.E" -> IF NL = 8 THEN Exact(FloatB(<<105, 87, 20, 139, 10, 191, 5, 64>>)) ELSE TypeOnly
    [] OTHER -> TypeOnly

(***************************************************************************)
(* Wire <-> Types.tla values (JSON arrays arrive as tuples, struct fields   *)
(* as <<name, x>> pairs, union members as a tuple).                         *)
(***************************************************************************)
FieldNamesOf(fs) == {fs[i][1] : i \in 1..Len(fs)}
FieldOf(fs, f) == fs[CHOOSE i \in 1..Len(fs) : fs[i][1] = f][2]

RECURSIVE TypeOfWire(_)
TypeOfWire(w) ==
  CASE w.k = "array"  -> Arr(TypeOfWire(w.e))
    [] w.k = "mut"    -> MutT(TypeOfWire(w.e))
    [] w.k = "tuple"  -> Tup([i \in 1..Len(w.es) |-> TypeOfWire(w.es[i])])
    [] w.k = "fn"     -> Fn([i \in 1..Len(w.ps) |-> TypeOfWire(w.ps[i])], TypeOfWire(w.r))
    [] w.k = "struct" -> Struct([f \in FieldNamesOf(w.fs) |-> TypeOfWire(FieldOf(w.fs, f))])
    [] w.k = "multi"  -> Multi({TypeOfWire(w.ms[i]) : i \in 1..Len(w.ms)})
    [] OTHER -> Base(w.k)

RECURSIVE ValOfWire(_)
ValOfWire(w) ==
  CASE w.k = "array"  -> ArrV(TypeOfWire(w.tag), [i \in 1..Len(w.es) |-> ValOfWire(w.es[i])])
    [] w.k = "tuple"  -> [k |-> "tuple", es |-> [i \in 1..Len(w.es) |-> ValOfWire(w.es[i])]]
    [] w.k = "struct" -> [k |-> "struct", fs |-> [f \in FieldNamesOf(w.fs) |-> ValOfWire(FieldOf(w.fs, f))]]
    [] w.k = "cell"   -> [k |-> "cell", ty |-> TypeOfWire(w.ty), c |-> ValOfWire(w.c)]
    [] w.k = "fnv"    -> IF "of" \in DOMAIN w
                         THEN [k |-> "fnv", sig |-> TypeOfWire(w.sig), src |-> w.src, of |-> ValOfWire(w.of)]
                         ELSE [k |-> "fnv", sig |-> TypeOfWire(w.sig)]
    [] w.k = "int"    -> IntL(w.l)
    [] w.k = "float"  -> FloatB(w.bl)
    [] w.k = "string" -> StrV(w.cps)
    [] OTHER -> w

RECURSIVE WireOfType(_)
WireOfType(t) ==
  CASE t.k = "array"  -> [k |-> "array", e |-> WireOfType(t.e)]
    [] t.k = "mut"    -> [k |-> "mut", e |-> WireOfType(t.e)]
    [] t.k = "tuple"  -> [k |-> "tuple", es |-> [i \in 1..Len(t.es) |-> WireOfType(t.es[i])]]
    [] t.k = "fn"     -> [k |-> "fn", ps |-> [i \in 1..Len(t.ps) |-> WireOfType(t.ps[i])], r |-> WireOfType(t.r)]
    [] t.k = "struct" -> [k |-> "struct", fs |-> SetToSeq({<<f, WireOfType(t.fs[f])>> : f \in DOMAIN t.fs})]
    [] t.k = "multi"  -> [k |-> "multi", ms |-> SetToSeq({WireOfType(m) : m \in t.ms})]
    [] OTHER -> t

\* argument values may carry construction hints for the harness (fnv: src, of); they are kept
RECURSIVE WireOfVal(_)
WireOfVal(v) ==
  CASE v.k = "array"  -> [k |-> "array", tag |-> WireOfType(v.tag), es |-> [i \in 1..Len(v.es) |-> WireOfVal(v.es[i])]]
    [] v.k = "tuple"  -> [k |-> "tuple", es |-> [i \in 1..Len(v.es) |-> WireOfVal(v.es[i])]]
    [] v.k = "struct" -> [k |-> "struct", fs |-> SetToSeq({<<f, WireOfVal(v.fs[f])>> : f \in DOMAIN v.fs})]
    [] v.k = "cell"   -> [k |-> "cell", ty |-> WireOfType(v.ty), c |-> WireOfVal(v.c)]
    [] v.k = "fnv"    -> IF "of" \in DOMAIN v
                         THEN [k |-> "fnv", sig |-> WireOfType(v.sig), src |-> v.src, of |-> WireOfVal(v.of)]
                         ELSE [k |-> "fnv", sig |-> WireOfType(v.sig), src |-> v.src]
    [] OTHER -> v

(***************************************************************************)
(* The judgement.  Array tags are not part of a documented result: compare  *)
(* contents.                                                                *)
(***************************************************************************)
RECURSIVE Strip(_)
Strip(v) ==
  CASE v.k = "array"  -> [k |-> "array", es |-> [i \in 1..Len(v.es) |-> Strip(v.es[i])]]
    [] v.k = "tuple"  -> [k |-> "tuple", es |-> [i \in 1..Len(v.es) |-> Strip(v.es[i])]]
    [] v.k = "struct" -> [k |-> "struct", fs |-> [f \in DOMAIN v.fs |-> Strip(v.fs[f])]]
    [] OTHER -> v

Ok == [ok |-> TRUE]
Bad(why) == [ok |-> FALSE, why |-> why]
\* out: [k |-> "value", v |-> V] | [k |-> "panic"|"error"|"rejected", msg |-> ...]
Judge(name, args, out) ==
  LET e == Export(name) IN
  IF out.k # "value" THEN Bad(out.k)
  ELSE IF ~Member(out.v, e.r) THEN Bad("not a member of the declared result type")
  ELSE LET p == Pred(name, args) IN
       CASE p.k = "exact" -> IF Strip(out.v) = Strip(p.v) THEN Ok
                             ELSE [ok |-> FALSE, why |-> "differs from the documented result", expected |-> WireOfVal(p.v)]
         [] p.k = "join" ->
              IF StrJoin([i \in 1..Len(out.v.es) |-> out.v.es[i].cps], <<>>) = args[1].cps
              THEN Ok ELSE Bad("the pieces do not join to the string")
         [] OTHER -> Ok

ArgsAdmitted(name, args) ==
  LET e == Export(name) IN
  Len(args) = Len(e.ps) /\ \A i \in 1..Len(args) : Member(args[i], e.ps[i])

=============================================================================
