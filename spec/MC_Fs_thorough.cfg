SPECIFICATION Spec
CONSTANTS
  Depth = 3
  EmitDepth = 3
INVARIANTS
  InvWellFormed
  InvFailNoChange
  InvReturns
  InvLaws
POSTCONDITION Emit
CHECK_DEADLOCK FALSE
