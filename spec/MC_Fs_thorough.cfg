SPECIFICATION Spec
CONSTANTS
  Depth = 3
  EmitDepth = 3
  MoreInits = TRUE
INVARIANTS
  InvWellFormed
  InvFailNoChange
  InvReturns
  InvLaws
POSTCONDITION Emit
CHECK_DEADLOCK FALSE
