----------------------------- MODULE MC_Conc -----------------------------
(***************************************************************************)
(* Bounded models of Conc (C16) and the emission of their cases for replay. *)
(* `Config` names a program space:                                          *)
(*   ops      2 threads, 1 int cell, all 12 assignment operators (one       *)
(*            succeeding and one failing operand where failure exists), *c  *)
(*   cells    2 threads, 2 int cells (shared and unshared use)              *)
(*   render   2 threads, cell s: mut any (holding an int, itself, or c) and *)
(*            c: mut int; s = s, s = c, s = 1, render s, render c, *s       *)
(*   t3 / t3x 3 threads, 1 int cell, 1 / up to 2 operations each            *)
(*   inc      T threads, K increments each                                  *)
(*   f17      the two-thread program that hung the code before df0b31e      *)
(*   split    two increments (for the SplitGuards alternative)              *)
(*   live     a small mixed space for the liveness check                    *)
(* Every terminal state is checked against the atomic reference             *)
(* (OutcomeIsSerial); Emit writes each case with the reference's outcome    *)
(* set, which the harness compares with what the implementation produces.   *)
(***************************************************************************)
EXTENDS Conc, Json, IOUtils, SequencesExt

CONSTANTS Config, T, K, Thorough

MCThreads == 1..T

MCCells == CASE Config \in {"ops", "t3", "t3x", "inc", "split"} -> {"c"}
             [] Config \in {"cells", "chain"} -> {"c", "d"}
             [] Config \in {"render", "f17", "live"} -> {"c", "s"}

MCCellType == [x \in MCCells |-> IF x = "s" THEN "any" ELSE "int"]

MCInitSpace ==
  CASE Config \in {"ops", "split"} -> {[x \in MCCells |-> I(6)]}
    [] Config \in {"t3", "t3x"} -> {[x \in MCCells |-> I(1)]}
    [] Config = "inc" -> {[x \in MCCells |-> I(0)]}
    [] Config \in {"cells", "chain"} -> {[x \in MCCells |-> IF x = "c" THEN I(6) ELSE I(3)]}
    [] Config = "render" -> {[x \in MCCells |-> IF x = "c" THEN I(5) ELSE s] : s \in {I(0), R("s"), R("c")}}
    [] Config \in {"f17", "live"} -> {[x \in MCCells |-> IF x = "c" THEN I(5) ELSE R("s")]}

SeqsUpTo(A, n) == UNION {[1..m -> A] : m \in 1..n}

OpsFull == {Asg("c", "+", I(1)), Asg("c", "-", I(2)), Asg("c", "*", I(3)), Asg("c", "/", I(-2)),
            Asg("c", "/", I(0)), Asg("c", "%", I(4)), Asg("c", "%", I(0)), Asg("c", "**", I(2)),
            Asg("c", "**", I(-1)), Asg("c", "<<", I(1)), Asg("c", "<<", I(64)), Asg("c", ">>", I(1)),
            Asg("c", ">>", I(-1)), Asg("c", "&", I(-4)), Asg("c", "|", I(9)), Asg("c", "^", I(5)),
            Asg("c", "=", I(7)), Deref("c")}
OpsSmall == {Asg("c", "+", I(1)), Asg("c", "*", I(3)), Asg("c", "/", I(0)), Deref("c")}

OpsCells == {Asg("c", "+", I(1)), Asg("c", "*", I(2)), Asg("c", "/", I(0)), Deref("c"),
             Asg("d", "+", I(1)), Asg("d", "*", I(2)), Asg("d", "%", I(0)), Deref("d")}

OpsRender == {Asg("s", "=", R("s")), Asg("s", "=", R("c")), Asg("s", "=", I(1)), Render("s"), Deref("s"),
              Asg("c", "+", I(1)), Render("c")}

OpsRenderSmall == {Asg("s", "=", R("s")), Render("s"), Asg("c", "+", I(1))}

OpsLive == {Asg("s", "=", R("s")), Render("s"), Asg("c", "+", I(1)), Asg("c", "/", I(0)), Deref("c")}

OpsT3 == {Asg("c", "+", I(1)), Asg("c", "*", I(2)), Asg("c", "/", I(0)), Deref("c")}

\* unordered tuples of programs (threads are interchangeable): index-sorted
Pairs(P) == LET s == SetToSeq(P) IN UNION {{<<s[i], s[j]>> : j \in i..Len(s)} : i \in 1..Len(s)}
Triples(P) == LET s == SetToSeq(P) IN
   UNION {UNION {{<<s[i], s[j], s[l]>> : l \in j..Len(s)} : j \in i..Len(s)} : i \in 1..Len(s)}

IncProg == [n \in 1..K |-> Asg("c", "+", I(1))]
\* the chained assignment `x = y = n' is the assignment `y = n' followed by `x = n' (the inner assignment is the value of the
\* outer one): two separate atomic updates, never two cells locked at once.  The harness writes these programs as ONE
\* chained statement per thread.
Chain(x, y, n) == <<Asg(y, "=", I(n)), Asg(x, "=", I(n))>>

MCProgSpace ==
  CASE Config = "ops" ->
         IF Thorough THEN {<<p, q>> : p \in SeqsUpTo(OpsFull, 2), q \in SeqsUpTo(OpsFull, 1) \cup SeqsUpTo(OpsSmall, 2)}
         ELSE {<<p, q>> : p \in SeqsUpTo(OpsFull, 2), q \in SeqsUpTo(OpsSmall, 1)}
              \cup Pairs(SeqsUpTo(OpsSmall, 2))
    [] Config = "cells" ->
         IF Thorough THEN Pairs(SeqsUpTo(OpsCells, 2))
         ELSE {<<p, q>> : p \in SeqsUpTo(OpsCells, 2), q \in SeqsUpTo(OpsCells, 1)}
    [] Config = "render" ->
         IF Thorough THEN {<<p, q>> : p \in SeqsUpTo(OpsRender, 2), q \in SeqsUpTo(OpsRender, 1) \cup SeqsUpTo(OpsRenderSmall, 2)}
         ELSE {<<p, q>> : p \in SeqsUpTo(OpsRender, 2), q \in SeqsUpTo(OpsRender, 1)}
    [] Config = "t3" -> Triples(SeqsUpTo(OpsT3, 1)) \cup {[t \in 1..3 |-> [n \in 1..2 |-> Asg("c", "+", I(1))]]}
    [] Config = "t3x" -> Triples(SeqsUpTo(OpsT3, 2))
    [] Config = "inc" -> {[t \in 1..T |-> IncProg]}
    [] Config = "chain" -> {<<Chain("c", "d", 1), Chain("d", "c", 2)>>, <<Chain("c", "d", 1), Chain("c", "d", 2)>>,
                            <<Chain("d", "c", 1), Chain("d", "c", 2)>>, <<Chain("c", "d", 1), <<Asg("c", "+", I(1))>>>>,
                            <<Chain("c", "d", 1), <<Asg("d", "*", I(2)), Deref("c")>>>>, <<Chain("c", "c", 1), Chain("c", "c", 2)>>}
    [] Config = "f17" -> {<<<<Asg("s", "=", R("s"))>>, <<Render("s")>>>>,
                          <<<<Asg("s", "=", R("s")), Asg("s", "=", R("s"))>>, <<Render("s"), Render("s")>>>>}
    [] Config = "split" -> {<<<<Asg("c", "+", I(1))>>, <<Asg("c", "+", I(1))>>>>}
    [] Config = "live" ->
         IF Thorough THEN Pairs(SeqsUpTo(OpsLive, 2))
         ELSE {<<p, q>> : p \in SeqsUpTo(OpsLive, 2), q \in SeqsUpTo(OpsLive, 1)}

(***************************************************************************)
(* Emission (POSTCONDITION): every case of the space with the outcomes the  *)
(* atomic reference allows.                                                 *)
(***************************************************************************)
Out == IOEnv.VERIF_OUT

CaseSeq == SetToSeq(MCProgSpace \X MCInitSpace)

\* every serial order of the atomic operations with the outcome it gives (forced schedules);
\* ord = the thread that takes the next atomic step
RECURSIVE OrdersFrom(_, _, _)
OrdersFrom(p, cf, ord) ==
  LET live == {t \in DOMAIN p : ~ADone(p, cf, t)} IN
  IF live = {} THEN {[ord |-> ord, out |-> OutcomeOf(cf.val, cf.res)]}
  ELSE UNION {OrdersFrom(p, AStep(p, cf, t), Append(ord, t)) : t \in live}
WithOrders == Config \in {"ops", "cells", "t3", "t3x"}

Emit ==
  /\ TLCGet("stats").distinct > 0
  /\ ndJsonSerialize(Out \o "/conc_cases_" \o Config \o ".ndjson",
        [n \in 1..Len(CaseSeq) |->
           LET p == CaseSeq[n][1]
               i == CaseSeq[n][2]
           IN [id |-> n, config |-> Config, progs |-> p, init |-> i, types |-> MCCellType, chained |-> (Config = "chain"),
               depth |-> RenderDepth,
               outcomes |-> SetToSeq(SerialOutcomes(p, i)),
               orders |-> IF WithOrders THEN SetToSeq(OrdersFrom(p, AInit(p, i), <<>>)) ELSE <<>>]])
  /\ PrintT(<<"CASES", Config, Len(CaseSeq)>>)

NoEmit == TLCGet("stats").distinct > 0
=============================================================================
