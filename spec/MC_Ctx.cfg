SPECIFICATION Spec
CONSTANTS
  Chunks = 8
  PerCase = 1
INVARIANTS
  CtxLaw
POSTCONDITION Emit
CHECK_DEADLOCK FALSE
