SPECIFICATION Spec
CONSTANTS
  Chunks = 8
  PerCase = 2
INVARIANTS
  CtxLaw
POSTCONDITION Emit
CHECK_DEADLOCK FALSE
