-------------------------------- MODULE Prec --------------------------------
(***************************************************************************)
(* C14 -- operator precedence and associativity of SimpleSL, as documented  *)
(* in docs/operators.md (14 levels).                                        *)
(*                                                                           *)
(*  1. Table        the precedence table as a constant: operator ->          *)
(*                  level, fixity; associativity per level                   *)
(*  2. Group(ts)    declarative grouping of a flat token sequence            *)
(*                  `[pre] operand post* (bin [pre] operand post* )*' into    *)
(*                  the fully parenthesised tree the table prescribes         *)
(*  3. Admissible   the same statement as a predicate on trees (a tree is     *)
(*                  admissible iff no operator has, on an open side, an       *)
(*                  operand whose exposed operators bind looser); the law     *)
(*                  UniqueAdmissible says the table determines exactly one    *)
(*                  tree, and it is Group's                                   *)
(*  4. Machine      precedence climbing as a shift/reduce transition system   *)
(*                  that consumes the tokens one by one (third formulation)   *)
(*  5. Lex(chars)   maximal munch over the operator alphabet: "multi-        *)
(*                  character operators are never split"                     *)
(*  6. Ev           evaluation of grouped trees over small values (ints,      *)
(*                  bools, mutable cells, int/bool arrays, iterators, a few   *)
(*                  named functions) -- used to choose operands for which     *)
(*                  different groupings are observably different and to       *)
(*                  predict the value of the prescribed one                   *)
(*                                                                           *)
(* Tokens are records [t |-> "opd"|"pre"|"bin"|"post", s |-> name, l |->       *)
(* level, x |-> source text]; `name' is the operator's source text without   *)
(* white space (what the conformance harness reads off the real parser's     *)
(* pairs).  TLC cannot index strings, so the pure operator symbols are given *)
(* with their sequences of characters.                                       *)
(*                                                                           *)
(* Two TLC facts shape the module: a definition is evaluated once and kept   *)
(* only if no RECURSIVE operator is involved in it, and only if no formal    *)
(* parameter in it is spelled like a state variable of the model that        *)
(* extends this module (hence the models' variables are called vCase ...).   *)
(***************************************************************************)
EXTENDS Integers, Sequences, FiniteSets, SequencesExt, FiniteSetsExt, TLC

RECURSIVE Cat(_)
Cat(cs) == IF cs = <<>> THEN "" ELSE Head(cs) \o Cat(Tail(cs))

RECURSIVE CatSep(_, _)
CatSep(ss, sep) == IF ss = <<>> THEN ""
                   ELSE IF Len(ss) = 1 THEN ss[1]
                   ELSE ss[1] \o sep \o CatSep(Tail(ss), sep)

(***************************************************************************)
(* 1. The table.  `src' says where the row comes from: "table" = a row of    *)
(* docs/operators.md; "statement" = named by the property statement /        *)
(* docs/iterators.md but not a row of the table (slicing, tuple and field    *)
(* access, collect).  Sym = a pure operator symbol given with its            *)
(* characters (takes part in Lex); Form = an operator that embeds operands   *)
(* (`[i]', `$ init', `? type' ...): n = name without blanks, txt = source.   *)
(***************************************************************************)
Sym(n, cs, fix, lvl, src) ==
  [n |-> n, txt |-> n, cs |-> cs, fix |-> fix, lvl |-> lvl, src |-> src]
Form(n, txt, fix, lvl, src) ==
  [n |-> n, txt |-> txt, cs |-> <<>>, fix |-> fix, lvl |-> lvl, src |-> src]

Table == <<
  \* level 1: indexing, slicing, call, tuple / field access, `? type'
  Form("[i]", "[i]", "post", 1, "table"),
  Form("[i:j]", "[i : j]", "post", 1, "statement"),
  Form("(i)", "(i)", "post", 1, "table"),
  Form(".0", ".0", "post", 1, "statement"),
  Form(".x", ".x", "post", 1, "statement"),
  Form("?int", "? int", "post", 1, "table"),
  \* level 2: prefix operators
  Sym("!", <<"!">>, "pre", 2, "table"),
  Sym("-", <<"-">>, "pre", 2, "table"),
  Sym("*", <<"*">>, "pre", 2, "table"),
  \* level 3: iterator operators
  Sym("@", <<"@">>, "bin", 3, "table"),
  Sym("?", <<"?">>, "bin", 3, "table"),
  Sym("\\", <<"\\">>, "bin", 3, "table"),
  Form("$i", "$ i", "bin", 3, "table"),
  \* the same operator with an initial value that begins with a prefix operator (`$ *c f': the content of a cell,
  \* `$ -i f'): the blank after `$' keeps `$ *' from being read as the product operator `$*'
  Form("$*c", "$ *c", "bin", 3, "statement"),
  Form("$-i", "$ -i", "bin", 3, "statement"),
  \* `$ expression function': the initial value is an EXPRESSION — `$ i + j f' starts from i + j
  Form("$i+j", "$ i + j", "bin", 3, "statement"),
  Sym("$+", <<"$", "+">>, "post", 3, "table"),
  Sym("$*", <<"$", "*">>, "post", 3, "table"),
  Sym("$&&", <<"$", "&", "&">>, "post", 3, "table"),
  Sym("$||", <<"$", "|", "|">>, "post", 3, "table"),
  Sym("$&", <<"$", "&">>, "post", 3, "table"),
  Sym("$|", <<"$", "|">>, "post", 3, "table"),
  Sym("$]", <<"$", "]">>, "post", 3, "statement"),
  Sym("~", <<"~">>, "post", 3, "table"),
  \* levels 4 .. 13
  Sym("**", <<"*", "*">>, "bin", 4, "table"),
  Sym("*", <<"*">>, "bin", 5, "table"),
  Sym("/", <<"/">>, "bin", 5, "table"),
  Sym("%", <<"%">>, "bin", 5, "table"),
  Sym("+", <<"+">>, "bin", 6, "table"),
  Sym("-", <<"-">>, "bin", 6, "table"),
  Sym("<<", <<"<", "<">>, "bin", 7, "table"),
  Sym(">>", <<">", ">">>, "bin", 7, "table"),
  Sym("&", <<"&">>, "bin", 8, "table"),
  Sym("^", <<"^">>, "bin", 9, "table"),
  Sym("|", <<"|">>, "bin", 10, "table"),
  Sym("==", <<"=", "=">>, "bin", 11, "table"),
  Sym("!=", <<"!", "=">>, "bin", 11, "table"),
  Sym("<", <<"<">>, "bin", 11, "table"),
  Sym("<=", <<"<", "=">>, "bin", 11, "table"),
  Sym(">", <<">">>, "bin", 11, "table"),
  Sym(">=", <<">", "=">>, "bin", 11, "table"),
  Sym("&&", <<"&", "&">>, "bin", 12, "table"),
  Sym("||", <<"|", "|">>, "bin", 13, "table"),
  \* level 14: assignments
  Sym("=", <<"=">>, "bin", 14, "table"),
  Sym("+=", <<"+", "=">>, "bin", 14, "table"),
  Sym("-=", <<"-", "=">>, "bin", 14, "table"),
  Sym("*=", <<"*", "=">>, "bin", 14, "table"),
  Sym("/=", <<"/", "=">>, "bin", 14, "table"),
  Sym("%=", <<"%", "=">>, "bin", 14, "table"),
  Sym("**=", <<"*", "*", "=">>, "bin", 14, "table"),
  Sym("&=", <<"&", "=">>, "bin", 14, "table"),
  Sym("|=", <<"|", "=">>, "bin", 14, "table"),
  Sym("^=", <<"^", "=">>, "bin", 14, "table"),
  Sym("<<=", <<"<", "<", "=">>, "bin", 14, "table"),
  Sym(">>=", <<">", ">", "=">>, "bin", 14, "table")
>>

TableSet == {Table[i] : i \in 1..Len(Table)}
Levels == 1..14
\* "Left-to-right" everywhere except level 2 (prefix) and level 14 (assignments)
Assoc(lvl) == IF lvl \in {2, 14} THEN "right" ELSE "left"

OfFix(f) == {e \in TableSet : e.fix = f}
BinOps == SelectSeq(Table, LAMBDA e : e.fix = "bin")
PreOps == SelectSeq(Table, LAMBDA e : e.fix = "pre")
PostOps == SelectSeq(Table, LAMBDA e : e.fix = "post")
BinNames == {e.n : e \in OfFix("bin")}
PreNames == {e.n : e \in OfFix("pre")}
PostNames == {e.n : e \in OfFix("post")}
AssignNames == {e.n : e \in {x \in OfFix("bin") : x.lvl = 14}}
Row(fix, name) == CHOOSE e \in TableSet : e.fix = fix /\ e.n = name

\* the table is a function: one row per (fixity, name); a symbol's name is its characters
TableIsFunction == Cardinality({<<e.fix, e.n>> : e \in TableSet}) = Len(Table)
NamesAreChars == \A e \in TableSet : e.cs # <<>> => Cat(e.cs) = e.n

\* tokens carry their level (l) and their source text (x)
Opd(name) == [t |-> "opd", s |-> name, l |-> 0, x |-> name]
Tok(e) == [t |-> e.fix, s |-> e.n, l |-> e.lvl, x |-> e.txt]
TokOf(fix, name) == Tok(Row(fix, name))
IsOp(tk) == tk.t # "opd"
Lvl(tk) == tk.l
SrcText(tk) == tk.x

(***************************************************************************)
(* Well-formed token sequences: [pre] operand post* (bin [pre] operand       *)
(* post* )*.  The grammar admits one prefix operator per operand.            *)
(* Determined: where a level-1 postfix form follows a level-3 postfix        *)
(* operator (`a ~ [i]'), no prefix operator and no level-3 binary operator   *)
(* stands in front of that operand.  In `- a ~ [i]' and `a @ b ~ [i]' the     *)
(* tightest operator comes last and can only apply to everything before it,  *)
(* so "split at the loosest operator" (Group) has no reading for them; the   *)
(* module leaves these shapes out rather than prescribe one.                 *)
(***************************************************************************)
RECURSIVE WFFrom(_, _, _)
WFFrom(ts, i, st) ==
  IF i > Len(ts) THEN st = "O"
  ELSE LET k == ts[i].t IN
       CASE st = "E" -> \/ k = "pre" /\ WFFrom(ts, i + 1, "P")
                        \/ k = "opd" /\ WFFrom(ts, i + 1, "O")
         [] st = "P" -> k = "opd" /\ WFFrom(ts, i + 1, "O")
         [] st = "O" -> \/ k = "post" /\ WFFrom(ts, i + 1, "O")
                        \/ k = "bin" /\ WFFrom(ts, i + 1, "E")
WellFormed(ts) == Len(ts) > 0 /\ WFFrom(ts, 1, "E")

Determined(ts) ==
  \A i \in 1..(Len(ts) - 1) :
     (ts[i].t = "post" /\ ts[i + 1].t = "post" /\ Lvl(ts[i]) = 3 /\ Lvl(ts[i + 1]) = 1) =>
        LET j == Max({x \in 1..i : ts[x].t = "opd"})     \* the operand this postfix run belongs to
        IN j = 1 \/ (ts[j - 1].t = "bin" /\ Lvl(ts[j - 1]) >= 4)

\* Three shapes the table does not settle (outside this module):
\*  `a ? ! b'   the documentation's level-1 form `? type' with the type `!' (never) competes with
\*              the filter operator followed by NOT;
\*  `a $ i - b', `a $ i * b'   the documentation gives `$ initial_value function' with an
\*              expression as initial value, so a following `-' / `*' continues the initial value.
\*  `a ? int | ! b'   `int | !' is a union type (`!' = never), so the type filter's type competes
\*              with bitwise OR followed by NOT.
UnsettledPrefixAfter(binName) == IF binName = "?" THEN {"!"}
                                 ELSE IF binName \in {"$i", "$*c", "$-i", "$i+j"} THEN {"-", "*"} ELSE {}
Settled(ts) ==
  /\ \A i \in 1..(Len(ts) - 1) :
        (ts[i].t = "bin" /\ ts[i + 1].t = "pre") => ts[i + 1].s \notin UnsettledPrefixAfter(ts[i].s)
  /\ \A i \in 1..(Len(ts) - 2) :
        ~(ts[i].t = "post" /\ ts[i].s = "?int" /\ ts[i + 1].t = "bin" /\ ts[i + 1].s = "|"
          /\ ts[i + 2].t = "pre" /\ ts[i + 2].s = "!")
InDomain(ts) == WellFormed(ts) /\ Determined(ts) /\ Settled(ts)

(***************************************************************************)
(* Trees: every node keeps its token in `o'.                                 *)
(***************************************************************************)
Leaf(tk) == [k |-> "leaf", o |-> tk]
Bin(tk, l, r) == [k |-> "bin", o |-> tk, l |-> l, r |-> r]
Pre(tk, e) == [k |-> "pre", o |-> tk, e |-> e]
Post(tk, e) == [k |-> "post", o |-> tk, e |-> e]

RECURSIVE Show(_)
Show(t) ==
  CASE t.k = "leaf" -> t.o.s
    [] t.k = "bin" -> "(" \o Show(t.l) \o " " \o t.o.s \o " " \o Show(t.r) \o ")"
    [] t.k = "pre" -> "(" \o t.o.s \o Show(t.e) \o ")"
    [] t.k = "post" -> "(" \o Show(t.e) \o t.o.s \o ")"

\* source text of a tree with every operator application parenthesised
RECURSIVE ShowSrc(_)
ShowSrc(t) ==
  CASE t.k = "leaf" -> t.o.x
    [] t.k = "bin" -> "(" \o ShowSrc(t.l) \o " " \o t.o.x \o " " \o ShowSrc(t.r) \o ")"
    [] t.k = "pre" -> "(" \o t.o.x \o " " \o ShowSrc(t.e) \o ")"
    [] t.k = "post" -> "(" \o ShowSrc(t.e) \o " " \o t.o.x \o ")"

RECURSIVE Toks(_)
Toks(t) ==
  CASE t.k = "leaf" -> <<t.o>>
    [] t.k = "bin" -> Toks(t.l) \o <<t.o>> \o Toks(t.r)
    [] t.k = "pre" -> <<t.o>> \o Toks(t.e)
    [] t.k = "post" -> Toks(t.e) \o <<t.o>>

RECURSIVE Size(_)
Size(t) == CASE t.k = "leaf" -> 1
             [] t.k = "bin" -> 1 + Size(t.l) + Size(t.r)
             [] OTHER -> 1 + Size(t.e)

(***************************************************************************)
(* 2. Group: split at the loosest operator that can be the root; among      *)
(* those of the loosest level take the rightmost for left-associative       *)
(* levels and the leftmost for right-associative ones.  GroupSplitOk: both  *)
(* sides of every split are again well-formed.                              *)
(***************************************************************************)
\* an operator can be the root only if it has room for its operands: a binary operator anywhere,
\* a prefix operator in first position, a postfix operator in last position
Candidates(ts) == {i \in 1..Len(ts) : \/ ts[i].t = "bin"
                                        \/ (ts[i].t = "pre" /\ i = 1)
                                        \/ (ts[i].t = "post" /\ i = Len(ts))}
LoosestLevel(ts) == Max({Lvl(ts[i]) : i \in Candidates(ts)})
SplitAt(ts) ==
  LET L == LoosestLevel(ts)
      c == {i \in Candidates(ts) : Lvl(ts[i]) = L}
  IN IF Assoc(L) = "right" THEN Min(c) ELSE Max(c)

RECURSIVE Group(_)
Group(ts) ==
  IF Len(ts) = 1 THEN Leaf(ts[1])
  ELSE LET i == SplitAt(ts)
           n == Len(ts)
       IN CASE ts[i].t = "bin" -> Bin(ts[i], Group(SubSeq(ts, 1, i - 1)), Group(SubSeq(ts, i + 1, n)))
            [] ts[i].t = "pre" -> Pre(ts[i], Group(SubSeq(ts, 2, n)))
            [] ts[i].t = "post" -> Post(ts[i], Group(SubSeq(ts, 1, n - 1)))

RECURSIVE GroupSplitOk(_)
GroupSplitOk(ts) ==
  IF Len(ts) = 1 THEN ts[1].t = "opd"
  ELSE LET i == SplitAt(ts)
           n == Len(ts)
       IN CASE ts[i].t = "bin" -> i > 1 /\ i < n /\ GroupSplitOk(SubSeq(ts, 1, i - 1))
                                   /\ GroupSplitOk(SubSeq(ts, i + 1, n))
            [] ts[i].t = "pre" -> i = 1 /\ GroupSplitOk(SubSeq(ts, 2, n))
            [] ts[i].t = "post" -> i = n /\ GroupSplitOk(SubSeq(ts, 1, n - 1))
            [] OTHER -> FALSE

(***************************************************************************)
(* 3. Admissible trees.  An operator is right-open if it expects an operand  *)
(* on its right (binary, prefix), left-open if on its left (binary,          *)
(* postfix).  The operators exposed on the right edge of a left operand are  *)
(* the right-open operators on its right spine; they must bind tighter than  *)
(* the parent, or equally tight on a left-associative level -- and           *)
(* symmetrically.                                                            *)
(***************************************************************************)
RECURSIVE AllTrees(_)
AllTrees(ts) ==
  LET n == Len(ts) IN
  IF n = 0 THEN {}
  ELSE IF n = 1 THEN (IF ts[1].t = "opd" THEN {Leaf(ts[1])} ELSE {})
  ELSE LET bins == UNION {{Bin(ts[i], l, r) : l \in AllTrees(SubSeq(ts, 1, i - 1)),
                                             r \in AllTrees(SubSeq(ts, i + 1, n))} :
                          i \in {j \in 2..(n - 1) : ts[j].t = "bin"}}
           pres == IF ts[1].t = "pre" THEN {Pre(ts[1], e) : e \in AllTrees(SubSeq(ts, 2, n))} ELSE {}
           posts == IF ts[n].t = "post" THEN {Post(ts[n], e) : e \in AllTrees(SubSeq(ts, 1, n - 1))} ELSE {}
       IN bins \cup pres \cup posts

NodeLvl(t) == t.o.l

RECURSIVE RightOpen(_)
RightOpen(t) == CASE t.k = "bin" -> {NodeLvl(t)} \cup RightOpen(t.r)
                  [] t.k = "pre" -> {NodeLvl(t)} \cup RightOpen(t.e)
                  [] OTHER -> {}
RECURSIVE LeftOpen(_)
LeftOpen(t) == CASE t.k = "bin" -> {NodeLvl(t)} \cup LeftOpen(t.l)
                 [] t.k = "post" -> {NodeLvl(t)} \cup LeftOpen(t.e)
                 [] OTHER -> {}

MayBeLeftOperand(y, L) == y < L \/ (y = L /\ Assoc(L) = "left")
MayBeRightOperand(y, L) == y < L \/ (y = L /\ Assoc(L) = "right")

RECURSIVE Admissible(_)
Admissible(t) ==
  CASE t.k = "leaf" -> TRUE
    [] t.k = "bin" -> /\ Admissible(t.l) /\ Admissible(t.r)
                      /\ \A y \in RightOpen(t.l) : MayBeLeftOperand(y, NodeLvl(t))
                      /\ \A y \in LeftOpen(t.r) : MayBeRightOperand(y, NodeLvl(t))
    [] t.k = "pre" -> Admissible(t.e) /\ \A y \in LeftOpen(t.e) : MayBeRightOperand(y, NodeLvl(t))
    [] t.k = "post" -> Admissible(t.e) /\ \A y \in RightOpen(t.e) : MayBeLeftOperand(y, NodeLvl(t))

UniqueAdmissible(ts) == {t \in AllTrees(ts) : Admissible(t)} = {Group(ts)}

(***************************************************************************)
(* 4. The machine: precedence climbing with an operand stack and a stack of *)
(* pending right-open operators.  A pending operator is reduced before the  *)
(* next left-open operator is taken when it binds tighter, or equally tight *)
(* on a left-associative level; at the end everything is reduced.           *)
(***************************************************************************)
MInit(ts) == [opds |-> <<>>, ops |-> <<>>, rest |-> ts]
MDone(m) == m.rest = <<>> /\ m.ops = <<>>

MustReduce(m) ==
  IF m.ops = <<>> THEN FALSE
  ELSE IF m.rest = <<>> THEN TRUE
  ELSE IF Head(m.rest).t \in {"bin", "post"}
       THEN LET lt == Lvl(Last(m.ops))
                ln == Lvl(Head(m.rest))
            IN lt < ln \/ (lt = ln /\ Assoc(lt) = "left")
       ELSE FALSE

MReduce(m) ==
  LET op == Last(m.ops)
      n == Len(m.opds)
  IN IF op.t = "bin"
     THEN [m EXCEPT !.ops = Front(m.ops),
                    !.opds = SubSeq(m.opds, 1, n - 2) \o <<Bin(op, m.opds[n - 1], m.opds[n])>>]
     ELSE [m EXCEPT !.ops = Front(m.ops),
                    !.opds = SubSeq(m.opds, 1, n - 1) \o <<Pre(op, m.opds[n])>>]

MShift(m) ==
  LET tk == Head(m.rest)
      n == Len(m.opds)
  IN CASE tk.t = "opd" -> [m EXCEPT !.rest = Tail(m.rest), !.opds = Append(m.opds, Leaf(tk))]
       [] tk.t = "post" -> [m EXCEPT !.rest = Tail(m.rest),
                                     !.opds = SubSeq(m.opds, 1, n - 1) \o <<Post(tk, m.opds[n])>>]
       [] OTHER -> [m EXCEPT !.rest = Tail(m.rest), !.ops = Append(m.ops, tk)]

\* number of tokens held by a machine state
RECURSIVE SizeSum(_, _)
SizeSum(opds, i) == IF i = 0 THEN 0 ELSE Size(opds[i]) + SizeSum(opds, i - 1)
MCount(m) == Len(m.rest) + Len(m.ops) + SizeSum(m.opds, Len(m.opds))

\* the same machine run to completion as a function (used where no state space is wanted)
RECURSIVE MRun(_)
MRun(m) == IF MDone(m) THEN m.opds[1]
           ELSE IF MustReduce(m) THEN MRun(MReduce(m)) ELSE MRun(MShift(m))
Climb(ts) == MRun(MInit(ts))

(***************************************************************************)
(* 5. Lex: maximal munch over the pure operator symbols.                     *)
(***************************************************************************)
SymRows == {[n |-> e.n, cs |-> e.cs] : e \in {x \in TableSet : x.cs # <<>>}}   \* `*' `-' once
SymSet == {e.cs : e \in SymRows}
SymNames == {e.n : e \in SymRows}
NameOfSym(cs) == (CHOOSE e \in SymRows : e.cs = cs).n

MatchesAt(cs, chars, i) ==
  /\ i + Len(cs) - 1 <= Len(chars)
  /\ \A j \in 1..Len(cs) : chars[i + j - 1] = cs[j]

LongestAt(chars, i) ==
  LET M == {cs \in SymSet : MatchesAt(cs, chars, i)}
  IN IF M = {} THEN <<>> ELSE CHOOSE cs \in M : \A o \in M : Len(o) <= Len(cs)

RECURSIVE LexFrom(_, _)
LexFrom(chars, i) ==
  IF i > Len(chars) THEN <<>>
  ELSE LET m == LongestAt(chars, i)
       IN IF m = <<>> THEN <<"#lexical-error">>
          ELSE <<NameOfSym(m)>> \o LexFrom(chars, i + Len(m))
Lex(chars) == LexFrom(chars, 1)

\* laws of Lex
LexLossless(chars) == CatSep(Lex(chars), "") = Cat(chars)
LexMaximal(chars) ==
  LET RECURSIVE Ok(_)
      Ok(i) == IF i > Len(chars) THEN TRUE
               ELSE LET m == LongestAt(chars, i)
                    IN /\ m # <<>>
                       /\ \A cs \in SymSet : MatchesAt(cs, chars, i) => Len(cs) <= Len(m)
                       /\ Ok(i + Len(m))
  IN Ok(1)
NeverSplit == \A e \in SymRows : Lex(e.cs) = <<e.n>>

(***************************************************************************)
(* Classification of a sequence of names (operand names and operator        *)
(* symbols) by position: in operand position a symbol is a prefix operator, *)
(* after an operand it is a postfix or a binary operator.                   *)
(***************************************************************************)
OperandNames == {"a", "b", "c", "d"}

RECURSIVE ClassifyFrom(_, _, _)
ClassifyFrom(names, i, st) ==
  IF i > Len(names) THEN <<>>
  ELSE LET x == names[i] IN
       IF st \in {"E", "P"} /\ x \in OperandNames
         THEN <<Opd(x)>> \o ClassifyFrom(names, i + 1, "O")
       ELSE IF st = "E" /\ x \in PreNames
         THEN <<TokOf("pre", x)>> \o ClassifyFrom(names, i + 1, "P")
       ELSE IF st = "O" /\ x \in PostNames
         THEN <<TokOf("post", x)>> \o ClassifyFrom(names, i + 1, "O")
       ELSE IF st = "O" /\ x \in BinNames
         THEN <<TokOf("bin", x)>> \o ClassifyFrom(names, i + 1, "E")
       ELSE <<[t |-> "bad", s |-> x, l |-> 0, x |-> x]>>
Classify(names) == ClassifyFrom(names, 1, "E")
Accepted(ts) == (\A i \in 1..Len(ts) : ts[i].t # "bad") /\ WellFormed(ts)

\* what the language must do with a sequence of names: the prescribed tree, or reject
Expect(names) ==
  LET ts == Classify(names)
  IN IF Accepted(ts) /\ Determined(ts) THEN Show(Group(ts)) ELSE "reject"

(***************************************************************************)
(* 6. Values and evaluation.                                                 *)
(*   VI(n) int, VB(b) bool, VC(id) a mutable cell (content in the store),    *)
(*   VA(ek, es) array with element kind ek in {"int","bool"}, VIt(ek, es)    *)
(*   iterator over the remaining elements, VF(name) one of the named         *)
(*   functions, VT(es) tuple, VS(x) the struct {x := x}.                     *)
(*   TErr: the checker must reject the program.  Unm: outside the modelled   *)
(*   range (run-time error, |n| > Bound, negative operand of a bit           *)
(*   operator ...): the operand chooser never uses such an assignment.       *)
(***************************************************************************)
Bound == 1048576

VI(n) == [k |-> "int", v |-> n]
VB(b) == [k |-> "bool", v |-> b]
VC(id) == [k |-> "cell", id |-> id]
VA(ek, es) == [k |-> "arr", ek |-> ek, es |-> es]
VIt(ek, es) == [k |-> "iter", ek |-> ek, es |-> es]
VF(n) == [k |-> "fn", n |-> n]
VT(es) == [k |-> "tup", es |-> es]
VS(x) == [k |-> "struct", x |-> x]
TErr == [k |-> "terr"]
Unm == [k |-> "unm"]
IsBad(v) == v.k \in {"terr", "unm"}
Chk(n) == IF n > Bound \/ n < -Bound THEN Unm ELSE VI(n)

Abs(n) == IF n < 0 THEN -n ELSE n
TruncDiv(a, b) == LET q == Abs(a) \div Abs(b) IN IF (a < 0) # (b < 0) THEN -q ELSE q

\* products are formed only when they stay inside the bound (TLC's integers are 32 bit)
SafeMul(a, b) == IF a = 0 \/ b = 0 THEN VI(0)
                 ELSE IF Abs(a) > Bound \div Abs(b) THEN Unm ELSE VI(a * b)
RECURSIVE PowR(_, _, _)
PowR(b, e, acc) == IF e = 0 THEN VI(acc)
                   ELSE LET x == SafeMul(acc, b) IN IF x = Unm THEN Unm ELSE PowR(b, e - 1, x.v)
RECURSIVE Pow2(_)
Pow2(e) == IF e = 0 THEN 1 ELSE 2 * Pow2(e - 1)

RECURSIVE BitOp(_, _, _)
BitOp(f, a, b) ==   \* a, b >= 0; f in {"&", "|", "^"}
  IF a = 0 /\ b = 0 THEN 0
  ELSE LET x == a % 2
           y == b % 2
           z == CASE f = "&" -> IF x = 1 /\ y = 1 THEN 1 ELSE 0
                  [] f = "|" -> IF x = 1 \/ y = 1 THEN 1 ELSE 0
                  [] f = "^" -> IF x # y THEN 1 ELSE 0
       IN z + 2 * BitOp(f, a \div 2, b \div 2)

IntOp(op, a, b) ==
  CASE op = "+" -> Chk(a + b)
    [] op = "-" -> Chk(a - b)
    [] op = "*" -> SafeMul(a, b)
    [] op = "/" -> IF b = 0 THEN Unm ELSE VI(TruncDiv(a, b))
    [] op = "%" -> IF b = 0 THEN Unm ELSE VI(a - b * TruncDiv(a, b))
    [] op = "**" -> IF b < 0 \/ b > 40 THEN Unm ELSE PowR(a, b, 1)
    [] op = "<<" -> IF b < 0 \/ b > 20 THEN Unm ELSE SafeMul(a, Pow2(b))
    [] op = ">>" -> IF b < 0 \/ b > 20 THEN Unm ELSE VI(a \div Pow2(b))   \* floor = arithmetic shift
    [] op \in {"&", "|", "^"} -> IF a < 0 \/ b < 0 THEN Unm ELSE VI(BitOp(op, a, b))
    [] op = "<" -> VB(a < b)
    [] op = "<=" -> VB(a <= b)
    [] op = ">" -> VB(a > b)
    [] op = ">=" -> VB(a >= b)

BoolBit(op, a, b) == CASE op = "&" -> VB(a /\ b) [] op = "|" -> VB(a \/ b) [] op = "^" -> VB(a # b)

NumOps == {"+", "-", "*", "/", "%", "**", "<<", ">>", "<", "<=", ">", ">="}
BitOps == {"&", "|", "^"}

\* named functions: inc, dbl: (int) -> int; odd: (int) -> bool; add: (int, int) -> int
FnArity(n) == IF n = "add" THEN 2 ELSE 1
FnRet(n) == IF n = "odd" THEN "bool" ELSE "int"
Call1(n, x) == CASE n = "inc" -> Chk(x + 1)
                 [] n = "dbl" -> Chk(2 * x)
                 [] n = "odd" -> IF x < 0 THEN Unm ELSE VB(x % 2 = 1)

\* element-wise application; MapOk says that no application leaves the model
MapOk(n, es) == \A j \in 1..Len(es) : ~IsBad(Call1(n, es[j].v))
MapVals(n, es) == [j \in 1..Len(es) |-> Call1(n, es[j].v)]

RECURSIVE SumInts(_)
SumInts(es) == IF es = <<>> THEN 0 ELSE Head(es).v + SumInts(Tail(es))
RECURSIVE ProdInts(_)   \* VI(product) or Unm
ProdInts(es) == IF es = <<>> THEN VI(1)
                ELSE LET r == ProdInts(Tail(es)) IN IF r = Unm THEN Unm ELSE SafeMul(Head(es).v, r.v)
RECURSIVE FoldBits(_, _, _)
FoldBits(f, acc, es) == IF es = <<>> THEN acc ELSE FoldBits(f, BitOp(f, acc, Head(es).v), Tail(es))

Scalar(v) == v.k \in {"int", "bool"}

\* binary operators other than assignments and && ||  (env gives the operands embedded in forms)
ApBin(op, x, y, env) ==
  CASE op \in NumOps ->
         IF x.k = "int" /\ y.k = "int" THEN IntOp(op, x.v, y.v)
         ELSE IF op = "+" /\ x.k = "arr" /\ y.k = "arr" THEN Unm   \* concatenation: not used
         ELSE TErr
    [] op \in BitOps ->
         IF x.k = "int" /\ y.k = "int" THEN IntOp(op, x.v, y.v)
         ELSE IF x.k = "bool" /\ y.k = "bool" THEN BoolBit(op, x.v, y.v)
         ELSE TErr
    [] op \in {"==", "!="} ->
         IF Scalar(x) /\ Scalar(y) THEN VB((x = y) = (op = "=="))
         ELSE Unm
    [] op = "@" ->
         IF x.k = "iter" /\ y.k = "fn" /\ FnArity(y.n) = 1 /\ x.ek = "int"
         THEN (IF MapOk(y.n, x.es) THEN VIt(FnRet(y.n), MapVals(y.n, x.es)) ELSE Unm)
         ELSE TErr
    [] op \in {"?", "\\"} ->
         IF x.k = "iter" /\ y.k = "fn" /\ FnArity(y.n) = 1 /\ x.ek = "int" /\ FnRet(y.n) = "bool"
         THEN IF ~MapOk(y.n, x.es) THEN Unm
              ELSE LET yes == SelectSeq(x.es, LAMBDA e : Call1(y.n, e.v).v)
                       no == SelectSeq(x.es, LAMBDA e : ~Call1(y.n, e.v).v)
                   IN IF op = "?" THEN VIt("int", yes) ELSE VT(<<VA("int", yes), VA("int", no)>>)
         ELSE TErr
    [] op = "$i" ->
         IF x.k = "iter" /\ y.k = "fn" /\ FnArity(y.n) = 2 /\ x.ek = "int" /\ env["i"].k = "int"
         THEN Chk(env["i"].v + SumInts(x.es))
         ELSE TErr

ApPre(op, x, st) ==
  CASE op = "-" -> IF x.k = "int" THEN VI(-x.v) ELSE TErr
    [] op = "!" -> IF x.k = "int" THEN VI(-x.v - 1) ELSE IF x.k = "bool" THEN VB(~x.v) ELSE TErr
    [] op = "*" -> IF x.k = "cell" THEN st[x.id] ELSE TErr

ApPost(op, x, env) ==
  CASE op = "[i]" ->
         IF x.k = "arr" /\ env["i"].k = "int"
         THEN (IF env["i"].v >= 0 /\ env["i"].v < Len(x.es) THEN x.es[env["i"].v + 1] ELSE Unm)
         ELSE TErr
    [] op = "[i:j]" ->
         IF x.k = "arr" /\ env["i"].k = "int" /\ env["j"].k = "int"
         THEN (IF 0 <= env["i"].v /\ env["i"].v <= env["j"].v /\ env["j"].v <= Len(x.es)
               THEN VA(x.ek, SubSeq(x.es, env["i"].v + 1, env["j"].v)) ELSE Unm)
         ELSE TErr
    [] op = "(i)" ->
         IF x.k = "fn" /\ FnArity(x.n) = 1 /\ env["i"].k = "int" THEN Call1(x.n, env["i"].v) ELSE TErr
    [] op = ".0" -> IF x.k = "tup" THEN x.es[1] ELSE TErr
    [] op = ".x" -> IF x.k = "struct" THEN x.x ELSE TErr
    [] op = "?int" -> IF x.k = "iter" THEN (IF x.ek = "int" THEN x ELSE VIt("int", <<>>)) ELSE TErr
    [] op = "~" -> IF x.k = "arr" THEN VIt(x.ek, x.es) ELSE TErr
    [] op = "$]" -> IF x.k = "iter" THEN VA(x.ek, x.es) ELSE TErr
    [] op = "$+" -> IF x.k = "iter" /\ x.ek = "int" THEN Chk(SumInts(x.es)) ELSE TErr
    [] op = "$*" -> IF x.k = "iter" /\ x.ek = "int" THEN ProdInts(x.es) ELSE TErr
    [] op = "$&&" -> IF x.k = "iter" /\ x.ek = "bool" THEN VB(\A j \in 1..Len(x.es) : x.es[j].v) ELSE TErr
    [] op = "$||" -> IF x.k = "iter" /\ x.ek = "bool" THEN VB(\E j \in 1..Len(x.es) : x.es[j].v) ELSE TErr
    [] op = "$&" -> IF x.k = "iter" /\ x.ek = "int"
                    THEN (IF x.es = <<>> \/ \E j \in 1..Len(x.es) : x.es[j].v < 0 THEN Unm
                          ELSE VI(FoldBits("&", Head(x.es).v, Tail(x.es))))
                    ELSE TErr
    [] op = "$|" -> IF x.k = "iter" /\ x.ek = "int"
                    THEN (IF \E j \in 1..Len(x.es) : x.es[j].v < 0 THEN Unm ELSE VI(FoldBits("|", 0, x.es)))
                    ELSE TErr

\* assignments: `c = v' stores v, `c op= v' stores (content op v); the result is the stored value
AssignBase(op) ==
  CASE op = "+=" -> "+" [] op = "-=" -> "-" [] op = "*=" -> "*" [] op = "/=" -> "/" [] op = "%=" -> "%"
    [] op = "**=" -> "**" [] op = "&=" -> "&" [] op = "|=" -> "|" [] op = "^=" -> "^"
    [] op = "<<=" -> "<<" [] op = ">>=" -> ">>"

ApAssign(op, x, y, env, st) ==
  IF x.k # "cell" THEN [v |-> TErr, st |-> st]
  ELSE LET old == st[x.id]
           new == IF op = "=" THEN (IF y.k = old.k THEN y ELSE TErr)
                  ELSE IF Scalar(y) THEN
                         LET r == ApBin(AssignBase(op), old, y, env)
                         IN IF IsBad(r) THEN r ELSE IF r.k = old.k THEN r ELSE TErr
                  ELSE TErr
       IN IF IsBad(new) THEN [v |-> new, st |-> st]
          ELSE [v |-> new, st |-> [st EXCEPT ![x.id] = new]]

RECURSIVE Ev(_, _, _)
Ev(t, env, st) ==
  CASE t.k = "leaf" -> [v |-> env[t.o.s], st |-> st]
    [] t.k = "pre" ->
         LET a == Ev(t.e, env, st) IN
         IF IsBad(a.v) THEN a ELSE [v |-> ApPre(t.o.s, a.v, a.st), st |-> a.st]
    [] t.k = "post" ->
         LET a == Ev(t.e, env, st) IN
         IF IsBad(a.v) THEN a ELSE [v |-> ApPost(t.o.s, a.v, env), st |-> a.st]
    [] t.k = "bin" ->
         LET a == Ev(t.l, env, st) IN
         IF IsBad(a.v) THEN a ELSE
         LET b == Ev(t.r, env, a.st) IN
         IF IsBad(b.v) THEN b
         ELSE IF t.o.s \in {"&&", "||"} THEN
                IF a.v.k # "bool" \/ b.v.k # "bool" THEN [v |-> TErr, st |-> st]
                ELSE IF a.v.v = (t.o.s = "||") THEN [v |-> a.v, st |-> a.st]   \* short circuit: rhs not run
                ELSE [v |-> b.v, st |-> b.st]
         ELSE IF t.o.s \in AssignNames THEN ApAssign(t.o.s, a.v, b.v, env, b.st)
         \* reduce with an initial value that is itself a prefix application over an embedded operand
         ELSE IF t.o.s = "$*c" THEN
                (IF env["c"].k # "cell" THEN [v |-> TErr, st |-> b.st]
                 ELSE [v |-> ApBin("$i", a.v, b.v, [env EXCEPT !["i"] = b.st[env["c"].id]]), st |-> b.st])
         ELSE IF t.o.s = "$i+j" THEN
                (IF env["i"].k # "int" \/ env["j"].k # "int" THEN [v |-> TErr, st |-> b.st]
                 ELSE [v |-> ApBin("$i", a.v, b.v, [env EXCEPT !["i"] = VI(env["i"].v + env["j"].v)]), st |-> b.st])
         ELSE IF t.o.s = "$-i" THEN
                (IF env["i"].k # "int" THEN [v |-> TErr, st |-> b.st]
                 ELSE [v |-> ApBin("$i", a.v, b.v, [env EXCEPT !["i"] = VI(-env["i"].v)]), st |-> b.st])
         ELSE [v |-> ApBin(t.o.s, a.v, b.v, env), st |-> b.st]

RECURSIVE FirstOrder(_)
FirstOrder(v) == \/ v.k \in {"int", "bool"}
                 \/ v.k = "arr"
                 \/ v.k = "tup" /\ \A j \in 1..Len(v.es) : FirstOrder(v.es[j])
=============================================================================
