SPECIFICATION SpecE
CONSTANTS
  Chunks = 1
POSTCONDITION EmitExtra
CHECK_DEADLOCK FALSE
