SPECIFICATION Spec
CONSTANTS
  N = 8
  B = 8
  Chunks = 8
  Thorough = FALSE
INVARIANTS
  InvGrid
  InvFloat
  InvAlgebra
  InvDistrib
  InvOrder
  InvDivision
  InvShifts
  InvPowers
  InvTable
  InvEmitRow
POSTCONDITION Emit
CHECK_DEADLOCK FALSE
