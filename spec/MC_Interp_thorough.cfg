SPECIFICATION Spec
CONSTANTS
  Names = {"a", "b", "c"}
  Vals = {1, 2}
  MaxDepth = 3
  MaxSteps = 8
INVARIANTS
  NearestWins
  DropRestores
  Emit
VIEW View
CHECK_DEADLOCK FALSE
