------------------------------- MODULE Conc -------------------------------
(***************************************************************************)
(* C16 - parsed code and values are safe to share between threads.          *)
(*                                                                           *)
(* Threads x cells.  A cell is SimpleSL's `mut` value: `Mut.variable:        *)
(* RwLock<Variable>` (src/variable/mut.rs), the only interior mutability of  *)
(* the value model.  Every thread runs a program (a sequence of operations   *)
(* on cells named in the shared, parsed code) with a private interpreter, so *)
(* the only shared state is the cells and their locks.  The module spells    *)
(* out the steps the code takes:                                             *)
(*                                                                           *)
(*   c op= v   (assign.rs::exec / try_exec)                                  *)
(*       EvalTarget, EvalValue, ReqWrite (the thread is queued on the lock), *)
(*       AcqWrite (enabled iff no holder and no readers), Update (under the  *)
(*       lock: new = Op(old, rhs); a failing operator stores nothing),       *)
(*       Release (the returned value is the content read back under the      *)
(*       same guard; a failure ends the thread's program)                    *)
(*   *c        (prefix_op.rs::indirection)  EvalTarget, AcqRead, RelRead     *)
(*   render c  (Mut::string, reached by Display / std.convert.to_string /    *)
(*       std.io.print) per nesting level: AcqRead, RelRead, RenderContent    *)
(*       -- the guard is released BEFORE the content (which may contain      *)
(*       cells, even the cell itself) is rendered.                           *)
(*                                                                           *)
(* Named alternatives (constant switches) keep the behaviours that the       *)
(* specification forbids, so that TLC can show what they cause:              *)
(*   NestedRead   the read guard is held while the content is rendered (the  *)
(*                code before fix df0b31e): deadlock with a queued writer    *)
(*   SplitGuards  `c op= v` reads under a read guard and stores under a      *)
(*                separately taken write guard: lost updates                 *)
(* WriterPreferring is std's RwLock policy on this platform: a new reader    *)
(* waits while a writer is queued.  Safety is checked under both policies.   *)
(***************************************************************************)
EXTENDS Integers, Sequences, FiniteSets, TLC

CONSTANTS
  Threads,           \* 1..T
  Cells,             \* set of cell names (strings)
  CellType,          \* [Cells -> {"int", "any"}] declared element type (printed by render)
  ProgSpace,         \* set of [Threads -> Seq(Op)]
  InitSpace,         \* set of [Cells -> Value]
  RenderDepth,       \* nesting levels rendered before ".." (6 in src/variable.rs)
  NestedRead, WriterPreferring, SplitGuards

VARIABLES
  prog, init,        \* chosen in Init, never changed
  pc,                \* [Threads -> index of the current operation]
  ph,                \* [Threads -> phase inside the current operation]
  holdW,             \* [Cells -> set of threads holding the write guard]
  waitW,             \* [Cells -> set of threads queued for the write guard]
  readers,           \* [Cells -> [Threads -> number of read guards held]]
  val,               \* [Cells -> Value] content
  res,               \* [Threads -> Seq(result)] what the thread's operations returned
  tmp,               \* [Threads -> Value | None | result] thread-local scratch
  rnd,               \* [Threads -> render state]
  hist               \* [Cells -> Seq(update record)]  history, only records (see VIEW)

vars == <<prog, init, pc, ph, holdW, waitW, readers, val, res, tmp, rnd, hist>>
View == <<prog, init, pc, ph, holdW, waitW, readers, val, res, tmp, rnd>>

(***************************************************************************)
(* Values, operators.  Small mathematical integers: 64-bit wrap-around is   *)
(* the business of C08; here every operand and result stays inside Dom.     *)
(***************************************************************************)
None == [k |-> "none"]
I(n) == [k |-> "int", v |-> n]
R(c) == [k |-> "cell", c |-> c]
Err(e) == [k |-> "err", e |-> e]
Ood == [k |-> "ood"]                      \* result outside the modelled integer domain
IsInt(x) == x.k = "int"
IsCell(x) == x.k = "cell"

DomMax == 536870911                       \* 2^29 - 1
InDom(n) == n >= -DomMax - 1 /\ n <= DomMax
Abs(n) == IF n < 0 THEN -n ELSE n

RECURSIVE Pow2(_)
Pow2(n) == IF n = 0 THEN 1 ELSE 2 * Pow2(n - 1)
Modulus == 1073741824                     \* 2^30: two's complement width used for & | ^
ToU(x) == IF x < 0 THEN x + Modulus ELSE x
FromU(u) == IF u >= Modulus \div 2 THEN u - Modulus ELSE u
Bit(op, x, y) == CASE op = "&" -> x * y
                   [] op = "|" -> x + y - x * y
                   [] op = "^" -> (x + y) % 2
RECURSIVE BitsU(_, _, _, _)
BitsU(op, a, b, n) == IF n = 0 THEN 0
                      ELSE Bit(op, a % 2, b % 2) + 2 * BitsU(op, a \div 2, b \div 2, n - 1)
Bitwise(op, a, b) == FromU(BitsU(op, ToU(a), ToU(b), 30))

\* guarded product: never lets TLC's 32-bit integers overflow
MulG(a, b) == IF a = 0 \/ b = 0 THEN I(0)
              ELSE IF Abs(a) > DomMax \div Abs(b) THEN Ood ELSE I(a * b)
RECURSIVE PowG(_, _)
PowG(a, e) == IF e = 0 THEN I(1)
              ELSE LET r == PowG(a, e - 1) IN IF r.k = "ood" THEN Ood ELSE MulG(r.v, a)
TruncDiv(a, b) == LET q == Abs(a) \div Abs(b) IN IF (a < 0) # (b < 0) THEN -q ELSE q
TruncRem(a, b) == a - b * TruncDiv(a, b)

Operators == {"=", "+", "-", "*", "/", "%", "**", "<<", ">>", "&", "|", "^"}

\* Apply(op, old, rhs): what `old op rhs` is; I(n), Err(e) (the operator fails) or Ood
ApplyInt(op, a, b) ==
  CASE op = "+"  -> IF InDom(a + b) THEN I(a + b) ELSE Ood
    [] op = "-"  -> IF InDom(a - b) THEN I(a - b) ELSE Ood
    [] op = "*"  -> MulG(a, b)
    [] op = "/"  -> IF b = 0 THEN Err("ZeroDivision") ELSE I(TruncDiv(a, b))
    [] op = "%"  -> IF b = 0 THEN Err("ZeroModulo") ELSE I(TruncRem(a, b))
    [] op = "**" -> IF b < 0 THEN Err("NegativeExponent")
                    ELSE IF b = 0 \/ a = 1 THEN I(1)
                    ELSE IF a = 0 THEN I(0)
                    ELSE IF a = -1 THEN I(IF b % 2 = 0 THEN 1 ELSE -1)
                    ELSE IF b > 30 THEN Ood ELSE PowG(a, b)
    [] op = "<<" -> IF b < 0 \/ b > 63 THEN Err("OverflowShift")
                    ELSE IF a = 0 THEN I(0) ELSE IF b > 29 THEN Ood ELSE MulG(a, Pow2(b))
    [] op = ">>" -> IF b < 0 \/ b > 63 THEN Err("OverflowShift")
                    ELSE IF b > 29 THEN I(IF a < 0 THEN -1 ELSE 0) ELSE I(a \div Pow2(b))
    [] op \in {"&", "|", "^"} -> I(Bitwise(op, a, b))

Apply(op, old, rhs) ==
  IF op = "=" THEN rhs
  ELSE IF IsInt(old) /\ IsInt(rhs) /\ InDom(old.v) /\ InDom(rhs.v) THEN ApplyInt(op, old.v, rhs.v)
  ELSE Ood

(***************************************************************************)
(* Operations of a thread's program.                                        *)
(***************************************************************************)
Asg(c, op, rhs) == [k |-> "asg", c |-> c, op |-> op, rhs |-> rhs]
Deref(c) == [k |-> "deref", c |-> c]
Render(c) == [k |-> "render", c |-> c]

OkVal(v) == [k |-> "val", v |-> v]        \* result of an assignment / dereference
OkText(s) == [k |-> "text", s |-> s]      \* result of a rendering
IsErr(r) == r.k = "err"

Len0(t) == Len(prog[t])
Finished(t) == pc[t] > Len0(t)
AllDone == \A t \in Threads : Finished(t)
CurOp(t) == prog[t][pc[t]]
Failed(t) == Len(res[t]) > 0 /\ IsErr(res[t][Len(res[t])])

NoRenderState == [c |-> "", d |-> 0, text |-> "", held |-> <<>>]

NoReaders(c) == \A u \in Threads : readers[c][u] = 0
CanRead(c) == holdW[c] = {} /\ (WriterPreferring => waitW[c] = {})
CanWrite(t, c) == t \in waitW[c] /\ holdW[c] = {} /\ NoReaders(c)

Init ==
  /\ prog \in ProgSpace
  /\ init \in InitSpace
  /\ pc = [t \in Threads |-> 1]
  /\ ph = [t \in Threads |-> "evalT"]
  /\ holdW = [c \in Cells |-> {}]
  /\ waitW = [c \in Cells |-> {}]
  /\ readers = [c \in Cells |-> [t \in Threads |-> 0]]
  /\ val = init
  /\ res = [t \in Threads |-> <<>>]
  /\ tmp = [t \in Threads |-> None]
  /\ rnd = [t \in Threads |-> NoRenderState]
  /\ hist = [c \in Cells |-> <<>>]

\* the operation at pc[t] returned r: on to the next one, or (failure) to the end of the program
Return(t, r) ==
  /\ res' = [res EXCEPT ![t] = Append(@, r)]
  /\ pc' = [pc EXCEPT ![t] = IF IsErr(r) THEN Len0(t) + 1 ELSE @ + 1]
  /\ ph' = [ph EXCEPT ![t] = "evalT"]
  /\ tmp' = [tmp EXCEPT ![t] = None]
  /\ rnd' = [rnd EXCEPT ![t] = NoRenderState]

Goto(t, phase) == ph' = [ph EXCEPT ![t] = phase]

(***************************************************************************)
(* Lock steps.                                                              *)
(***************************************************************************)
TakeRead(t, c) ==
  /\ CanRead(c)
  /\ readers' = [readers EXCEPT ![c][t] = @ + 1]
DropRead(t, c) ==
  /\ readers[c][t] > 0
  /\ readers' = [readers EXCEPT ![c][t] = @ - 1]

(***************************************************************************)
(* c op= v                                                                   *)
(***************************************************************************)
EvalTarget(t) ==
  /\ ~Finished(t) /\ ph[t] = "evalT"
  /\ LET o == CurOp(t) IN
       CASE o.k = "asg"    -> Goto(t, "evalV") /\ UNCHANGED rnd
         [] o.k = "deref"  -> Goto(t, "acqR") /\ UNCHANGED rnd
         [] o.k = "render" -> /\ Goto(t, "acqR")
                              /\ rnd' = [rnd EXCEPT ![t] = [c |-> o.c, d |-> 1, text |-> "", held |-> <<>>]]
  /\ UNCHANGED <<prog, init, pc, holdW, waitW, readers, val, res, tmp, hist>>

EvalValue(t) ==
  /\ ~Finished(t) /\ ph[t] = "evalV"
  /\ Goto(t, IF SplitGuards /\ CurOp(t).op # "=" THEN "sAcqR" ELSE "reqW")
  /\ UNCHANGED <<prog, init, pc, holdW, waitW, readers, val, res, tmp, rnd, hist>>

ReqWrite(t) ==
  /\ ~Finished(t) /\ ph[t] = "reqW"
  /\ waitW' = [waitW EXCEPT ![CurOp(t).c] = @ \cup {t}]
  /\ Goto(t, "acqW")
  /\ UNCHANGED <<prog, init, pc, holdW, readers, val, res, tmp, rnd, hist>>

AcqWrite(t) ==
  /\ ~Finished(t) /\ ph[t] = "acqW"
  /\ LET c == CurOp(t).c IN
       /\ CanWrite(t, c)
       /\ holdW' = [holdW EXCEPT ![c] = @ \cup {t}]
       /\ waitW' = [waitW EXCEPT ![c] = @ \ {t}]
  /\ Goto(t, "upd")
  /\ UNCHANGED <<prog, init, pc, readers, val, res, tmp, rnd, hist>>

\* under the write guard: read the content, apply the operator, store; a failing operator
\* stores nothing.  (SplitGuards: the operand is the stale copy read earlier.)
Update(t) ==
  /\ ~Finished(t) /\ ph[t] = "upd"
  /\ LET o == CurOp(t)
         c == o.c
         old == IF SplitGuards /\ o.op # "=" THEN tmp[t] ELSE val[c]
         r == Apply(o.op, old, o.rhs)
     IN /\ t \in holdW[c]
        /\ IF r.k \in {"err", "ood"}
             THEN /\ val' = val
                  /\ tmp' = [tmp EXCEPT ![t] = r]
                  /\ hist' = [hist EXCEPT ![c] = Append(@, [t |-> t, op |-> o.op, old |-> old, rhs |-> o.rhs, new |-> None])]
             ELSE /\ val' = [val EXCEPT ![c] = r]
                  /\ tmp' = [tmp EXCEPT ![t] = OkVal(r)]     \* `lhs.clone()` under the same guard
                  /\ hist' = [hist EXCEPT ![c] = Append(@, [t |-> t, op |-> o.op, old |-> old, rhs |-> o.rhs, new |-> r])]
  /\ Goto(t, "rel")
  /\ UNCHANGED <<prog, init, pc, holdW, waitW, readers, res, rnd>>

Release(t) ==
  /\ ~Finished(t) /\ ph[t] = "rel"
  /\ holdW' = [holdW EXCEPT ![CurOp(t).c] = @ \ {t}]
  /\ Return(t, tmp[t])
  /\ UNCHANGED <<prog, init, waitW, readers, val, hist>>

\* the SplitGuards alternative: read the operand under a read guard of its own
SplitAcqRead(t) ==
  /\ ~Finished(t) /\ ph[t] = "sAcqR"
  /\ TakeRead(t, CurOp(t).c)
  /\ tmp' = [tmp EXCEPT ![t] = val[CurOp(t).c]]
  /\ Goto(t, "sRelR")
  /\ UNCHANGED <<prog, init, pc, holdW, waitW, val, res, rnd, hist>>
SplitRelRead(t) ==
  /\ ~Finished(t) /\ ph[t] = "sRelR"
  /\ DropRead(t, CurOp(t).c)
  /\ Goto(t, "reqW")
  /\ UNCHANGED <<prog, init, pc, holdW, waitW, val, res, tmp, rnd, hist>>

(***************************************************************************)
(* *c and render c                                                          *)
(***************************************************************************)
AcqRead(t) ==
  /\ ~Finished(t) /\ ph[t] = "acqR"
  /\ LET o == CurOp(t)
         c == IF o.k = "render" THEN rnd[t].c ELSE o.c
     IN /\ TakeRead(t, c)
        /\ tmp' = [tmp EXCEPT ![t] = val[c]]               \* the clone taken under the guard
        /\ IF o.k = "render"
             THEN /\ rnd' = [rnd EXCEPT ![t].held = Append(@, c)]
                  /\ Goto(t, IF NestedRead THEN "inner" ELSE "relR")
             ELSE /\ rnd' = rnd
                  /\ Goto(t, "relR")
  /\ UNCHANGED <<prog, init, pc, holdW, waitW, val, res, hist>>

RelRead(t) ==
  /\ ~Finished(t) /\ ph[t] = "relR"
  /\ LET o == CurOp(t) IN
       IF o.k = "render"
         THEN /\ DropRead(t, rnd[t].c)
              /\ rnd' = [rnd EXCEPT ![t].held = SubSeq(@, 1, Len(@) - 1)]
              /\ Goto(t, "inner")
              /\ UNCHANGED <<pc, res, tmp>>
         ELSE /\ DropRead(t, o.c)
              /\ Return(t, OkVal(tmp[t]))
  /\ UNCHANGED <<prog, init, holdW, waitW, val, hist>>

\* Mut::string(d): "mut <type> " followed by the content: an integer is printed, a cell is
\* rendered one level deeper unless the depth limit is reached ("..")
RenderContent(t) ==
  /\ ~Finished(t) /\ ph[t] = "inner"
  /\ LET r == rnd[t]
         head == r.text \o "mut " \o CellType[r.c] \o " "
         x == tmp[t]
         done == IsInt(x) \/ r.d >= RenderDepth
         text == IF IsInt(x) THEN head \o ToString(x.v) ELSE head \o ".."
     IN IF done
          THEN IF r.held = <<>>
                 THEN Return(t, OkText(text))
                 ELSE /\ rnd' = [rnd EXCEPT ![t].text = text]
                      /\ Goto(t, "unwind")
                      /\ UNCHANGED <<pc, res, tmp>>
          ELSE /\ rnd' = [rnd EXCEPT ![t] = [c |-> x.c, d |-> r.d + 1, text |-> head, held |-> r.held]]
               /\ Goto(t, "acqR")
               /\ UNCHANGED <<pc, res, tmp>>
  /\ UNCHANGED <<prog, init, holdW, waitW, readers, val, hist>>

\* NestedRead only: the guards taken on the way down are dropped innermost first
Unwind(t) ==
  /\ ~Finished(t) /\ ph[t] = "unwind"
  /\ LET r == rnd[t]
         c == r.held[Len(r.held)]
     IN /\ DropRead(t, c)
        /\ IF Len(r.held) = 1
             THEN Return(t, OkText(r.text))
             ELSE /\ rnd' = [rnd EXCEPT ![t].held = SubSeq(@, 1, Len(@) - 1)]
                  /\ UNCHANGED <<pc, ph, res, tmp>>
  /\ UNCHANGED <<prog, init, holdW, waitW, val, hist>>

Step(t) ==
  \/ EvalTarget(t) \/ EvalValue(t) \/ ReqWrite(t) \/ AcqWrite(t) \/ Update(t) \/ Release(t)
  \/ SplitAcqRead(t) \/ SplitRelRead(t)
  \/ AcqRead(t) \/ RelRead(t) \/ RenderContent(t) \/ Unwind(t)

\* all threads finished is the only terminal state: it stutters, so TLC's deadlock check
\* reports exactly the states in which some thread is unfinished and nobody can move
Terminated == AllDone /\ UNCHANGED vars

Next == (\E t \in Threads : Step(t)) \/ Terminated

Spec == Init /\ [][Next]_vars
FairSpec == Spec /\ \A t \in Threads : WF_vars(Step(t))

(***************************************************************************)
(* The reference: operations as atomic steps.  A configuration of the       *)
(* atomic machine is [val, pc, rs, res]; a rendering is one atomic read per *)
(* nesting level (the specification does NOT promise that a rendering of    *)
(* nested cells is a snapshot).  SerialOutcomes = results of every           *)
(* interleaving of atomic steps; a program alone gives the sequential result.*)
(***************************************************************************)
ADone(p, cf, t) == cf.pc[t] > Len(p[t])

AReturn(p, cf, t, r, v) ==
  [val |-> v,
   pc |-> [cf.pc EXCEPT ![t] = IF IsErr(r) THEN Len(p[t]) + 1 ELSE @ + 1],
   rs |-> [cf.rs EXCEPT ![t] = NoRenderState],
   res |-> [cf.res EXCEPT ![t] = Append(@, r)]]

ARenderRead(p, cf, t, c, d, text) ==
  LET head == text \o "mut " \o CellType[c] \o " "
      x == cf.val[c]
  IN IF IsInt(x) THEN AReturn(p, cf, t, OkText(head \o ToString(x.v)), cf.val)
     ELSE IF d >= RenderDepth THEN AReturn(p, cf, t, OkText(head \o ".."), cf.val)
     ELSE [cf EXCEPT !.rs[t] = [c |-> x.c, d |-> d + 1, text |-> head, held |-> <<>>]]

AStep(p, cf, t) ==
  LET o == p[t][cf.pc[t]] IN
  IF cf.rs[t].c # "" THEN ARenderRead(p, cf, t, cf.rs[t].c, cf.rs[t].d, cf.rs[t].text)
  ELSE CASE o.k = "asg" ->
              LET r == Apply(o.op, cf.val[o.c], o.rhs) IN
              IF r.k \in {"err", "ood"} THEN AReturn(p, cf, t, r, cf.val)
              ELSE AReturn(p, cf, t, OkVal(r), [cf.val EXCEPT ![o.c] = r])
         [] o.k = "deref" -> AReturn(p, cf, t, OkVal(cf.val[o.c]), cf.val)
         [] o.k = "render" -> ARenderRead(p, cf, t, o.c, 1, "")

AInit(p, i) == [val |-> i, pc |-> [t \in DOMAIN p |-> 1],
                rs |-> [t \in DOMAIN p |-> NoRenderState], res |-> [t \in DOMAIN p |-> <<>>]]

\* what a run shows: the final contents and, per thread, the results of its operations or,
\* when an operation failed, only the error (Code::exec returns Err)
ThreadOutcome(rs) == IF Len(rs) > 0 /\ IsErr(rs[Len(rs)]) THEN <<rs[Len(rs)]>> ELSE rs
OutcomeOf(v, r) == [val |-> v, res |-> [t \in DOMAIN r |-> ThreadOutcome(r[t])]]

\* all configurations reachable from the set S, level by level (equal configurations reached
\* by different orders are merged, so the cost is the number of configurations, not of orders)
ALive(p, cf) == {t \in DOMAIN p : ~ADone(p, cf, t)}
RECURSIVE AFinal(_, _)
AFinal(p, S) ==
  LET fin == {cf \in S : ALive(p, cf) = {}}
      rest == S \ fin
  IN IF rest = {} THEN fin
     ELSE fin \cup AFinal(p, UNION {{AStep(p, cf, t) : t \in ALive(p, cf)} : cf \in rest})

SerialOutcomes(p, i) == {OutcomeOf(cf.val, cf.res) : cf \in AFinal(p, {AInit(p, i)})}

\* thread t's program alone
Alone(p, t) == [u \in DOMAIN p |-> IF u = t THEN p[t] ELSE <<>>]
SeqOutcome(p, i, t) == CHOOSE o \in SerialOutcomes(Alone(p, t), i) : TRUE

(***************************************************************************)
(* Which cells can a program touch?  Those it names and everything          *)
(* reachable from them through contents (initial or assigned by anybody).   *)
(***************************************************************************)
RefEdges(p, i) ==
  {<<c, i[c].c>> : c \in {x \in Cells : IsCell(i[x])}}
  \cup UNION {{<<p[t][n].c, p[t][n].rhs.c>> : n \in {m \in 1..Len(p[t]) : p[t][m].k = "asg" /\ IsCell(p[t][m].rhs)}}
              : t \in DOMAIN p}
RECURSIVE ReachN(_, _, _)
ReachN(S, E, n) == IF n = 0 THEN S ELSE ReachN(S \cup {e[2] : e \in {x \in E : x[1] \in S}}, E, n - 1)
Touched(p, i, t) == ReachN({p[t][n].c : n \in 1..Len(p[t])}
                           \cup {p[t][n].rhs.c : n \in {m \in 1..Len(p[t]) : p[t][m].k = "asg" /\ IsCell(p[t][m].rhs)}},
                           RefEdges(p, i), Cardinality(Cells))
Independent(p, i, t) == \A u \in DOMAIN p \ {t} : Touched(p, i, t) \cap Touched(p, i, u) = {}

(***************************************************************************)
(* Properties.                                                              *)
(***************************************************************************)
Phases == {"evalT", "evalV", "reqW", "acqW", "upd", "rel", "sAcqR", "sRelR", "acqR", "relR", "inner", "unwind"}

TypeOK ==
  /\ pc \in [Threads -> Nat] /\ ph \in [Threads -> Phases]
  /\ \A c \in Cells : holdW[c] \subseteq Threads /\ waitW[c] \subseteq Threads
  /\ \A c \in Cells : \A t \in Threads : readers[c][t] \in Nat
  /\ \A c \in Cells : val[c].k \in {"int", "cell"}

\* at most one writer, and never a writer together with a reader
MutualExclusion ==
  \A c \in Cells : /\ Cardinality(holdW[c]) <= 1
                   /\ (holdW[c] # {} => NoReaders(c))

\* every update is the operator applied to the content left by the previous update in lock
\* order (the first one to the initial content); a failed update leaves the content alone
Left(c, n) == IF n = 0 THEN init[c] ELSE IF hist[c][n].new = None THEN hist[c][n].old ELSE hist[c][n].new
Linearizable ==
  \A c \in Cells :
    /\ \A n \in 1..Len(hist[c]) :
          LET e == hist[c][n]
              r == Apply(e.op, e.old, e.rhs)
          IN /\ e.old = Left(c, n - 1)
             /\ e.new = (IF r.k \in {"err", "ood"} THEN None ELSE r)
    /\ val[c] = Left(c, Len(hist[c]))

\* the same, as a property of every step (sound with hist hidden by VIEW: it only looks at
\* the entry the step appends and at fingerprinted variables)
LinearizableStep ==
  [][\A c \in Cells :
        hist'[c] # hist[c] =>
          LET e == hist'[c][Len(hist'[c])]
              r == Apply(e.op, e.old, e.rhs)
          IN /\ Len(hist'[c]) = Len(hist[c]) + 1
             /\ e.old = val[c]
             /\ e.new = (IF r.k \in {"err", "ood"} THEN None ELSE r)
             /\ val'[c] = (IF e.new = None THEN val[c] ELSE e.new)]_vars

\* contents change only in Update steps of the holder
WritesOnlyUnderLock ==
  [][\A c \in Cells : val'[c] # val[c] => holdW[c] # {} /\ holdW'[c] = holdW[c] /\ hist'[c] # hist[c]]_vars

\* the values returned by assignments are those stored by the thread's own updates
ReturnsOwnUpdate ==
  \A t \in Threads : \A n \in 1..Len(res[t]) :
     (prog[t][n].k = "asg" /\ res[t][n].k = "val") =>
        \E m \in 1..Len(hist[prog[t][n].c]) :
           LET e == hist[prog[t][n].c][m] IN e.t = t /\ e.new = res[t][n].v

\* executed operations of the threads: additive updates of a cell that sees nothing else
Executed(t) == {n \in 1..Len(res[t]) : ~IsErr(res[t][n])}
AllOps == UNION {{prog[t][n] : n \in 1..Len(prog[t])} : t \in Threads}
Additive(c) == \A o \in AllOps : (o.k = "asg" /\ o.c = c) => (o.op \in {"+", "-"} /\ IsInt(o.rhs))
RECURSIVE SumSeq(_, _, _)
SumSeq(p, c, n) == IF n = 0 THEN 0
                   ELSE SumSeq(p, c, n - 1) +
                        (IF p[n].k = "asg" /\ p[n].c = c THEN (IF p[n].op = "+" THEN p[n].rhs.v ELSE -p[n].rhs.v) ELSE 0)
RECURSIVE SumThreads(_, _)
SumThreads(S, c) == IF S = {} THEN 0
                    ELSE LET t == CHOOSE x \in S : TRUE
                         IN SumSeq(prog[t], c, Cardinality(Executed(t))) + SumThreads(S \ {t}, c)
NoLostUpdate ==
  AllDone => \A c \in Cells : (Additive(c) /\ IsInt(init[c])) => val[c] = I(init[c].v + SumThreads(Threads, c))

\* N increments of one cell by all threads return a permutation of init+1..init+N and leave init+N
IncOnly(c) == /\ IsInt(init[c])
              /\ \A t \in Threads : \A n \in 1..Len(prog[t]) : prog[t][n] = Asg(c, "+", I(1))
IncrementsPermutation ==
  AllDone => \A c \in Cells : IncOnly(c) =>
     LET n == SumThreads(Threads, c)
         rets == UNION {{res[t][m].v.v : m \in 1..Len(res[t])} : t \in Threads}
     IN val[c] = I(init[c].v + n) /\ rets = (init[c].v + 1)..(init[c].v + n)

\* atomicity: whatever the lock-level machine produces, some serial order of the atomic
\* operations produces as well
\* (searched depth-first, following only atomic steps whose results agree with what the threads
\* returned -- the same set as SerialOutcomes, without building all of it in every terminal state)
RECURSIVE Explains(_, _)
Explains(p, cf) ==
  LET live == ALive(p, cf) IN
  IF live = {} THEN cf.val = val /\ cf.res = res
  ELSE \E t \in live :
         LET n == AStep(p, cf, t)
             a == n.res[t]
         IN /\ Len(a) <= Len(res[t])
            /\ (Len(a) > Len(cf.res[t]) => a[Len(a)] = res[t][Len(a)])
            /\ Explains(p, n)
OutcomeIsSerial == AllDone => Explains(prog, AInit(prog, init))
OutcomeInSerialSet == AllDone => OutcomeOf(val, res) \in SerialOutcomes(prog, init)

\* a thread that shares no cell with the others computes what it computes alone
IndependentRunsEqualSequential ==
  \A t \in Threads : (Finished(t) /\ Independent(prog, init, t)) =>
     LET s == SeqOutcome(prog, init, t) IN
     /\ ThreadOutcome(res[t]) = s.res[t]
     /\ \A c \in Touched(prog, init, t) : val[c] = s.val[c]

\* a failing operator leaves the cell as it was, releases the lock, and ends the program
FailureLeavesContent ==
  \A t \in Threads : Failed(t) => /\ Finished(t)
                                  /\ \A c \in Cells : t \notin holdW[c] /\ t \notin waitW[c] /\ readers[c][t] = 0

\* nothing left locked at the end
QuiescentAtEnd ==
  AllDone => \A c \in Cells : holdW[c] = {} /\ waitW[c] = {} /\ NoReaders(c)

NoOod == \A t \in Threads : \A n \in 1..Len(res[t]) : res[t][n].k # "ood"

\* DeadlockFree: as a safety property it is TLC's deadlock check (Terminated is the only
\* terminal step); as liveness, under FairSpec only and without any state constraint:
Termination == <>AllDone
DeadlockFree == Termination
=============================================================================
