SPECIFICATION Spec
CONSTANTS
  DenRep = 1
  CrossEvery = 17
INVARIANTS
  MutInv
  ProgInv
  OutcomeInv
  EmitInv
POSTCONDITION Emit
CHECK_DEADLOCK FALSE
