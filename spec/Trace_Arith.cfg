SPECIFICATION TraceSpec
CONSTANTS
  N = 8
  B = 8
VIEW View
POSTCONDITION TraceAccepted
CHECK_DEADLOCK FALSE
