SPECIFICATION Spec
CONSTANTS
  Config = "t3"
  T = 3
  K = 1
  Thorough = FALSE
  RenderDepth = 6
  NestedRead = FALSE
  WriterPreferring = FALSE
  SplitGuards = FALSE
  Threads <- MCThreads
  Cells <- MCCells
  CellType <- MCCellType
  ProgSpace <- MCProgSpace
  InitSpace <- MCInitSpace
INVARIANTS
  TypeOK
  MutualExclusion
  Linearizable
  ReturnsOwnUpdate
  NoLostUpdate
  IncrementsPermutation
  OutcomeIsSerial
  OutcomeInSerialSet
  IndependentRunsEqualSequential
  FailureLeavesContent
  QuiescentAtEnd
  NoOod
PROPERTIES
  LinearizableStep
  WritesOnlyUnderLock
POSTCONDITION NoEmit
CHECK_DEADLOCK TRUE
