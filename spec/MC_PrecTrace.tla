---------------------------- MODULE MC_PrecTrace ----------------------------
(***************************************************************************)
(* C14, implementation -> specification.  The harness (`vh prec record')    *)
(* parses a seeded random stream of long token sequences (2..8 binary       *)
(* operators with prefix and postfix forms: beyond the pairs and triples    *)
(* that MC_Prec enumerates) with the real grammar and the real table and    *)
(* records the grouping it observed.  This module recomputes every record:  *)
(*   - the recorded tokens form a well-formed sequence of the table's        *)
(*     operators (a malformed record is a defect of the recorder);           *)
(*   - on determined sequences the three formulations of the specification   *)
(*     agree (the laws of MC_Prec, checked here on the longer sequences);    *)
(*   - the observed tree is the prescribed one (reported by Emit: a          *)
(*     disagreement is a finding about the implementation, not a TLC error). *)
(* State machine: row 0 -> chunk -c -> record i.                            *)
(***************************************************************************)
EXTENDS Prec, Json, IOUtils

CONSTANTS Chunks

VARIABLES vRow

Rec == ndJsonDeserialize(IOEnv.VERIF_IN)
N == Len(Rec)

TokFromWire(w) == IF w[1] = "opd" THEN Opd(w[2]) ELSE TokOf(w[1], w[2])
RecToks(i) == [j \in 1..Len(Rec[i].toks) |-> TokFromWire(Rec[i].toks[j])]
KnownTok(w) == w[1] = "opd" \/ \E e \in TableSet : e.fix = w[1] /\ e.n = w[2]

Init == vRow = 0
Next == \/ vRow = 0 /\ vRow' \in {-c : c \in 1..Chunks}
        \/ vRow < 0 /\ vRow' \in {i \in 1..N : i % Chunks = (-vRow) % Chunks}
Spec == Init /\ [][Next]_vRow

InRow == vRow > 0
InvRecordWellFormed == InRow => /\ \A j \in 1..Len(Rec[vRow].toks) : KnownTok(Rec[vRow].toks[j])
                                /\ WellFormed(RecToks(vRow))
InvFormulationsAgree == InRow /\ Determined(RecToks(vRow)) /\ Settled(RecToks(vRow)) =>
                          LET toks == RecToks(vRow)
                          IN Climb(toks) = Group(toks) /\ Toks(Group(toks)) = toks /\ Admissible(Group(toks))

Verdict(i) == LET toks == RecToks(i)
              IN IF ~(Determined(toks) /\ Settled(toks)) THEN "undetermined"
                 ELSE IF Show(Group(toks)) = Rec[i].got THEN "ok" ELSE "mismatch"

Emit ==
  /\ TLCGet("stats").distinct > 0
  /\ LET vs == [i \in 1..N |-> Verdict(i)]
         bad == SelectSeq([i \in 1..N |-> i], LAMBDA i : vs[i] = "mismatch")
     IN /\ PrintT(<<"TRACE", ToJson([records |-> N,
                                     ok |-> Cardinality({i \in 1..N : vs[i] = "ok"}),
                                     undetermined |-> Cardinality({i \in 1..N : vs[i] = "undetermined"}),
                                     mismatch |-> Len(bad)])>>)
        /\ \A x \in 1..(IF Len(bad) > 20 THEN 20 ELSE Len(bad)) :
             PrintT(<<"TRACE_MISMATCH", ToJson([run |-> Rec[bad[x]].run, text |-> Rec[bad[x]].text,
                                                expected |-> Show(Group(RecToks(bad[x]))),
                                                got |-> Rec[bad[x]].got])>>)
=============================================================================
