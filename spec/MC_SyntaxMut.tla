---------------------------- MODULE MC_SyntaxMut ----------------------------
(***************************************************************************)
(* C03, suite (c): every single-token deletion, duplication and replacement  *)
(* of valid programs.  The programs (the tokenised corpus and accepted       *)
(* programs of suite (b)) arrive as ndjson through VERIF_IN:                 *)
(*    {"id": i, "ctx": "plain" | <name of a context of Syntax>, "ts": [..]}  *)
(*                                                                           *)
(*   state  st = [k |-> "start"] | [k |-> "prog", i] | [k |-> "mut", i, m]   *)
(*   actions PickProgram, ApplyMutation                                      *)
(*   invariants: MutationLaw (what a mutation changes and what it leaves     *)
(*   alone), the outcome machine (a mutant is admitted to be a Program or an *)
(*   Error, nothing else), and emission of every mutation (base, operator,   *)
(*   position, replacement token; for every CrossEvery-th mutation also the  *)
(*   mutated sequence, which the harness compares with its own application). *)
(***************************************************************************)
EXTENDS Syntax, Json, IOUtils

CONSTANTS DenRep,       \* keep one of DenRep replacements (1 = all)
          CrossEvery    \* emit the full mutated sequence for one of CrossEvery mutations

VARIABLE st

Seed == atoi(IOEnv.VERIF_SEED) % 1000
Progs == ndJsonDeserialize(IOEnv.VERIF_IN)
NProgs == Len(Progs)

TokSeq == SetToSeq(Tokens)
TokIdx == [tk \in Tokens |-> CHOOSE i \in 1..Len(TokSeq) : TokSeq[i] = tk]
KeepRep(i, p, tk) == DenRep = 1 \/ (i * 7 + p * 13 + TokIdx[tk] * 29 + p * TokIdx[tk] + Seed) % DenRep = 0

Init == st = [k |-> "start"]

PickProgram == st.k = "start" /\ \E i \in 1..NProgs : st' = [k |-> "prog", i |-> i]

ApplyMutation ==
  /\ st.k = "prog"
  /\ LET ts == Progs[st.i].ts IN
     \E p \in 1..Len(ts) :
        \/ st' = [k |-> "mut", i |-> st.i, m |-> [op |-> "del", p |-> p, t |-> ""]]
        \/ st' = [k |-> "mut", i |-> st.i, m |-> [op |-> "dup", p |-> p, t |-> ""]]
        \/ \E tk \in Tokens :
              /\ tk # ts[p] /\ KeepRep(st.i, p, tk)
              /\ st' = [k |-> "mut", i |-> st.i, m |-> [op |-> "rep", p |-> p, t |-> tk]]

Next == PickProgram \/ ApplyMutation
Spec == Init /\ [][Next]_st

MutInv == st.k = "mut" => MutationLaw(Progs[st.i].ts, st.m)
ProgInv == st.k = "prog" => /\ Len(Progs[st.i].ts) > 0
                            /\ Progs[st.i].id = st.i
                            /\ Progs[st.i].ctx \in {"plain"} \cup {c.name : c \in Contexts}
OutcomeInv == /\ Admissible("any") = Outcomes
              /\ Admissible("Program") = {"Program"}
              /\ ~OutcomeStep("Text", "Panic")

Out == IOEnv.VERIF_OUT
AppendLine(file, row) ==
  Serialize(ToJson(row) \o "\n", Out \o "/" \o file,
            [format |-> "TXT", charset |-> "UTF-8", openOptions |-> <<"WRITE", "CREATE", "APPEND">>]).exitValue = 0

EmitInv ==
  st.k = "mut" =>
    LET base == [i |-> st.i, op |-> st.m.op, p |-> st.m.p, t |-> st.m.t] IN
    IF (st.i * 31 + st.m.p) % CrossEvery = 0
    THEN AppendLine("syntax_mut.ndjson", base @@ [r |-> Mutate(Progs[st.i].ts, st.m)])
    ELSE AppendLine("syntax_mut.ndjson", base)

Emit == /\ TLCGet("stats").distinct > 0
        /\ PrintT(<<"MUTCOUNTS", TLCGet("stats").distinct, NProgs>>)
=============================================================================
