------------------------------- MODULE MC_Eq -------------------------------
(***************************************************************************)
(* Model-checking harness for C19 (equality is by content).                 *)
(*                                                                           *)
(* Contents: scalars, arrays of length 0..2 of ints / floats / strings,     *)
(* arrays nested once, tuples, structs, and identities (functions, cells).  *)
(* Producer expressions: small terms (literal, concatenation, slice,        *)
(* repetition, collect, partition left / right, filter, filter by type,     *)
(* through an any-typed parameter, through a union-typed cell, indexing)    *)
(* whose meaning Den is given with the list operators of Seqs.  The law     *)
(* ProducersDenote says every producer of a content denotes exactly that    *)
(* content, so the specification predicts `x == y', `x != y' and the arm    *)
(* that `match x { y => 1, => 0, }' selects from the contents alone.        *)
(*                                                                           *)
(* Rows (two-level fan-out as in MC_Types): row i > 0 = "content number i   *)
(* has been compared with every content".                                   *)
(***************************************************************************)
EXTENDS Seqs, SequencesExt, Json, IOUtils

CONSTANTS Chunks, Thorough

VARIABLE row

\* ---------------------------------------------------------------- contents
I0  == VInt(0)
I1  == VInt(1)
I2  == VInt(2)
F1  == VFloat(2)             \* 1.0
F15 == VFloat(3)             \* 1.5
FZ  == VFloat(0)             \* 0.0
FNZ == VNegZero              \* -0.0
NAN == VNaN
SA  == VStr(<<97>>)          \* "a"
S1  == VStr(<<49>>)          \* "1"
SE  == VStr(<<>>)            \* ""
AE  == VArr(<<>>)

Atoms == IF Thorough THEN {I0, I1, I2, F1, F15, FZ, FNZ, NAN, VInf, SA, S1, SE}
         ELSE {I1, I2, F1, FZ, FNZ, NAN, SA, S1}

ArraysOver(S) == UNION {{VArr(f) : f \in [1..n -> S]} : n \in 0..2}

ArrFlat == ArraysOver(Atoms)
Inner == {AE, VArr(<<I1>>), VArr(<<F1>>), VArr(<<NAN>>), VArr(<<SA>>), VArr(<<I1, I2>>)}
ArrNested == ArraysOver(Inner \cup {I1})
TupAlpha == {I1, F1, SA, AE, VArr(<<I1>>), NAN}
Tuples == {VTup(<<x, y>>) : x \in TupAlpha, y \in TupAlpha}
            \cup {VTup(<<I1, I1, I1>>), VTup(<<I1, I1, I2>>), VTup(<<I1, I1, AE>>)}
StructAlpha == {I1, F1, AE, VArr(<<I1>>)}
Structs == {VStruct(<<>>)}
            \cup {VStruct("a" :> x) : x \in StructAlpha \cup {NAN}}
            \cup {VStruct("b" :> x) : x \in StructAlpha}
            \cup {VStruct("a" :> x @@ "b" :> y) : x \in StructAlpha, y \in StructAlpha}
Scalars == Atoms \cup {VBool(TRUE), VBool(FALSE), VVoid}
\* identities: two functions with the same text, two cells with the same content
Idents == {VFn(0), VFn(1), VCell(0), VCell(1),
           VArr(<<VCell(0)>>), VArr(<<VCell(1)>>), VArr(<<VFn(0)>>), VArr(<<VFn(1)>>),
           VTup(<<VFn(0), I1>>), VTup(<<VFn(1), I1>>), VTup(<<VCell(0), VCell(1)>>), VTup(<<VCell(1), VCell(0)>>),
           VStruct("a" :> VCell(0)), VStruct("a" :> VCell(1))}

Contents == Scalars \cup ArrFlat \cup ArrNested \cup Tuples \cup Structs \cup Idents
CSeq == SetToSeq(Contents)
NC == Len(CSeq)

\* array contents whose producers are all tried against each other (suite B)
BSet == IF Thorough
        THEN {AE, VArr(<<I1>>), VArr(<<I1, I1>>), VArr(<<I1, I2>>), VArr(<<I2, I1>>), VArr(<<F1>>),
              VArr(<<NAN>>), VArr(<<NAN, NAN>>), VArr(<<SA>>), VArr(<<S1>>), VArr(<<FZ>>), VArr(<<FNZ>>),
              VArr(<<I1, F1>>), VArr(<<AE>>), VArr(<<VArr(<<I1>>)>>), VArr(<<AE, AE>>)}
        ELSE {AE, VArr(<<I1>>), VArr(<<I1, I1>>), VArr(<<I1, I2>>), VArr(<<F1>>), VArr(<<NAN>>),
              VArr(<<SA>>), VArr(<<FZ>>), VArr(<<FNZ>>), VArr(<<AE>>)}
BSeq == SetToSeq(BSet)
NBc == Len(BSeq)

\* ------------------------------------------------- producer expressions
Lit(v)          == [k |-> "lit", v |-> v]
Cat(l, r)       == [k |-> "cat", l |-> l, r |-> r]                       \* l + r
Slc(s, a, b, c) == [k |-> "slice", s |-> s, a |-> a, b |-> b, c |-> c]   \* s[a:b:c]
Rep(v, n)       == [k |-> "rep", v |-> v, n |-> n]                       \* [v; n]
Coll(s)         == [k |-> "collect", s |-> s]                            \* s~ $]
Part(s, pr, sd) == [k |-> "part", s |-> s, pred |-> pr, side |-> sd]     \* (s~ \ pred).side
Filt(s)         == [k |-> "filter", s |-> s]                             \* s~ ? notvoid $]
TFilt(s)        == [k |-> "tfilter", s |-> s]                            \* s~ ? int|float|string|[any] $]
AnyP(e)         == [k |-> "anyp", e |-> e]                               \* id(e), id := (x: any) -> any
CellU(e)        == [k |-> "cellu", e |-> e]                              \* *(mut U e), U a union type
Idx(s, i)       == [k |-> "at", s |-> s, i |-> i]                        \* s[i]
TupW(es)        == [k |-> "tup", es |-> es]                              \* (e1, e2)
ArrW(es)        == [k |-> "arr", es |-> es]                              \* [e1, ...]
StructW(e)      == [k |-> "struct1", e |-> e]                            \* struct{a := e}

NotVoid(v) == v.k # "void"
IsVoid(v)  == v.k = "void"
InFilterType(v) == v.k \in {"int", "float", "string", "array"}

RECURSIVE Den(_)
Den(e) ==
  CASE e.k = "lit"     -> e.v
    [] e.k = "cat"     -> ConcatV(Den(e.l), Den(e.r))
    [] e.k = "slice"   -> PySlice(Den(e.s), e.a, e.b, e.c)
    [] e.k = "rep"     -> RepeatV(Den(e.v), e.n)
    [] e.k = "collect" -> CollectSeq(Den(e.s).es)
    [] e.k = "part"    -> (IF e.pred = "notvoid" THEN PartitionSeq(Den(e.s).es, NotVoid)
                           ELSE PartitionSeq(Den(e.s).es, IsVoid)).es[e.side + 1]
    [] e.k = "filter"  -> VArr(FilterSeq(Den(e.s).es, NotVoid))
    [] e.k = "tfilter" -> VArr(FilterSeq(Den(e.s).es, InFilterType))
    [] e.k = "anyp"    -> Den(e.e)
    [] e.k = "cellu"   -> Den(e.e)
    [] e.k = "at"      -> At(Den(e.s), e.i).v
    [] e.k = "tup"     -> VTup([j \in 1..Len(e.es) |-> Den(e.es[j])])
    [] e.k = "arr"     -> VArr([j \in 1..Len(e.es) |-> Den(e.es[j])])
    [] e.k = "struct1" -> VStruct("a" :> Den(e.e))

P(name, e) == [p |-> name, e |-> e]

\* producers every content has
SimpleProducers(c) ==
  <<P("lit", Lit(c)), P("anyp", AnyP(Lit(c))), P("cellu", CellU(Lit(c))),
    P("at", Idx(Lit(VArr(<<c, VVoid>>)), XI(0))), P("at_neg", Idx(Lit(VArr(<<VVoid, c>>)), XI(-1)))>>

\* producers of an array content
ArrayProducers(c) ==
  LET es == c.es
      n  == Len(es)
      L(xs) == Lit(VArr(xs))
  IN {P("lit", Lit(c)), P("anyp", AnyP(Lit(c))), P("cellu", CellU(Lit(c)))}
     \cup {P("cat", Cat(L(SubSeq(es, 1, j)), L(SubSeq(es, j + 1, n)))) : j \in 0..n}      \* incl. [] + c, c + []
     \cup {P("slice", Slc(L(<<I0>> \o es \o <<VInt(9)>>), XI(1), XI(n + 1), XNone)),
           P("slice_rev", Slc(L(Rev(es)), XNone, XNone, XI(-1))),
           P("slice_neg", Slc(L(es \o <<SA>>), XNone, XI(-1), XNone))}
     \cup (IF n = 0 THEN {P("slice_empty", Slc(L(<<I1, I2>>), XI(5), XNone, XNone)),
                          P("slice_step0", Slc(L(<<I1, I2>>), XNone, XNone, XI(0))),
                          P("rep0", Rep(Lit(I1), 0)), P("rep0", Rep(Lit(SA), 0)),
                          P("rep0", Rep(Lit(VArr(<<I1>>)), 0)),
                          P("part_r_empty", Part(L(<<I1>>), "notvoid", 1)),
                          P("part_l_empty", Part(L(<<I1>>), "isvoid", 0)),
                          P("collect_empty_void", Filt(L(<<VVoid>>)))}
           ELSE {})
     \cup (IF n >= 1 /\ \A j \in 1..n : es[j] = es[1] THEN {P("rep", Rep(Lit(es[1]), n))} ELSE {})
     \cup {P("collect", Coll(L(es))),
           P("part_l", Part(L(es \o <<VVoid>>), "notvoid", 0)),
           P("part_r", Part(L(<<VVoid>> \o es), "isvoid", 1)),
           P("filter", Filt(L(<<VVoid>> \o es)))}
     \cup (IF \A j \in 1..n : InFilterType(es[j]) THEN {P("tfilter", TFilt(L(es \o <<VVoid>>)))} ELSE {})

\* the same producer under a constructor: nested once / tuple / struct
Wrappers == <<"id", "arr", "tup", "struct1">>
WrapE(w, e) == CASE w = "id" -> e
                 [] w = "arr" -> ArrW(<<e>>)
                 [] w = "tup" -> TupW(<<Lit(I1), e>>)
                 [] w = "struct1" -> StructW(e)
WrapV(w, v) == Den(WrapE(w, Lit(v)))

\* -------------------------------------------------------------------- laws
\* -0.0 == 0.0 is the only identification that ValEq makes between structurally different values
RECURSIVE Canon(_)
Canon(v) ==
  CASE v.k = "float" -> IF v.c = "negzero" THEN VFloat(0) ELSE v
    [] v.k \in {"array", "tuple"} -> [v EXCEPT !.es = [j \in 1..Len(v.es) |-> Canon(v.es[j])]]
    [] v.k = "struct" -> [v EXCEPT !.fs = [f \in DOMAIN v.fs |-> Canon(v.fs[f])]]
    [] OTHER -> v

EqLaws(c) ==
  /\ ~HasNaN(c) => ValEq(c, c)                                  \* reflexive without NaN
  /\ HasNaN(c) => ~ValEq(c, c)                                  \* IEEE: NaN is unequal to itself, element-wise
  /\ \A d \in Contents :
       /\ ValEq(c, d) = ValEq(d, c)                             \* symmetric
       /\ ValNe(c, d) = ~ValEq(c, d)                            \* != is the negation
       /\ c.k # d.k => ~ValEq(c, d)                             \* different kinds are unequal
       \* declaratively: equal iff NaN-free and structurally the same up to the sign of zero
       /\ ValEq(c, d) = (~HasNaN(c) /\ ~HasNaN(d) /\ Canon(c) = Canon(d))
       /\ ValEq(c, d) => \A e \in Contents : ValEq(d, e) => ValEq(c, e)    \* transitive

ProducersDenote(c) ==
  /\ \A j \in 1..Len(SimpleProducers(c)) : Den(SimpleProducers(c)[j].e) = c
  /\ c.k = "array" => \A p \in ArrayProducers(c) :
                         \A w \in SeqRange(Wrappers) : Den(WrapE(w, p.e)) = WrapV(w, c)

Cur == CSeq[row]
InvEq        == row > 0 => EqLaws(Cur)
InvProducers == row > 0 => ProducersDenote(Cur)

Init == row = 0
Next == \/ row = 0 /\ row' \in {-c : c \in 1..Chunks}
        \/ row < 0 /\ row' \in {i \in 1..NC : i % Chunks = (-row) % Chunks}
Spec == Init /\ [][Next]_row

\* ---------------------------------------------------------------- emission
B(x) == IF x THEN 1 ELSE 0
Out == IOEnv.VERIF_OUT

Emit ==
  /\ TLCGet("stats").distinct > 0
  \* suite A: every ordered pair of contents; the harness rotates through the simple producers
  /\ ndJsonSerialize(Out \o "/eq_contents.ndjson",
        [i \in 1..NC |-> [i |-> i, c |-> CSeq[i], nan |-> B(HasNaN(CSeq[i])), ps |-> SimpleProducers(CSeq[i]),
                          eq |-> [j \in 1..NC |-> B(ValEq(CSeq[i], CSeq[j]))]]])
  \* suite B: every pair of producers of every pair of small array contents, under every wrapper
  /\ ndJsonSerialize(Out \o "/eq_producers.ndjson",
        [i \in 1..NBc |-> [i |-> i, c |-> BSeq[i], ps |-> SetToSeq(ArrayProducers(BSeq[i])),
                           eq |-> [w \in 1..Len(Wrappers) |->
                                     [j \in 1..NBc |-> B(ValEq(WrapV(Wrappers[w], BSeq[i]), WrapV(Wrappers[w], BSeq[j])))]]]])
  /\ ndJsonSerialize(Out \o "/eq_axes.ndjson", <<[wrappers |-> Wrappers]>>)
  /\ PrintT(<<"UNIVERSE", NC, NBc, Cardinality(UNION {ArrayProducers(BSeq[i]) : i \in 1..NBc})>>)
=============================================================================
