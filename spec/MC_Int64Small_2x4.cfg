SPECIFICATION Spec
CONSTANTS
  N = 2
  B = 4
  Chunks = 16
INVARIANTS
  InvConst
  InvBool
  InvUnary
  InvBinary
  InvDiv
  InvShift
  InvPow
  InvTable
POSTCONDITION Done
CHECK_DEADLOCK FALSE
