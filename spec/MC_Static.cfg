SPECIFICATION Spec
CONSTANTS
  GridLevel = 0
  Chunks = 32
INVARIANTS
  TypeSound
  Progress
  SubjectNames
  NegReport
  PosReport
  HonestReport
POSTCONDITION Done
CHECK_DEADLOCK FALSE
