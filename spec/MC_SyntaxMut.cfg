SPECIFICATION Spec
CONSTANTS
  DenRep = 8
  CrossEvery = 5
INVARIANTS
  MutInv
  ProgInv
  OutcomeInv
  EmitInv
POSTCONDITION Emit
CHECK_DEADLOCK FALSE
