---------------------------- MODULE MC_PrintVal ----------------------------
(***************************************************************************)
(* Bounded model for C20 (literal values survive printing and re-parsing).  *)
(*                                                                           *)
(* Rows 1..VN: nested first-order values to depth 3 (plus one spine to       *)
(* depth 6) whose scalar leaves come from the boundary tables below; the     *)
(* laws LitRoundTrip / ProgRoundTrip are invariants, the emission gives the  *)
(* harness each value, the token structure of its text, its run-time tag and *)
(* what each route must answer.                                              *)
(* Rows VN+1..VN+FN: integer literal forms (radix prefix, digits,            *)
(* underscores, optional sign) with the value FromDigits assigns or          *)
(* "overflow"; the limb algorithm is validated against TLC's own integers    *)
(* on the small forms and across radices on the boundary table.              *)
(***************************************************************************)
EXTENDS Print, Json, IOUtils

CONSTANTS Chunks, Thorough
VARIABLE row

(***************************************************************************)
(* Leaf tables.                                                             *)
(***************************************************************************)
MaxMag  == <<9, 2, 2, 3, 3, 7, 2, 0, 3, 6, 8, 5, 4, 7, 7, 5, 8, 0, 7>>
MaxMag1 == <<9, 2, 2, 3, 3, 7, 2, 0, 3, 6, 8, 5, 4, 7, 7, 5, 8, 0, 6>>
IntLeaves == {LInt(TRUE, MinMag), LInt(TRUE, MaxMag), LInt(TRUE, <<1>>), LInt(FALSE, <<0>>), LInt(FALSE, <<1>>),
              LInt(FALSE, MaxMag1), LInt(FALSE, MaxMag), LInt(TRUE, <<1, 0>>), LInt(FALSE, <<4, 2, 9, 4, 9, 6, 7, 2, 9, 6>>),
              LInt(FALSE, <<1, 0, 0, 0, 0, 0, 0>>), LInt(TRUE, <<2, 1, 4, 7, 4, 8, 3, 6, 4, 8>>)}

\* name of the magnitude :> its IEEE-754 binary64 bit pattern (decimal); the float it names in the comment
FloatBits ==
     "zero"    :> "0"                        \* 0.0
  @@ "minsub"  :> "1"                        \* 5e-324
  @@ "maxsub"  :> "4503599627370495"         \* 2.225073858507201e-308
  @@ "minnorm" :> "4503599627370496"         \* 2.2250738585072014e-308
  @@ "e_m7"    :> "4502148214488346440"      \* 1e-7
  @@ "e_m5"    :> "4532020583610935537"      \* 1e-5
  @@ "e_m4"    :> "4547007122018943789"      \* 0.0001
  @@ "tenth"   :> "4591870180066957722"      \* 0.1
  @@ "third"   :> "4599676419421066581"      \* 0.3333333333333333
  @@ "half"    :> "4602678819172646912"      \* 0.5
  @@ "one"     :> "4607182418800017408"      \* 1.0
  @@ "nextone" :> "4607182418800017409"      \* 1.0000000000000002
  @@ "onehalf" :> "4609434218613702656"      \* 1.5
  @@ "pi"      :> "4614256656552045848"      \* 3.141592653589793
  @@ "p3sum"   :> "4599075939470750516"      \* 0.30000000000000004
  @@ "frac"    :> "4683220299150161609"      \* 123456.789
  @@ "e15p"    :> "4831355200913801215"      \* 999999999999999.9
  @@ "big15"   :> "4831355200913801216"      \* 1000000000000000.0
  @@ "two53"   :> "4845873199050653696"      \* 9007199254740992.0
  @@ "e16m"    :> "4846369599423283199"      \* 9999999999999998.0
  @@ "e16"     :> "4846369599423283200"      \* 1e16
  @@ "i64max"  :> "4890909195324358656"      \* 9.223372036854776e18
  @@ "e21"     :> "4921056587992461136"      \* 1e21
  @@ "e22"     :> "4936209963552724370"      \* 1e22
  @@ "e23"     :> "4950912855330343670"      \* 1e23
  @@ "e100"    :> "6103021453049119613"      \* 1e100
  @@ "e308"    :> "9214871658872686752"      \* 1e308
  @@ "max"     :> "9218868437227405311"      \* 1.7976931348623157e308
FloatLeaves == {LFloat(n, f) : n \in BOOLEAN, f \in DOMAIN FloatBits}

\* name :> Unicode scalar values
StrTable ==
     "empty"      :> <<>>
  @@ "a"          :> <<97>>
  @@ "words"      :> <<104, 105, 32, 116, 104, 101, 114, 101>>
  @@ "quote"      :> <<34>>
  @@ "aquoteb"    :> <<97, 34, 98>>
  @@ "squote"     :> <<39>>
  @@ "bs"         :> <<92>>
  @@ "quote_bs"   :> <<34, 92, 34, 92, 92>>
  @@ "bs_n"       :> <<92, 110>>                      \* a backslash and the letter n
  @@ "bs_u_text"  :> <<92, 117, 123, 52, 49, 125>>    \* the six characters \u{41}
  @@ "bs_x_text"  :> <<92, 120, 52, 49>>              \* the four characters \x41
  @@ "bs_oct"     :> <<92, 49, 48, 49>>               \* the four characters \101
  @@ "nl"         :> <<10>>
  @@ "tab_cr"     :> <<9, 13>>
  @@ "crlf"       :> <<97, 13, 10, 98>>               \* a CR LF b: the pair stays a pair
  @@ "lfcr"       :> <<10, 13, 13, 10, 10>>
  @@ "nul"        :> <<0>>
  @@ "nul_digit"  :> <<0, 49>>                        \* NUL followed by the digit 1
  @@ "nul_mid"    :> <<97, 0, 55, 98>>                \* a NUL 7 b
  @@ "nul_8"      :> <<0, 56>>                        \* NUL followed by a non-octal digit
  @@ "nul_nul_0"  :> <<0, 0, 48>>
  @@ "soh"        :> <<1>>
  @@ "bel_bs_ff"  :> <<7, 8, 12, 11>>
  @@ "esc"        :> <<27>>
  @@ "us"         :> <<31>>
  @@ "del"        :> <<127>>
  @@ "c1_80"      :> <<128>>
  @@ "c1_nel"     :> <<133>>
  @@ "c1_9f"      :> <<159>>
  @@ "nbsp"       :> <<160>>
  @@ "shy"        :> <<173>>
  @@ "latin"      :> <<233, 223>>
  @@ "combining"  :> <<101, 769>>                     \* e + combining acute
  @@ "lead_comb"  :> <<769, 101>>                     \* a combining mark first
  @@ "zwsp"       :> <<8203>>
  @@ "ls"         :> <<8232, 8233>>                   \* line / paragraph separator
  @@ "bom"        :> <<65279>>
  @@ "d7ff"       :> <<55295>>
  @@ "pua"        :> <<57344>>
  @@ "ffff"       :> <<65535>>
  @@ "cjk"        :> <<26085, 26412>>
  @@ "astral"     :> <<65536>>
  @@ "emoji"      :> <<128512>>
  @@ "max_cp"     :> <<1114111>>
  @@ "braces"     :> <<123, 125, 91, 93, 40, 41, 44>> \* { } [ ] ( ) ,  inside a string
  @@ "mix"        :> <<34, 92, 0, 49, 128512, 769, 10, 39>>
StrLeaves == {LStr(s) : s \in DOMAIN StrTable}

Leaves == IntLeaves \cup FloatLeaves \cup StrLeaves \cup {LBool(TRUE), LBool(FALSE), LVoid}

(***************************************************************************)
(* Nested values.                                                           *)
(***************************************************************************)
M1 == LInt(TRUE, <<1>>)
NZ == LFloat(TRUE, "zero")
R  == {M1, LInt(FALSE, <<0>>), LInt(TRUE, MinMag), NZ, LFloat(FALSE, "e16"), LStr("nul_digit"),
       LStr("quote_bs"), LVoid, LBool(TRUE)}
R3 == {M1, LFloat(TRUE, "minsub"), LStr("nul_digit"), LVoid}
Wide == IF Thorough THEN Leaves ELSE R

Containers(A, Bs, T3) ==          \* A: first components, Bs: second components, T3: alphabet of the triples
     {LArr(<<x>>) : x \in A}
  \cup {LArr(<<x, y>>) : x \in A, y \in Bs}
  \cup {LTup(<<x, y>>) : x \in A, y \in Bs}
  \cup {LTup(<<y, x>>) : x \in A, y \in Bs}
  \cup {LTup(<<x, y, z>>) : x \in T3, y \in T3, z \in T3}

D1 == {LArr(<<>>)} \cup Containers(Leaves, Wide, R3)
Pick1 == {LArr(<<>>), LArr(<<M1>>), LArr(<<LInt(TRUE, MinMag)>>), LArr(<<LStr("nul_digit"), NZ>>),
          LTup(<<M1, LStr("quote_bs")>>), LTup(<<LVoid, LBool(TRUE)>>),
          LArr(<<LFloat(FALSE, "e16"), LFloat(TRUE, "minsub")>>),
          LTup(<<LInt(FALSE, <<1>>), LInt(FALSE, <<2>>), LInt(FALSE, <<3>>)>>)}
S2 == R \cup Pick1 \cup (IF Thorough THEN {LArr(<<x>>) : x \in R} \cup {LTup(<<x, M1>>) : x \in R} ELSE {})
D2 == Containers(S2, S2, R3 \cup {LArr(<<M1>>), LTup(<<M1, NZ>>)})
Pick2 == {LArr(<<LArr(<<>>)>>), LArr(<<LArr(<<M1>>), LArr(<<>>)>>), LTup(<<LArr(<<M1>>), LTup(<<LVoid, LBool(TRUE)>>)>>),
          LArr(<<LTup(<<M1, LStr("quote_bs")>>), LTup(<<M1, LStr("quote_bs")>>)>>),
          LTup(<<LArr(<<LStr("nul_digit"), NZ>>), M1>>), LArr(<<LArr(<<LInt(TRUE, MinMag)>>)>>)}
S3 == R3 \cup Pick2 \cup (IF Thorough THEN Pick1 ELSE {})
D3 == Containers(S3, S3, IF Thorough THEN R3 \cup {LArr(<<LArr(<<M1>>)>>)} ELSE {M1, LVoid, LArr(<<LArr(<<M1>>)>>)})

RECURSIVE Spine(_)
Spine(d) == IF d = 0 THEN M1
            ELSE IF d % 2 = 1 THEN LArr(<<Spine(d - 1), LStr("nul_digit")>>)
            ELSE LTup(<<Spine(d - 1), NZ>>)
Spines == {Spine(d) : d \in 1..6}

VU == Leaves \cup D1 \cup D2 \cup D3 \cup Spines
VSeq == SetToSeq(VU)
VN == Len(VSeq)

(***************************************************************************)
(* Integer literal forms.                                                   *)
(***************************************************************************)
Zeros(n) == [i \in 1..n |-> "0"]
RECURSIVE Underscored(_)
Underscored(cs) == IF Len(cs) <= 1 THEN cs ELSE <<cs[1], "_">> \o Underscored(Tail(cs))

\* boundary magnitudes (limbs) with their decimal digits
B8(a, b, c, d, e, f, g, h) == <<a, b, c, d, e, f, g, h>>
Table == <<
  [l |-> Limbs0,                                    dec |-> <<0>>],
  [l |-> B8(1, 0, 0, 0, 0, 0, 0, 0),                dec |-> <<1>>],
  [l |-> B8(255, 0, 0, 0, 0, 0, 0, 0),              dec |-> <<2, 5, 5>>],
  [l |-> B8(0, 1, 0, 0, 0, 0, 0, 0),                dec |-> <<2, 5, 6>>],
  [l |-> B8(21, 205, 91, 7, 0, 0, 0, 0),            dec |-> <<1, 2, 3, 4, 5, 6, 7, 8, 9>>],
  [l |-> B8(255, 255, 255, 127, 0, 0, 0, 0),        dec |-> <<2, 1, 4, 7, 4, 8, 3, 6, 4, 7>>],
  [l |-> B8(0, 0, 0, 0, 1, 0, 0, 0),                dec |-> <<4, 2, 9, 4, 9, 6, 7, 2, 9, 6>>],
  [l |-> B8(0, 0, 0, 0, 0, 0, 32, 0),               dec |-> <<9, 0, 0, 7, 1, 9, 9, 2, 5, 4, 7, 4, 0, 9, 9, 2>>],
  [l |-> B8(255, 255, 255, 255, 255, 255, 255, 127), dec |-> MaxMag],
  [l |-> MinMagLimbs,                               dec |-> MinMag],
  [l |-> B8(255, 255, 255, 255, 255, 255, 255, 255), dec |-> <<1, 8, 4, 4, 6, 7, 4, 4, 0, 7, 3, 7, 0, 9, 5, 5, 1, 6, 1, 5>>] >>

Decorate(cs, radix) ==
  {cs, Zeros(3) \o cs, Underscored(cs), cs \o <<"_", "_">>, Zeros(70) \o cs}
  \cup (IF radix # 10 THEN {<<"_", "_">> \o cs, <<"_">> \o Underscored(cs) \o <<"_">>} ELSE {})

Bodies(radix) ==
  LET fromTable == UNION {IF radix = 10 THEN Decorate(CharsOf(Table[i].dec, FALSE), 10)
                          ELSE Decorate(CharsOf(ToRadix(Table[i].l, radix), FALSE), radix)
                               \cup (IF radix = 16 THEN Decorate(CharsOf(ToRadix(Table[i].l, 16), TRUE), 16) ELSE {})
                          : i \in 1..Len(Table)}
      beyond == CASE radix = 16 -> {<<"1">> \o Zeros(16), <<"1">> \o Zeros(20), <<"f", "F">> \o Zeros(15)}
                  [] radix = 2  -> {<<"1">> \o Zeros(64), <<"1", "1">> \o Zeros(63)}
                  [] radix = 8  -> {<<"2">> \o Zeros(21), <<"1">> \o Zeros(22), <<"3", "7">> \o Zeros(20)}
                  [] radix = 10 -> {CharsOf(<<1, 8, 4, 4, 6, 7, 4, 4, 0, 7, 3, 7, 0, 9, 5, 5, 1, 6, 1, 6>>, FALSE),
                                    CharsOf([i \in 1..20 |-> 9], FALSE), <<"1">> \o Zeros(24),
                                    CharsOf(<<9, 2, 2, 3, 3, 7, 2, 0, 3, 6, 8, 5, 4, 7, 7, 5, 8, 0, 9>>, FALSE)}
      top == DigitChars[radix]
      alpha == {"0", "1", top, "_"} \cup (IF radix = 16 THEN {"A"} ELSE {})
      n == IF Thorough THEN 4 ELSE 3
      short == {b \in UNION {[1..len -> alpha] : len \in 1..n} : WellFormedBody(b, radix)}
  IN fromTable \cup beyond \cup short

Forms == UNION {{[radix |-> r, body |-> b, neg |-> s] : b \in Bodies(r), s \in BOOLEAN} : r \in {2, 8, 10, 16}}
FSeq == SetToSeq(Forms)
FN == Len(FSeq)

(***************************************************************************)
(* Invariants.                                                              *)
(***************************************************************************)
IsVal == row > 0 /\ row <= VN
IsForm == row > VN
CurV == VSeq[row]
CurF == FSeq[row - VN]

InvWellFormed == IsVal => WellFormedVal(CurV) /\ AllIntsSigned(CurV)
InvLitRoundTrip == IsVal => LitRoundTrip(CurV)
InvProgRoundTrip == IsVal => ProgRoundTrip(CurV)
\* the parentheses-free reading agrees: both readers see the same value unless MIN_INT is inside
InvRoutesAgree == IsVal => (ContainsMinInt(CurV) \/ FromStrOutcome(PrintVal(CurV)) = ProgOutcome(PrintVal(CurV)))
InvMinIntOnly == row = 0 => \A v \in IntLeaves : MinIntOnly(v) /\ IsI64(v)
InvDecimalTable == row = 0 => \A i \in 1..Len(Table) :
                      LET m == FromDigits(Table[i].dec, 10) IN m.ok /\ m.l = Table[i].l
InvRadixAgree == row = 0 => \A i \in 1..Len(Table) : \A r \in {2, 8, 16} :
                      LET m == FromDigits(ToRadix(Table[i].l, r), r) IN m.ok /\ m.l = Table[i].l
InvLeafTables == row = 0 => /\ \A s \in DOMAIN StrTable : \A i \in 1..Len(StrTable[s]) :
                                  LET c == StrTable[s][i] IN c \in 0..1114111 /\ ~(c \in 55296..57343)
                            /\ Cardinality({FloatBits[f] : f \in DOMAIN FloatBits}) = Cardinality(DOMAIN FloatBits)

\* forms
FormDigits == BodyDigits(CurF.body)
InvFormWellFormed == IsForm => WellFormedBody(CurF.body, CurF.radix) /\ \A i \in 1..Len(FormDigits) : FormDigits[i] \in 0..(CurF.radix - 1)
\* the limb algorithm equals Horner's rule on TLC's integers wherever those suffice (< 2^24 here)
SmallEnough(ds, radix) == Len(ds) <= (CASE radix = 2 -> 24 [] radix = 8 -> 8 [] radix = 10 -> 7 [] radix = 16 -> 6)
InvFormSmall == IsForm => LET ds == FormDigits
                              nz == IF \E i \in 1..Len(ds) : ds[i] # 0
                                    THEN SubSeq(ds, CHOOSE i \in 1..Len(ds) : ds[i] # 0 /\ \A j \in 1..(i - 1) : ds[j] = 0, Len(ds))
                                    ELSE <<0>>
                              m == FromDigits(ds, CurF.radix)
                          IN SmallEnough(nz, CurF.radix) =>
                               /\ m.ok /\ LimbsToNat(m.l) = Horner(nz, CurF.radix, 1, 0)
                               /\ \A j \in 5..8 : m.l[j] = 0
\* leading zeros and underscores do not change the value; the two routes differ exactly at -2^63
InvFormRoutes == IsForm =>
   LET a == LitFromStr(CurF.neg, CurF.radix, CurF.body)
       b == LitInProgram(CurF.neg, CurF.radix, CurF.body)
       m == FromDigits(FormDigits, CurF.radix)
   IN /\ (a # b) <=> (CurF.neg /\ m.ok /\ m.l = MinMagLimbs)
      /\ (a # b) => a = LitInt(MinMagLimbs) /\ b = LitOverflow
      /\ LitFromStr(CurF.neg, CurF.radix, <<"0">> \o CurF.body) = a
      /\ LitFromStr(CurF.neg, CurF.radix, CurF.body \o <<"_">>) = a
      /\ (m.ok /\ m.l = Limbs0) => a = LitInt(Limbs0)                     \* -0 is 0

\* near misses for Variable::from_str: the texts of a few values with one token dropped
NegBase == Leaves \cup Pick1 \cup Pick2 \cup Spines \cup {LTup(<<M1, LInt(FALSE, <<0>>), NZ>>), LArr(<<M1, M1>>)}
NegToks == UNION {{DropTok(PrintVal(v), p) : p \in 1..Len(PrintVal(v))} : v \in NegBase}
NegSeq == SetToSeq(NegToks)
InvNearMisses == IsVal /\ CurV \in NegBase =>
                   \A p \in 1..Len(PrintVal(CurV)) : LitPrintsBack(DropTok(PrintVal(CurV), p))
\* parentheses around a whole value are transparent in a program, and not a literal for from_str
Parenthesised(toks) == <<Pn("(")>> \o toks \o <<Pn(")")>>
InvBrackets == IsVal => /\ ProgOutcome(Parenthesised(PrintVal(CurV))) = ProgOutcome(PrintVal(CurV))
                        /\ FromStrOutcome(Parenthesised(PrintVal(CurV))) = Syntax

Init == row = 0
Next == \/ row = 0 /\ row' \in {-c : c \in 1..Chunks}
        \/ row < 0 /\ row' \in {i \in 1..(VN + FN) : i % Chunks = (-row) % Chunks}
Spec == Init /\ [][Next]_row

(***************************************************************************)
(* Emission.                                                                *)
(***************************************************************************)
RECURSIVE StrCat(_)
StrCat(cs) == IF Len(cs) = 0 THEN "" ELSE cs[1] \o StrCat(Tail(cs))
DigitsStr(mag) == StrCat(CharsOf(mag, FALSE))
B(x) == IF x THEN 1 ELSE 0

RECURSIVE TWire(_)
TWire(t) ==
  CASE t.k = "array" -> [k |-> "array", e |-> TWire(t.e)]
    [] t.k = "tuple" -> [k |-> "tuple", es |-> [i \in 1..Len(t.es) |-> TWire(t.es[i])]]
    [] t.k = "multi" -> [k |-> "multi", ms |-> SetToSeq({TWire(m) : m \in t.ms})]
    [] OTHER -> t

RECURSIVE VWire(_)
VWire(v) ==
  CASE v.k = "bool"   -> [k |-> "bool", bv |-> B(v.b)]
    [] v.k = "int"    -> [k |-> "int", d |-> (IF v.neg THEN "-" ELSE "") \o DigitsStr(v.mag)]
    [] v.k = "float"  -> [k |-> "float", bits |-> FloatBits[v.fid], neg |-> B(v.neg), fid |-> v.fid]
    [] v.k = "string" -> [k |-> "string", cps |-> StrTable[v.sid], sid |-> v.sid]
    [] v.k = "void"   -> [k |-> "void"]
    [] v.k \in {"array", "tuple"} -> [k |-> v.k, es |-> [i \in 1..Len(v.es) |-> VWire(v.es[i])]]

TokWire(t) ==
  CASE t.a = "p"     -> [a |-> "p", c |-> t.c]
    [] t.a = "int"   -> [a |-> "int", c |-> DigitsStr(t.mag)]
    [] t.a = "bool"  -> [a |-> "bool", c |-> IF t.b THEN "true" ELSE "false"]
    [] OTHER         -> [a |-> t.a, c |-> ""]


Out == IOEnv.VERIF_OUT
Emit ==
  /\ TLCGet("stats").distinct > 0
  /\ ndJsonSerialize(Out \o "/print_vals.ndjson",
        [i \in 1..VN |->
           LET v == VSeq[i]
               toks == PrintVal(v)
           IN [i |-> i, v |-> VWire(v), toks |-> [j \in 1..Len(toks) |-> TokWire(toks[j])],
               tag |-> TWire(VTag(v)),
               \* (when the status is "ok" the value denoted is v itself: InvLitRoundTrip / InvProgRoundTrip)
               from_str |-> FromStrOutcome(toks).st, prog |-> ProgOutcome(toks).st,
               paren_prog |-> ProgOutcome(Parenthesised(toks)).st]])
  /\ ndJsonSerialize(Out \o "/print_lits.ndjson",
        [i \in 1..FN |->
           LET f == FSeq[i] IN
           [i |-> i, text |-> StrCat(LitPrefix(f.radix) \o f.body), neg |-> B(f.neg), radix |-> f.radix,
            from_str |-> LitFromStr(f.neg, f.radix, f.body), prog |-> LitInProgram(f.neg, f.radix, f.body)]])
  /\ ndJsonSerialize(Out \o "/print_negvals.ndjson",
        [i \in 1..Len(NegSeq) |->
           LET o == FromStrOutcome(NegSeq[i]) IN
           [toks |-> [j \in 1..Len(NegSeq[i]) |-> TokWire(NegSeq[i][j])],
            atoms |-> [j \in 1..Len(NegSeq[i]) |->
                         LET t == NegSeq[i][j] IN
                         IF t.a = "float" THEN VWire(LFloat(FALSE, t.fid))
                         ELSE IF t.a = "str" THEN VWire(LStr(t.sid)) ELSE [k |-> "void"]],
            st |-> o.st, v |-> IF o.st = "ok" THEN VWire(o.v) ELSE [k |-> "void"]]])
  /\ PrintT(<<"PRINTVAL_UNIVERSE", VN, FN, Cardinality(Leaves), Len(NegSeq)>>)
=============================================================================
