----------------------------- MODULE MC_Syntax -----------------------------
(***************************************************************************)
(* Bounded model of Syntax (C03): the state graph whose states are the       *)
(* cases.                                                                    *)
(*                                                                           *)
(*   state  st = [k |-> "start"]                                             *)
(*             | [k |-> "toks", ts]      token sequence under construction   *)
(*             | [k |-> "ast",  a]       AST under construction              *)
(*             | [k |-> "fold", ws, seed] folding case under construction    *)
(*   actions AppendToken, StartLeaf, ApplyConstructor (leaf -> depth 2),     *)
(*           ApplyConstructorRep (representative -> restricted depth 3),     *)
(*           PickSeed / Wrap (folding sub-suite)                             *)
(*   invariants: well-formedness of what is emitted (alphabet, sorts, depth, *)
(*           bracket discipline of rendered ASTs, nesting bound) and the     *)
(*           outcome machine (every prediction admits only Program/Error).   *)
(*                                                                           *)
(* POSTCONDITION Emit writes every case with the specification's prediction  *)
(* to VERIF_OUT/syntax_cases.ndjson and the binding contexts to              *)
(* VERIF_OUT/syntax_contexts.ndjson, and checks that the emitted sets are    *)
(* exactly the reachable states.                                             *)
(***************************************************************************)
EXTENDS Syntax, Json, IOUtils

CONSTANTS Thorough,   \* FALSE: quick tier bounds
          Den3,       \* keep one of Den3 length-3 token sequences in the sampled part
          DenA        \* quick tier: keep one of DenA applications of a three-child constructor to leaves

VARIABLE st

Seed == atoi(IOEnv.VERIF_SEED) % 1000

(***************************************************************************)
(* (a) token sequences of length <= 3                                        *)
(***************************************************************************)
TokSeq == SetToSeq(Tokens)
TokIdx == [tk \in Tokens |-> CHOOSE i \in 1..Len(TokSeq) : TokSeq[i] = tk]
Hash3(ts) == LET i == TokIdx[ts[1]] j == TokIdx[ts[2]] l == TokIdx[ts[3]] IN
             i * i * 3 + i * j * 5 + j * l * 7 + l * 11 + i * l * 13 + j * 17 + Seed
InCore(ts) == \A i \in 1..Len(ts) : ts[i] \in CoreTokens
\* quick: a seeded sample of the core alphabet's triples; thorough: all of them plus a seeded
\* sample of the triples that use a non-core token
Keep3(ts) == IF Thorough THEN InCore(ts) \/ Hash3(ts) % Den3 = 0
             ELSE InCore(ts) /\ Hash3(ts) % Den3 = 0
MaxLen == 3

(***************************************************************************)
(* (b) ASTs                                                                  *)
(***************************************************************************)
EL(ts) == Leaf("E", ts)
N(name, cs) == Node(FormOf(name), cs)

\* one representative per type shape (each of depth <= 2), including one whose folding fails
ERepsAll == {
  N("bin:+", <<EL(<<"x">>), EL(<<"1">>)>>),            \* int
  N("bin:*", <<EL(<<"y">>), EL(<<"1.5">>)>>),          \* float
  N("bin:+", <<EL(<<"s">>), EL(<<"\"s\"">>)>>),        \* string
  N("bin:==", <<EL(<<"x">>), EL(<<"1">>)>>),           \* bool
  N("arr2", <<EL(<<"x">>), EL(<<"1">>)>>),             \* [int]
  N("arr2", <<EL(<<"1">>), EL(<<"1.5">>)>>),           \* [int|float]
  N("tup2", <<EL(<<"1">>), EL(<<"\"s\"">>)>>),         \* tuple
  N("struct1", <<EL(<<"1">>)>>),                       \* struct
  EL(FnLit),                                           \* function
  N("mut", <<EL(<<"x">>)>>),                           \* cell
  N("post:~", <<EL(<<"a">>)>>),                        \* iterator
  EL(<<"()">>),                                        \* void
  EL(<<"[", "]">>),                                    \* [!]
  EL(<<"u">>),                                         \* union
  EL(<<"w">>),                                         \* any
  N("bin:/", <<EL(<<"1">>), EL(<<"0">>)>>),            \* constant whose folding fails
  N("call1", <<EL(<<"f">>), EL(<<"x">>)>>),            \* call
  N("at", <<EL(<<"a">>), EL(<<"0">>)>>),               \* indexing
  N("pre:*", <<EL(<<"c">>)>>),                         \* dereference
  N("bin:=", <<EL(<<"c">>), EL(<<"1">>)>>),            \* assignment
  N("bin:@", <<EL(<<"it">>), EL(<<"f">>)>>),           \* mapped iterator
  N("mod1", <<EL(<<"1">>)>>)                           \* module
}
ERepsQuick == {
  N("bin:+", <<EL(<<"x">>), EL(<<"1">>)>>),
  N("arr2", <<EL(<<"1">>), EL(<<"1.5">>)>>),
  N("tup2", <<EL(<<"1">>), EL(<<"\"s\"">>)>>),
  EL(FnLit),
  N("mut", <<EL(<<"x">>)>>),
  N("post:~", <<EL(<<"a">>)>>),
  EL(<<"u">>),
  N("bin:/", <<EL(<<"1">>), EL(<<"0">>)>>)
}
SRepsAll == {
  N("block1", <<EL(<<"x">>)>>),
  N("ifelse", <<EL(<<"b">>), EL(<<"1">>), EL(<<"x">>)>>),
  N("match_td", <<EL(<<"u">>), Leaf("T", <<"int">>), EL(<<"1">>)>>),
  N("loop_blk", <<EL(<<"x">>)>>),
  N("for", <<EL(<<"it">>), EL(<<"x">>)>>),
  N("return1", <<EL(<<"x">>)>>),
  N("set", <<EL(<<"1">>)>>),
  Leaf("S", <<"break">>),
  Leaf("S", <<"return">>),
  ImportLeaf("valid")
}
SRepsQuick == {
  N("ifelse", <<EL(<<"b">>), EL(<<"1">>), EL(<<"x">>)>>),
  N("return1", <<EL(<<"x">>)>>),
  Leaf("S", <<"break">>)
}
EReps == IF Thorough THEN ERepsAll ELSE ERepsQuick
SReps == IF Thorough THEN SRepsAll ELSE SRepsQuick
TRepsUsed == IF Thorough THEN TReps ELSE QTReps

Arity(f) == Len(f.sorts)
EForms == ExprForms \cup StmtForms

\* depth 2: children are leaves
Pool1(f, sort) ==
  CASE sort = "E" -> ELeaves
    [] sort = "S" -> ELeaves \cup SLeaves
    [] sort = "T" -> TReps
\* restricted depth 3: children are the representatives
Pool2(f, sort) ==
  CASE sort = "E" -> EReps
    [] sort = "S" -> EReps \cup SReps
    [] sort = "T" -> TRepsUsed
\* the type grammar: over the type leaves, then over the type representatives
PoolT1(f, sort) == TLeaves
PoolT2(f, sort) == TRepsUsed

L0 == ELeaves \cup SLeaves \cup TLeaves \cup TReps \cup {ImportSelf}
\* quick tier: the applications of three-child constructors to leaves are a seeded sample (the
\* representatives are always kept, so that depth 3 is reached)
LeafSeq == SetToSeq(L0)
LeafIdx == [l \in L0 |-> CHOOSE i \in 1..Len(LeafSeq) : LeafSeq[i] = l]
Keep1(n) == \/ Thorough \/ Len(n.cs) < 3 \/ n \in EReps \cup SReps
            \/ (LeafIdx[n.cs[1]] * 7 + LeafIdx[n.cs[2]] * 13 + LeafIdx[n.cs[3]] * 31
                 + LeafIdx[n.cs[1]] * LeafIdx[n.cs[3]] + Len(n.f.tpl) * 5 + Seed) % DenA = 0
\* depth 2 (L1) = every constructor over the leaves, restricted depth 3 (L2) = every constructor over
\* the representatives; both are enumerated by the actions below, never as one big set
InL1(n) == /\ ~IsLeaf(n) /\ n.f \in EForms /\ Keep1(n)
           /\ \A i \in DOMAIN n.cs : n.cs[i] \in Pool1(n.f, n.f.sorts[i])

(***************************************************************************)
(* folding sub-suite                                                         *)
(***************************************************************************)
AllSeeds == FoldSeeds \cup {FoldSeed(ts, "none") : ts \in UnfoldedSeeds} \cup CheckerSeeds \cup ValidSeeds
FoldRow(s) ==
  IF s.ws = <<>> THEN [ws |-> <<"bare">>, ts |-> s.seed.ts,
                       expect |-> CASE s.seed.class = "none" -> "any" [] s.seed.class = "Accepted" -> "Program"
                                    [] s.seed.class = "Rejected" -> "Error" [] OTHER -> "Error:" \o s.seed.class]
  ELSE LET c == FoldCase(s.ws, s.seed) IN
       [ws |-> c.ws, ts |-> c.ts, expect |-> IF s.seed.class = "none" THEN "any" ELSE c.expect]

(***************************************************************************)
(* state machine                                                             *)
(***************************************************************************)
Init == st = [k |-> "start"]

\* The actions quantify over the constant pools instead of building successor *sets*: TLC sorts
\* every set it enumerates, and sets of tens of thousands of records are slow to sort.
AppendToken ==
  \E tk \in Tokens :
    /\ \/ st.k = "start" /\ st' = [k |-> "toks", ts |-> <<tk>>]
       \/ st.k = "toks" /\ Len(st.ts) < MaxLen /\ st' = [k |-> "toks", ts |-> Append(st.ts, tk)]
    /\ Len(st'.ts) = 3 => Keep3(st'.ts)

StartLeaf == st.k = "start" /\ \E l \in L0 : st' = [k |-> "ast", a |-> l]

\* "apply a constructor of FS to the AST under construction": the new node has `a` in slot i and
\* members of the pools in the other slots
Others(i) == CASE i = 1 -> <<2, 3>> [] i = 2 -> <<1, 3>> [] i = 3 -> <<1, 2>>
Grow(a, FS, Pool(_, _)) ==
  \E f \in FS : \E i \in 1..Len(f.sorts) :
    /\ a \in Pool(f, f.sorts[i])
    /\ CASE Len(f.sorts) = 1 -> st' = [k |-> "ast", a |-> Node(f, <<a>>)]
         [] Len(f.sorts) = 2 ->
              \E c \in Pool(f, f.sorts[3 - i]) :
                 st' = [k |-> "ast", a |-> Node(f, IF i = 1 THEN <<a, c>> ELSE <<c, a>>)]
         [] Len(f.sorts) = 3 ->
              \E c \in Pool(f, f.sorts[Others(i)[1]]), d \in Pool(f, f.sorts[Others(i)[2]]) :
                 st' = [k |-> "ast", a |-> Node(f, [j \in 1..3 |-> IF j = i THEN a
                                                      ELSE IF j = Others(i)[1] THEN c ELSE d])]

ApplyConstructor ==
  /\ st.k = "ast" /\ IsLeaf(st.a)
  /\ \/ Grow(st.a, EForms, Pool1) /\ Keep1(st'.a)
     \/ Grow(st.a, TypeForms, PoolT1)

\* a representative that is a node is itself reached by ApplyConstructor from one of its leaves
ApplyConstructorRep ==
  /\ st.k = "ast" /\ st.a \in EReps \cup SReps \cup TRepsUsed
  /\ (Grow(st.a, EForms, Pool2) \/ Grow(st.a, TypeForms, PoolT2))

PickSeed == st.k = "start" /\ \E sd \in AllSeeds : st' = [k |-> "fold", ws |-> <<>>, seed |-> sd]
Wrap ==
  /\ st.k = "fold"
  /\ \E w \in Wrappers :
       \/ st.ws = <<>> /\ st' = [st EXCEPT !.ws = <<w>>]
       \/ Len(st.ws) = 1 /\ st.ws[1] \in InnerWrappers /\ st' = [st EXCEPT !.ws = <<w, st.ws[1]>>]

Next == AppendToken \/ StartLeaf \/ ApplyConstructor \/ ApplyConstructorRep \/ PickSeed \/ Wrap
Spec == Init /\ [][Next]_st

(***************************************************************************)
(* invariants                                                                *)
(***************************************************************************)
TokInv == st.k = "toks" => /\ Len(st.ts) \in 1..MaxLen
                           /\ \A i \in 1..Len(st.ts) : st.ts[i] \in Tokens
AstInv == st.k = "ast" =>
  LET ts == Render(st.a) IN
  /\ WellSorted(st.a)
  /\ Depth(st.a) <= 3
  /\ Len(ts) > 0
  /\ \A i \in 1..Len(ts) : KnownTok(ts[i])
  /\ Balanced(ts)
  /\ Nesting(ts) <= MaxNesting
FoldInv == st.k = "fold" =>
  LET r == FoldRow(st) IN
  /\ Balanced(r.ts)
  /\ \A i \in 1..Len(r.ts) : KnownTok(r.ts[i])
  /\ r.expect \in Predictions
  /\ Nesting(r.ts) <= MaxNesting
\* the outcome machine: whatever the case, exactly the outcomes Program and Error are admissible
Prediction == IF st.k = "fold" THEN FoldRow(st).expect ELSE "any"
OutcomeInv == /\ Admissible(Prediction) # {}
              /\ Admissible(Prediction) \subseteq Outcomes
              /\ \A o \in Admissible(Prediction) : OutcomeStep("Text", o)
              /\ ~OutcomeStep("Text", "Panic") /\ ~OutcomeStep("Text", "Abort")
\* (checked in one successor state rather than in the initial state: TLC evaluates the initial state on
\* the JVM's main thread, whose stack is too small for the recursion over the longest context)
ContextInv == (st.k = "toks" /\ st.ts = <<"(">>) =>
  /\ \A c \in Contexts \cup {TypeContext} :
        /\ Balanced(c.pre \o c.post)
        /\ \A i \in 1..Len(c.pre \o c.post) : KnownTok((c.pre \o c.post)[i])
  /\ Balanced(HostPrelude)
  /\ \A f1 \in Forms : \A f2 \in Forms : f1.name = f2.name => f1 = f2
  /\ \A f \in Forms : \A j \in 1..Len(f.tpl) : f.tpl[j] \in Slots => SlotIx(f.tpl[j]) <= Len(f.sorts)
  /\ \A f \in Forms : \A i \in 1..Len(f.sorts) : \E j \in 1..Len(f.tpl) : f.tpl[j] \in Slots /\ SlotIx(f.tpl[j]) = i
  /\ \A rep \in EReps \cup SReps : rep \in L0 \/ InL1(rep)      \* every representative is reached
  /\ TRepsUsed \subseteq L0

(***************************************************************************)
(* emission: every state is a case; it is written, with the prediction, the  *)
(* moment TLC discovers it (invariants are evaluated exactly once per        *)
(* distinct state).  The driver checks lines written = distinct states - 1.  *)
(***************************************************************************)
Out == IOEnv.VERIF_OUT
AppendLine(file, row) ==
  Serialize(ToJson(row) \o "\n", Out \o "/" \o file,
            [format |-> "TXT", charset |-> "UTF-8", openOptions |-> <<"WRITE", "CREATE", "APPEND">>]).exitValue = 0

AstRow(a) == [suite |-> IF a = ImportSelf THEN "import_self" ELSE IF a.sort = "T" THEN "type" ELSE "ast",
              form |-> IF IsLeaf(a) THEN "leaf" ELSE a.f.name, sort |-> a.sort, depth |-> Depth(a),
              ts |-> Render(a), expect |-> "any"]

EmitInv ==
  CASE st.k = "toks" -> AppendLine("syntax_tok.ndjson", [suite |-> "tok", ts |-> st.ts, expect |-> "any"])
    [] st.k = "ast"  -> AppendLine("syntax_ast.ndjson", AstRow(st.a))
    [] st.k = "fold" -> LET r == FoldRow(st) IN
                        AppendLine("syntax_fold.ndjson", [suite |-> "fold", ws |-> r.ws, ts |-> r.ts, expect |-> r.expect])
    [] OTHER -> TRUE

CtxSeq == SetToSeq(Contexts \cup {TypeContext})
Emit ==
  /\ TLCGet("stats").distinct > 0
  /\ ndJsonSerialize(Out \o "/syntax_contexts.ndjson",
        [i \in 1..Len(CtxSeq) |-> CtxSeq[i]] \o
        <<[name |-> "$host_prelude", pre |-> HostPrelude, post |-> <<>>],
          [name |-> "$tokens", pre |-> TokSeq, post |-> SetToSeq(CoreTokens)]>>)
  /\ PrintT(<<"COUNTS", TLCGet("stats").distinct, Cardinality(Tokens), Cardinality(CoreTokens),
              Cardinality(Forms), Cardinality(L0), Cardinality(Wrappers), Cardinality(AllSeeds)>>)
=============================================================================
