----------------------------- MODULE MC_Syntax -----------------------------
(***************************************************************************)
(* Bounded model of Syntax (C03): the state graph whose states are the       *)
(* cases.                                                                    *)
(*                                                                           *)
(*   state  st = [k |-> "start"]                                             *)
(*             | [k |-> "toks", ts]      token sequence under construction   *)
(*             | [k |-> "ast",  a]       AST under construction              *)
(*             | [k |-> "fold", ws, seed] folding case under construction    *)
(*   actions AppendToken, StartLeaf, ApplyConstructor (leaf -> depth 2),     *)
(*           ApplyConstructorRep (representative -> restricted depth 3),     *)
(*           PickSeed / Wrap (folding sub-suite)                             *)
(*   invariants: well-formedness of what is emitted (alphabet, sorts, depth, *)
(*           bracket discipline of rendered ASTs, nesting bound) and the     *)
(*           outcome machine (every prediction admits only Program/Error).   *)
(*                                                                           *)
(* POSTCONDITION Emit writes every case with the specification's prediction  *)
(* to VERIF_OUT/syntax_cases.ndjson and the binding contexts to              *)
(* VERIF_OUT/syntax_contexts.ndjson, and checks that the emitted sets are    *)
(* exactly the reachable states.                                             *)
(***************************************************************************)
EXTENDS Syntax, Json, IOUtils

CONSTANTS Thorough,   \* FALSE: quick tier bounds
          Den3        \* keep one of Den3 length-3 token sequences in the sampled part

VARIABLE st

Seed == atoi(IOEnv.VERIF_SEED) % 1000

(***************************************************************************)
(* (a) token sequences of length <= 3                                        *)
(***************************************************************************)
TokSeq == SetToSeq(Tokens)
TokIdx == [tk \in Tokens |-> CHOOSE i \in 1..Len(TokSeq) : TokSeq[i] = tk]
Hash3(ts) == LET i == TokIdx[ts[1]] j == TokIdx[ts[2]] l == TokIdx[ts[3]] IN
             i * i * 3 + i * j * 5 + j * l * 7 + l * 11 + i * l * 13 + j * 17 + Seed
InCore(ts) == \A i \in 1..Len(ts) : ts[i] \in CoreTokens
\* quick: a seeded sample of the core alphabet's triples; thorough: all of them plus a seeded
\* sample of the triples that use a non-core token
Keep3(ts) == IF Thorough THEN InCore(ts) \/ Hash3(ts) % Den3 = 0
             ELSE InCore(ts) /\ Hash3(ts) % Den3 = 0
MaxLen == 3
TokCases == {<<t1>> : t1 \in Tokens} \cup {<<t1, t2>> : t1 \in Tokens, t2 \in Tokens}
            \cup {ts \in {<<t1, t2, t3>> : t1 \in Tokens, t2 \in Tokens, t3 \in Tokens} : Keep3(ts)}

(***************************************************************************)
(* (b) ASTs                                                                  *)
(***************************************************************************)
EL(ts) == Leaf("E", ts)
N(name, cs) == Node(FormOf(name), cs)

\* one representative per type shape (each of depth <= 2), including one whose folding fails
ERepsAll == {
  N("bin:+", <<EL(<<"x">>), EL(<<"1">>)>>),            \* int
  N("bin:*", <<EL(<<"y">>), EL(<<"1.5">>)>>),          \* float
  N("bin:+", <<EL(<<"s">>), EL(<<"\"s\"">>)>>),        \* string
  N("bin:==", <<EL(<<"x">>), EL(<<"1">>)>>),           \* bool
  N("arr2", <<EL(<<"x">>), EL(<<"1">>)>>),             \* [int]
  N("arr2", <<EL(<<"1">>), EL(<<"1.5">>)>>),           \* [int|float]
  N("tup2", <<EL(<<"1">>), EL(<<"\"s\"">>)>>),         \* tuple
  N("struct1", <<EL(<<"1">>)>>),                       \* struct
  EL(FnLit),                                           \* function
  N("mut", <<EL(<<"x">>)>>),                           \* cell
  N("post:~", <<EL(<<"a">>)>>),                        \* iterator
  EL(<<"()">>),                                        \* void
  EL(<<"[", "]">>),                                    \* [!]
  EL(<<"u">>),                                         \* union
  EL(<<"w">>),                                         \* any
  N("bin:/", <<EL(<<"1">>), EL(<<"0">>)>>),            \* constant whose folding fails
  N("call1", <<EL(<<"f">>), EL(<<"x">>)>>),            \* call
  N("at", <<EL(<<"a">>), EL(<<"0">>)>>),               \* indexing
  N("pre:*", <<EL(<<"c">>)>>),                         \* dereference
  N("bin:=", <<EL(<<"c">>), EL(<<"1">>)>>),            \* assignment
  N("bin:@", <<EL(<<"it">>), EL(<<"f">>)>>),           \* mapped iterator
  N("mod1", <<EL(<<"1">>)>>)                           \* module
}
ERepsQuick == {
  N("bin:+", <<EL(<<"x">>), EL(<<"1">>)>>),
  N("bin:*", <<EL(<<"y">>), EL(<<"1.5">>)>>),
  N("bin:==", <<EL(<<"x">>), EL(<<"1">>)>>),
  N("arr2", <<EL(<<"1">>), EL(<<"1.5">>)>>),
  N("tup2", <<EL(<<"1">>), EL(<<"\"s\"">>)>>),
  EL(FnLit),
  N("mut", <<EL(<<"x">>)>>),
  N("post:~", <<EL(<<"a">>)>>),
  EL(<<"u">>),
  N("bin:/", <<EL(<<"1">>), EL(<<"0">>)>>)
}
SRepsAll == {
  N("block1", <<EL(<<"x">>)>>),
  N("ifelse", <<EL(<<"b">>), EL(<<"1">>), EL(<<"1.5">>)>>),
  N("match_td", <<EL(<<"u">>), Leaf("T", <<"int">>), EL(<<"1">>)>>),
  N("loop_blk", <<EL(<<"x">>)>>),
  N("for", <<EL(<<"it">>), EL(<<"x">>)>>),
  N("return1", <<EL(<<"x">>)>>),
  N("set", <<EL(<<"1">>)>>),
  Leaf("S", <<"break">>),
  Leaf("S", <<"return">>),
  ImportLeaf("valid")
}
SRepsQuick == {
  N("ifelse", <<EL(<<"b">>), EL(<<"1">>), EL(<<"1.5">>)>>),
  N("return1", <<EL(<<"x">>)>>),
  N("set", <<EL(<<"1">>)>>),
  Leaf("S", <<"break">>)
}
EReps == IF Thorough THEN ERepsAll ELSE ERepsQuick
SReps == IF Thorough THEN SRepsAll ELSE SRepsQuick
TRepsUsed == IF Thorough THEN TReps ELSE QTReps

Arity(f) == Len(f.sorts)
EForms == ExprForms \cup StmtForms

\* depth 2: children are leaves (quick: reduced leaf sets for the three-child forms)
Pool1(f, sort) ==
  LET small == ~Thorough /\ Arity(f) = 3 IN
  CASE sort = "E" -> IF small THEN QLeaves ELSE ELeaves
    [] sort = "S" -> (IF small THEN QLeaves ELSE ELeaves) \cup SLeaves
    [] sort = "T" -> IF small THEN QTReps ELSE TReps
\* restricted depth 3: children are the representatives
Pool2(f, sort) ==
  CASE sort = "E" -> EReps
    [] sort = "S" -> EReps \cup SReps
    [] sort = "T" -> TRepsUsed
\* the type grammar: over the type leaves, then over the type representatives
PoolT1(f, sort) == TLeaves
PoolT2(f, sort) == TRepsUsed

L0 == ELeaves \cup SLeaves \cup TLeaves \cup TReps \cup {ImportSelf}
L1 == Apply(EForms, Pool1) \cup Apply(TypeForms, PoolT1)
L2 == Apply(EForms, Pool2) \cup Apply(TypeForms, PoolT2)
AstCases == L0 \cup L1 \cup L2

(***************************************************************************)
(* folding sub-suite                                                         *)
(***************************************************************************)
AllSeeds == FoldSeeds \cup {FoldSeed(ts, "none") : ts \in UnfoldedSeeds}
FoldStates == {[k |-> "fold", ws |-> <<>>, seed |-> sd] : sd \in AllSeeds}
              \cup {[k |-> "fold", ws |-> <<w>>, seed |-> sd] : w \in Wrappers, sd \in AllSeeds}
              \cup {[k |-> "fold", ws |-> <<w2, w1>>, seed |-> sd] : w2 \in Wrappers, w1 \in InnerWrappers, sd \in AllSeeds}
FoldRow(s) ==
  IF s.ws = <<>> THEN [ws |-> <<"bare">>, ts |-> s.seed.ts,
                       expect |-> IF s.seed.class = "none" THEN "any" ELSE "Error:" \o s.seed.class]
  ELSE LET c == FoldCase(s.ws, s.seed) IN
       [ws |-> c.ws, ts |-> c.ts, expect |-> IF s.seed.class = "none" THEN "any" ELSE c.expect]

(***************************************************************************)
(* state machine                                                             *)
(***************************************************************************)
Init == st = [k |-> "start"]

AppendToken ==
  /\ \/ st.k = "start" /\ st' \in {[k |-> "toks", ts |-> <<tk>>] : tk \in Tokens}
     \/ /\ st.k = "toks" /\ Len(st.ts) < MaxLen
        /\ st' \in {[k |-> "toks", ts |-> Append(st.ts, tk)] : tk \in Tokens}
  /\ Len(st'.ts) = 3 => Keep3(st'.ts)

StartLeaf == st.k = "start" /\ st' \in {[k |-> "ast", a |-> l] : l \in L0}

ApplyConstructor ==
  /\ st.k = "ast" /\ IsLeaf(st.a)
  /\ st' \in {[k |-> "ast", a |-> n] :
                n \in GrowWith(st.a, EForms, Pool1) \cup GrowWith(st.a, TypeForms, PoolT1)}

\* from a representative of depth 2 the walk first has to reach it: a representative that is a
\* node is reached by ApplyConstructor from one of its leaves (it is a member of L1)
ApplyConstructorRep ==
  /\ st.k = "ast" /\ st.a \in EReps \cup SReps \cup TRepsUsed
  /\ st' \in {[k |-> "ast", a |-> n] :
                n \in GrowWith(st.a, EForms, Pool2) \cup GrowWith(st.a, TypeForms, PoolT2)}

PickSeed == st.k = "start" /\ st' \in {[k |-> "fold", ws |-> <<>>, seed |-> sd] : sd \in AllSeeds}
Wrap ==
  /\ st.k = "fold"
  /\ \/ st.ws = <<>> /\ st' \in {[st EXCEPT !.ws = <<w>>] : w \in Wrappers}
     \/ /\ Len(st.ws) = 1 /\ st.ws[1] \in InnerWrappers
        /\ st' \in {[st EXCEPT !.ws = <<w2, st.ws[1]>>] : w2 \in Wrappers}

Next == AppendToken \/ StartLeaf \/ ApplyConstructor \/ ApplyConstructorRep \/ PickSeed \/ Wrap
Spec == Init /\ [][Next]_st

(***************************************************************************)
(* invariants                                                                *)
(***************************************************************************)
TokInv == st.k = "toks" => /\ Len(st.ts) \in 1..MaxLen
                           /\ \A i \in 1..Len(st.ts) : st.ts[i] \in Tokens
AstInv == st.k = "ast" =>
  LET ts == Render(st.a) IN
  /\ WellSorted(st.a)
  /\ Depth(st.a) <= 3
  /\ Len(ts) > 0
  /\ \A i \in 1..Len(ts) : KnownTok(ts[i])
  /\ Balanced(ts)
  /\ Nesting(ts) <= MaxNesting
FoldInv == st.k = "fold" =>
  LET r == FoldRow(st) IN
  /\ Balanced(r.ts)
  /\ \A i \in 1..Len(r.ts) : KnownTok(r.ts[i])
  /\ r.expect \in Predictions
  /\ Nesting(r.ts) <= MaxNesting
\* the outcome machine: whatever the case, exactly the outcomes Program and Error are admissible
Prediction == IF st.k = "fold" THEN FoldRow(st).expect ELSE "any"
OutcomeInv == /\ Admissible(Prediction) # {}
              /\ Admissible(Prediction) \subseteq Outcomes
              /\ \A o \in Admissible(Prediction) : OutcomeStep("Text", o)
              /\ ~OutcomeStep("Text", "Panic") /\ ~OutcomeStep("Text", "Abort")
ContextInv == st.k = "start" =>
  /\ \A c \in Contexts \cup {TypeContext} :
        /\ Balanced(c.pre \o c.post)
        /\ \A i \in 1..Len(c.pre \o c.post) : KnownTok((c.pre \o c.post)[i])
  /\ Balanced(HostPrelude)
  /\ \A f1 \in Forms : \A f2 \in Forms : f1.name = f2.name => f1 = f2
  /\ \A f \in Forms : \A j \in 1..Len(f.tpl) : f.tpl[j] \in Slots => SlotIx(f.tpl[j]) <= Len(f.sorts)
  /\ \A f \in Forms : \A i \in 1..Len(f.sorts) : \E j \in 1..Len(f.tpl) : f.tpl[j] \in Slots /\ SlotIx(f.tpl[j]) = i
  /\ EReps \subseteq L0 \cup L1 /\ SReps \subseteq L0 \cup L1

(***************************************************************************)
(* emission                                                                  *)
(***************************************************************************)
Out == IOEnv.VERIF_OUT
AstSeq == SetToSeq(AstCases)
TokCaseSeq == SetToSeq(TokCases)
FoldCaseSeq == SetToSeq(FoldStates)
CtxSeq == SetToSeq(Contexts \cup {TypeContext})

AstRow(a) == [suite |-> IF a = ImportSelf THEN "import_self" ELSE IF a.sort = "T" THEN "type" ELSE "ast",
              form |-> IF IsLeaf(a) THEN "leaf" ELSE a.f.name, sort |-> a.sort, depth |-> Depth(a),
              ts |-> Render(a), expect |-> "any"]

Emit ==
  /\ TLCGet("stats").distinct > 0
  /\ ndJsonSerialize(Out \o "/syntax_tok.ndjson",
        [i \in 1..Len(TokCaseSeq) |-> [suite |-> "tok", ts |-> TokCaseSeq[i], expect |-> "any"]])
  /\ ndJsonSerialize(Out \o "/syntax_ast.ndjson", [i \in 1..Len(AstSeq) |-> AstRow(AstSeq[i])])
  /\ ndJsonSerialize(Out \o "/syntax_fold.ndjson",
        [i \in 1..Len(FoldCaseSeq) |-> LET r == FoldRow(FoldCaseSeq[i]) IN
            [suite |-> "fold", ws |-> r.ws, ts |-> r.ts, expect |-> r.expect]])
  /\ ndJsonSerialize(Out \o "/syntax_contexts.ndjson",
        [i \in 1..Len(CtxSeq) |-> CtxSeq[i]] \o
        <<[name |-> "$host_prelude", pre |-> HostPrelude, post |-> <<>>],
          [name |-> "$tokens", pre |-> TokSeq, post |-> SetToSeq(CoreTokens)]>>)
  /\ PrintT(<<"COUNTS", Len(TokCaseSeq), Len(AstSeq), Len(FoldCaseSeq), Cardinality(Tokens),
              Cardinality(CoreTokens), Cardinality(Forms), Cardinality(L0), Cardinality(L1), Cardinality(L2)>>)
  \* the emitted sets are exactly the reachable states (+1 for the start state)
  /\ Assert(TLCGet("stats").distinct = 1 + Len(TokCaseSeq) + Len(AstSeq) + Len(FoldCaseSeq),
            <<"emitted cases differ from reachable states", TLCGet("stats").distinct,
              Len(TokCaseSeq), Len(AstSeq), Len(FoldCaseSeq)>>)
=============================================================================
