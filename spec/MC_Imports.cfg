SPECIFICATION Spec
CONSTANTS
  MaxLen = 4
INVARIANTS
  ParseIsAFunctionOfTheFiles
  EmitBehaviours
CHECK_DEADLOCK FALSE
