----------------------------- MODULE MC_PrecVal -----------------------------
(***************************************************************************)
(* C14, observation by value.  For a token sequence the specification       *)
(* chooses operand values such that the prescribed grouping evaluates (Ev   *)
(* of Prec) to a first-order value and every other grouping of the same     *)
(* tokens is observably different: it is rejected by the checker (TErr) or  *)
(* yields a different (result, final cell contents).  The chosen operands,  *)
(* the prediction for the unparenthesised text and the predictions for      *)
(* every fully parenthesised alternative are written for replay.            *)
(*                                                                           *)
(* Families:                                                                 *)
(*   v_pair    a X b Y c       all ordered pairs of the scalar/cell binary   *)
(*                             operators (levels 4..14), operands searched   *)
(*   v_prebin  ! a X b         each prefix before each of those operators    *)
(*   v_binpre  a X ! b         (one grouping only: value of the text)        *)
(*   v_triple  a X b Y c Z d   a seeded sample of triples                    *)
(*   v_idiom   hand-written sequences with iterator operators, postfix       *)
(*             forms and cells over a fixed environment                      *)
(*                                                                           *)
(* State machine: row 0 -> chunk -c -> row i (two-level fan-out so that the  *)
(* workers share the rows); in row i the search for case i is carried out    *)
(* and the laws are checked on its result.                                   *)
(***************************************************************************)
EXTENDS Prec, Json, IOUtils

CONSTANTS Chunks,          \* fan-out
          TriplePermille,  \* share of the scalar triples searched
          MaxTried         \* bound on the assignments looked at per case

VARIABLES vRow, vPick

Seed == IF "VERIF_SEED" \in DOMAIN IOEnv THEN atoi(IOEnv.VERIF_SEED) ELSE 1

\* ------------------------------------------------------------ operands
ScalarBin == SelectSeq(BinOps, LAMBDA e : e.lvl >= 4)
NS == Len(ScalarBin)
SToks == [i \in 1..NS |-> Tok(ScalarBin[i])]
PToks == [i \in 1..Len(PreOps) |-> Tok(PreOps[i])]
SlotNames == <<"a", "b", "c", "d">>

\* what an operator accepts on its left / right, as operand kinds
ArithNames == {"+", "-", "*", "/", "%", "**", "<<", ">>", "<", "<=", ">", ">="}
BitNames == {"&", "|", "^"}
IntAssign == {"+=", "-=", "*=", "/=", "%=", "**=", "<<=", ">>="}
KindsL(tk) ==
  IF tk.t # "bin" THEN {}
  ELSE IF tk.s \in ArithNames THEN {"int"}
  ELSE IF tk.s \in BitNames \cup {"==", "!="} THEN {"int", "bool"}
  ELSE IF tk.s \in {"&&", "||"} THEN {"bool"}
  ELSE IF tk.s \in IntAssign THEN {"cint"}
  ELSE IF tk.s \in AssignNames THEN {"cint", "cbool"}
  ELSE {}
KindsR(tk) ==
  IF tk.t = "pre" THEN (IF tk.s = "-" THEN {"int"} ELSE IF tk.s = "!" THEN {"int", "bool"} ELSE {"cint", "cbool"})
  ELSE IF tk.t # "bin" THEN {}
  ELSE IF tk.s \in ArithNames \cup IntAssign THEN {"int"}
  ELSE IF tk.s \in BitNames \cup {"==", "!="} \cup AssignNames THEN {"int", "bool"}
  ELSE IF tk.s \in {"&&", "||"} THEN {"bool"}
  ELSE {}

IntInit == <<2, 3, 5, 4>>
\* cells 9 and 10 hold arrays (only the idioms use them)
Store0 == [id \in 1..10 |-> IF id <= 4 THEN VI(IntInit[id]) ELSE IF id <= 8 THEN VB(id % 2 = 1)
                            ELSE IF id = 9 THEN VA("int", <<VI(1), VI(2), VI(3)>>) ELSE VA("bool", <<VB(TRUE), VB(FALSE)>>)]
IntVals == <<7, 3, 2, 5>>
Rot(p, j) == IntVals[((p + j - 2) % 3) + 1]

\* candidates of slot p (1..4) for a set of kinds, in the order they are tried
Cands(p, kinds) ==
     (IF "int" \in kinds THEN <<VI(Rot(p, 1)), VI(Rot(p, 2)), VI(Rot(p, 3))>> ELSE <<>>)
  \o (IF "bool" \in kinds THEN (IF p % 2 = 1 THEN <<VB(TRUE), VB(FALSE)>> ELSE <<VB(FALSE), VB(TRUE)>>) ELSE <<>>)
  \o (IF "cint" \in kinds THEN <<VC(p)>> ELSE <<>>)
  \o (IF "cbool" \in kinds THEN <<VC(p + 4)>> ELSE <<>>)

OpdPos(toks) == SelectSeq([i \in 1..Len(toks) |-> i], LAMBDA i : toks[i].t = "opd")
SlotKinds(toks, i) ==   \* i = position of an operand token
  (IF i > 1 THEN KindsR(toks[i - 1]) ELSE {}) \cup (IF i < Len(toks) THEN KindsL(toks[i + 1]) ELSE {})
SlotCands(toks) == LET ps == OpdPos(toks) IN [p \in 1..Len(ps) |-> Cands(p, SlotKinds(toks, ps[p]))]

RECURSIVE Product(_, _)
Product(cands, p) == IF p > Len(cands) THEN 1 ELSE Len(cands[p]) * Product(cands, p + 1)
\* assignment number n (0-based, slot 1 varies slowest) as the sequence of chosen values
RECURSIVE Decode(_, _, _)
Decode(cands, p, n) ==
  IF p > Len(cands) THEN <<>>
  ELSE LET rest == Product(cands, p + 1)
       IN <<cands[p][(n \div rest) + 1]>> \o Decode(cands, p + 1, n % rest)

EnvOf(toks, vals) ==
  LET ps == OpdPos(toks)
  IN [nm \in {toks[ps[p]].s : p \in 1..Len(ps)} |-> vals[CHOOSE p \in 1..Len(ps) : toks[ps[p]].s = nm]]

\* what is observable of one run: the result and the content of the operand cells, in slot order
CellIds(vals) == SelectSeq([p \in 1..Len(vals) |-> IF vals[p].k = "cell" THEN vals[p].id ELSE 0], LAMBDA id : id > 0)
Obs(r, vals) == [v |-> r.v, cells |-> [j \in 1..Len(CellIds(vals)) |-> r.st[CellIds(vals)[j]]]]

Others(toks) == AllTrees(toks) \ {Group(toks)}

\* verdict of one assignment: 0 useless, 1 the others are all rejected, 2 some other evaluates
\* (g = the prescribed tree, os = the set of the other trees)
Verdict(g, os, env, vals, st0) ==
  LET want == Ev(g, env, st0)
  IN IF IsBad(want.v) \/ ~FirstOrder(want.v) THEN 0
     ELSE LET rs == {Ev(t, env, st0) : t \in os}
          IN IF \E o \in rs : o.v = Unm \/ (o.v # TErr /\ Obs(o, vals) = Obs(want, vals)) THEN 0
             ELSE IF \E o \in rs : o.v # TErr THEN 2 ELSE 1

\* one pass over the assignments n, n+1, ... : stops at the first assignment of verdict 2; remembers
\* the first of verdict 1 (weak = -1: none so far).  At most MaxTried assignments are looked at.
RECURSIVE Scan(_, _, _, _, _, _, _)
Scan(toks, g, os, cands, n, total, weak) ==
  IF n >= total THEN [n |-> weak, strong |-> FALSE]
  ELSE LET vals == Decode(cands, 1, n)
           v == Verdict(g, os, EnvOf(toks, vals), vals, Store0)
       IN IF v = 2 \/ (v = 1 /\ os = {}) THEN [n |-> n, strong |-> TRUE]
          ELSE Scan(toks, g, os, cands, n + 1, total, IF v = 1 /\ weak < 0 THEN n ELSE weak)

Search(toks) ==
  LET cands == SlotCands(toks)
      total == Product(cands, 1)
      g == Group(toks)
      os == AllTrees(toks) \ {g}
      r == Scan(toks, g, os, cands, 0, IF total > MaxTried THEN MaxTried ELSE total, -1)
  IN IF r.n < 0 THEN [found |-> FALSE, vals |-> <<>>, tried |-> total]
     ELSE [found |-> TRUE, vals |-> Decode(cands, 1, r.n), tried |-> total]

\* ------------------------------------------------------------ the searched families
A == Opd("a")
B == Opd("b")
C == Opd("c")
D == Opd("d")
Plain(fam, toks) == [fam |-> fam, toks |-> toks, fixed |-> FALSE]

VPairSet == {Plain("v_pair", <<A, SToks[x], B, SToks[y], C>>) : x \in 1..NS, y \in 1..NS}
VPreBinSet == {Plain("v_prebin", <<PToks[p], A, SToks[x], B>>) : p \in 1..Len(PreOps), x \in 1..NS}
VBinPreSet == {Plain("v_binpre", <<A, SToks[x], PToks[p], B>>) : p \in 1..Len(PreOps), x \in 1..NS}
TripleIdx == {<<x, y, z>> : x \in 1..NS, y \in 1..NS, z \in 1..NS}
TSampled(t) ==
  LET n == (t[1] * NS + t[2]) * NS + t[3]
  IN ((n * 7919 + (Seed % 1000) * 104729 + 29) % 1009) * 1000 < TriplePermille * 1009
VTripleSet == {Plain("v_triple", <<A, SToks[t[1]], B, SToks[t[2]], C, SToks[t[3]], D>>) :
                 t \in {u \in TripleIdx : TSampled(u)}}

\* ------------------------------------------------------------ idioms over a fixed environment
IdiomEnv ==
  [n |-> VI(2), k |-> VI(3), h |-> VI(7), i |-> VI(1), j |-> VI(2), p |-> VB(TRUE), q |-> VB(FALSE),
   xs |-> VA("int", <<VI(1), VI(2), VI(3)>>), ys |-> VA("int", <<VI(4), VI(5)>>),
   us |-> VA("int", <<VI(6), VI(3)>>), bs |-> VA("bool", <<VB(TRUE), VB(FALSE)>>),
   t |-> VT(<<VI(7), VI(3)>>), s |-> VS(VI(7)),
   inc |-> VF("inc"), dbl |-> VF("dbl"), odd |-> VF("odd"), add |-> VF("add"), c |-> VC(1),
   ca |-> VC(9), cb |-> VC(10)]
IdiomOperands == DOMAIN IdiomEnv

Idioms == <<
  <<"xs", "~", "@", "inc", "$+">>,
  <<"xs", "~", "?", "odd", "$*">>,
  <<"xs", "~", "@", "inc", "?", "odd", "$+">>,
  <<"xs", "~", "@", "dbl", "$]">>,
  <<"xs", "~", "\\", "odd">>,
  <<"n", "**", "xs", "~", "$+">>,
  <<"h", "-", "xs", "~", "$+", "*", "n">>,
  <<"xs", "~", "$i", "add", "+", "n">>,
  <<"n", "+", "xs", "~", "$i", "add">>,
  <<"xs", "~", "$+", "-", "ys", "~", "$+">>,
  <<"xs", "~", "$*", "<<", "n">>,
  <<"q", "||", "bs", "~", "$&&">>,
  <<"p", "&&", "bs", "~", "$||">>,
  <<"k", "|", "us", "~", "$&">>,
  <<"k", "&", "us", "~", "$|">>,
  <<"c", "=", "xs", "~", "$+">>,
  <<"c", "+=", "xs", "~", "@", "inc", "$+">>,
  <<"n", "<", "xs", "~", "$+", "==", "p">>,
  <<"xs", "~", "?int", "$+">>,
  <<"xs", "[i:j]", "~", "$+">>,
  <<"-", "xs", "[i]", "**", "n">>,
  <<"-", "xs", "[i]">>,
  <<"!", "xs", "[i]">>,
  <<"!", "bs", "[i]">>,
  <<"-", "t", ".0">>,
  <<"!", "t", ".0">>,
  <<"-", "s", ".x">>,
  <<"!", "s", ".x">>,
  <<"-", "inc", "(i)">>,
  <<"!", "odd", "(i)">>,
  <<"-", "t", ".0", "-", "s", ".x">>,
  <<"-", "inc", "(i)", "+", "n">>,
  <<"*", "c", "+", "n">>,
  <<"*", "c", "**", "k">>,
  <<"h", "-", "*", "c">>,
  <<"xs", "[i]", "*", "ys", "[i]", "+", "n">>,
  <<"n", "+", "xs", "[i]", "*", "ys", "[i]">>,
  <<"inc", "(i)", "**", "dbl", "(i)">>,
  <<"t", ".0", "%", "k", "-", "s", ".x">>,
  \* a prefix operator and level-3 postfix operators on ONE operand, nothing else in the expression
  <<"*", "ca", "~", "$+">>,
  <<"*", "ca", "~", "$*">>,
  <<"*", "ca", "~", "$]">>,
  <<"*", "cb", "~", "$&&">>,
  <<"*", "ca", "~", "@", "inc", "$+">>,
  \* an initial value that begins with a prefix operator
  <<"xs", "~", "$*c", "add">>,
  <<"xs", "~", "$-i", "add">>,
  <<"n", "+", "xs", "~", "$*c", "add">>,
  <<"xs", "~", "$*c", "add", "+", "n">>,
  <<"*", "ca", "~", "$*c", "add">>,
  <<"xs", "~", "@", "inc", "$-i", "add">>,
  <<"xs", "~", "$i+j", "add">>,
  <<"n", "*", "xs", "~", "$i+j", "add">>,
  \* read-modify-write through a plain assignment: the right side is an ordinary left-to-right chain
  <<"c", "=", "*", "c", "-", "n", "-", "k">>,
  <<"c", "=", "*", "c", "-", "n", "+", "k">>,
  <<"c", "=", "*", "c", "<<", "n", "<<", "i">>,
  <<"c", "=", "*", "c", "**", "k", "**", "n">>,
  <<"c", "=", "h", "-", "*", "c", "-", "n">>,
  <<"c", "+=", "*", "c", "-", "n", "-", "k">>,
  \* && binds tighter than ||, both group left to right: a && b || c is (a && b) || c
  <<"q", "&&", "q", "||", "p">>,
  <<"p", "||", "q", "&&", "q">>
>>
\* sequences whose PRESCRIBED grouping is ill-typed (the prefix operator binds tighter than the level-3 postfix
\* operators and would be applied to an array / a cell of an array) while another grouping would evaluate:
\* the checker must refuse them
RejIdioms == <<
  <<"-", "xs", "~", "$+">>,
  <<"-", "xs", "~", "$*">>,
  <<"!", "bs", "~", "$&&">>,
  <<"!", "bs", "~", "$||">>,
  <<"-", "xs", "~", "@", "inc", "$+">>,
  <<"-", "xs", "~", "$i", "add">>,
  \* level-1 postfix forms bind tighter than the prefix operator: indexing / slicing the CELL is ill-typed
  <<"*", "ca", "[i:j]", "~", "$+">>,
  <<"*", "ca", "[i]">>
>>
\* relational operators are ONE level and group left to right: `n < k < h' is `(n < k) < h', a bool compared with an int,
\* which is ill-typed whatever the values - it is not a bounds check.  (No other grouping evaluates either, so only
\* the first two clauses of InvRejected apply to these.)
RejChains == <<
  <<"n", "<", "k", "<", "h">>,
  <<"n", "<=", "k", "<", "h">>,
  <<"h", ">", "k", ">", "n">>,
  <<"h", ">=", "k", ">", "n">>,
  <<"n", "<", "k", "<=", "h">>,
  <<"n", "==", "k", "<", "h">>,
  <<"n", "<", "k", ">=", "h", "<", "k">>,
  \* `**' is ONE token: in front of a cell it is not `*' followed by the prefix `*' (n**c is int ** mut int, ill-typed)
  <<"n", "**", "c">>,
  <<"n", "+", "k", "**", "c">>,
  <<"n", "**", "c", "+", "k">>
>>
RejAll == RejIdioms \o RejChains

RECURSIVE ClassifyI(_, _, _)
ClassifyI(names, i, st) ==
  IF i > Len(names) THEN <<>>
  ELSE LET x == names[i] IN
       IF st \in {"E", "P"} /\ x \in IdiomOperands
         THEN <<Opd(x)>> \o ClassifyI(names, i + 1, "O")
       ELSE IF st = "E" /\ x \in PreNames
         THEN <<TokOf("pre", x)>> \o ClassifyI(names, i + 1, "P")
       ELSE IF st = "O" /\ x \in PostNames
         THEN <<TokOf("post", x)>> \o ClassifyI(names, i + 1, "O")
       ELSE IF st = "O" /\ x \in BinNames
         THEN <<TokOf("bin", x)>> \o ClassifyI(names, i + 1, "E")
       ELSE <<[t |-> "bad", s |-> x, l |-> 0, x |-> x]>>

\* ------------------------------------------------------------ rows
Searched == SetToSeq(VPairSet) \o SetToSeq(VPreBinSet) \o SetToSeq(VBinPreSet) \o SetToSeq(VTripleSet)
NSearched == Len(Searched)
NPos == NSearched + Len(Idioms)
NRows == NPos + Len(RejAll)

RowFam(r) == IF r <= NSearched THEN Searched[r].fam ELSE IF r <= NPos THEN "v_idiom" ELSE "v_reject"
RowToks(r) == IF r <= NSearched THEN Searched[r].toks
              ELSE IF r <= NPos THEN ClassifyI(Idioms[r - NSearched], 1, "E") ELSE ClassifyI(RejAll[r - NPos], 1, "E")

\* operands of an idiom in order of first occurrence, embedded operands (i, j) last
IdiomNames(toks) ==
  LET ps == OpdPos(toks)
      direct == [p \in 1..Len(ps) |-> toks[ps[p]].s]
      emb == (IF \E x \in 1..Len(toks) : toks[x].s \in {"[i]", "(i)", "$i", "[i:j]", "$-i", "$i+j"} THEN <<"i">> ELSE <<>>)
             \o (IF \E x \in 1..Len(toks) : toks[x].s \in {"[i:j]", "$i+j"} THEN <<"j">> ELSE <<>>)
             \o (IF (\E x \in 1..Len(toks) : toks[x].s = "$*c") /\ (\A p \in 1..Len(ps) : toks[ps[p]].s # "c") THEN <<"c">> ELSE <<>>)
  IN direct \o emb

Pick(r) ==
  LET toks == RowToks(r)
  IN IF r <= NSearched
     THEN LET f == Search(toks)
          IN [found |-> f.found, names |-> [p \in 1..Len(f.vals) |-> SlotNames[p]], vals |-> f.vals,
              env |-> IF f.found THEN EnvOf(toks, f.vals) ELSE <<>>, tried |-> f.tried]
     ELSE LET nms == IdiomNames(toks)
          IN [found |-> TRUE, names |-> nms, vals |-> [p \in 1..Len(nms) |-> IdiomEnv[nms[p]]],
              env |-> IdiomEnv, tried |-> 1]

\* ------------------------------------------------------------ emission
RECURSIVE WireV(_)
WireV(v) ==
  CASE v.k = "int" -> [k |-> "int", v |-> v.v]
    [] v.k = "bool" -> [k |-> "bool", v |-> v.v]
    [] v.k = "arr" -> [k |-> "arr", ek |-> v.ek, es |-> [x \in 1..Len(v.es) |-> WireV(v.es[x])]]
    [] v.k = "tup" -> [k |-> "tup", es |-> [x \in 1..Len(v.es) |-> WireV(v.es[x])]]
    [] v.k = "struct" -> [k |-> "struct", x |-> WireV(v.x)]
    [] v.k = "fn" -> [k |-> "fn", n |-> v.n]
    [] v.k = "cell" -> [k |-> "cell", id |-> v.id, c |-> WireV(Store0[v.id])]

WireRun(t, env, vals) ==
  LET r == Ev(t, env, Store0)
  IN IF r.v = TErr THEN [text |-> ShowSrc(t), ok |-> FALSE, v |-> [k |-> "none"], cells |-> <<>>]
     ELSE LET o == Obs(r, vals)
          IN [text |-> ShowSrc(t), ok |-> TRUE, v |-> WireV(o.v),
              cells |-> [x \in 1..Len(o.cells) |-> WireV(o.cells[x])]]

Strength(toks, env, vals) ==
  IF Others(toks) = {} THEN "value"
  ELSE IF \E t \in Others(toks) : Ev(t, env, Store0).v # TErr THEN "both" ELSE "one"

WireCase(r, pk) ==
  LET toks == RowToks(r)
  IN IF ~pk.found
     THEN [id |-> r, fam |-> RowFam(r), found |-> FALSE, text |-> CatSep([x \in 1..Len(toks) |-> SrcText(toks[x])], " "),
           tried |-> pk.tried]
     ELSE [id |-> r, fam |-> RowFam(r), found |-> TRUE,
           text |-> CatSep([x \in 1..Len(toks) |-> SrcText(toks[x])], " "),
           decls |-> [x \in 1..Len(pk.names) |-> [n |-> pk.names[x], v |-> WireV(pk.vals[x])]],
           want |-> WireRun(Group(toks), pk.env, pk.vals),
           others |-> LET os == SetToSeq(Others(toks)) IN [x \in 1..Len(os) |-> WireRun(os[x], pk.env, pk.vals)],
           strength |-> Strength(toks, pk.env, pk.vals), tried |-> pk.tried]

Out == IOEnv.VERIF_OUT
Init == vRow = 0 /\ vPick = <<>>
Next == \/ vRow = 0 /\ vRow' \in {-c : c \in 1..Chunks} /\ vPick' = <<>>
        \/ /\ vRow < 0
           /\ \E i \in {x \in 1..NRows : x % Chunks = (-vRow) % Chunks} :
                LET pk == Pick(i)
                IN /\ vRow' = i
                   /\ vPick' = pk
                   \* the row's case is written when the row is computed (one file per row; the
                   \* search is not repeated in a post-condition)
                   /\ ndJsonSerialize(Out \o "/rows/" \o ToString(i) \o ".ndjson", <<WireCase(i, pk)>>)
Spec == Init /\ [][Next]_<<vRow, vPick>>

\* laws ---------------------------------------------------------------------
InRow == vRow > 0
Cur == RowToks(vRow)
\* every row is a well-formed determined sequence, grouped the same way by all three formulations
InvShape == InRow => /\ Accepted(Cur) /\ Determined(Cur) /\ Settled(Cur)
                     /\ Climb(Cur) = Group(Cur) /\ UniqueAdmissible(Cur)
\* a chosen assignment really discriminates: the prescribed grouping evaluates to a first-order
\* value, no alternative is outside the model, every alternative is rejected or differs
InvDiscriminates ==
  InRow /\ vRow <= NPos /\ vPick.found =>
    LET want == Ev(Group(Cur), vPick.env, Store0)
    IN /\ ~IsBad(want.v) /\ FirstOrder(want.v)
       /\ \A t \in Others(Cur) :
            LET o == Ev(t, vPick.env, Store0)
            IN o.v # Unm /\ (o.v = TErr \/ Obs(o, vPick.vals) # Obs(want, vPick.vals))
\* the refused idioms: the prescribed grouping is ill-typed, no grouping is outside the model, and some other
\* grouping would have evaluated to a first-order value (so accepting the text is observable)
InvRejected ==
  InRow /\ vRow > NPos =>
    /\ Ev(Group(Cur), vPick.env, Store0).v = TErr
    /\ \A t \in Others(Cur) : Ev(t, vPick.env, Store0).v # Unm
    /\ (vRow <= NPos + Len(RejIdioms) => \E t \in Others(Cur) : LET o == Ev(t, vPick.env, Store0) IN ~IsBad(o.v) /\ FirstOrder(o.v))
\* the hand-written idioms are all usable
InvIdioms == InRow /\ vRow > NSearched => vPick.found
\* evaluation is a function of the tree: the two other formulations of the grouping give the same value
InvEvalAgrees == InRow /\ vPick.found =>
                   Ev(Climb(Cur), vPick.env, Store0) = Ev(Group(Cur), vPick.env, Store0)

Emit ==
  /\ TLCGet("stats").distinct > 0
  /\ PrintT(<<"VROWS", ToJson([searched |-> NSearched, idioms |-> Len(Idioms) + Len(RejAll)])>>)
=============================================================================
