---------------------------- MODULE Trace_Sound ----------------------------
(***************************************************************************)
(* Trace validation of recorded executions of the implementation (C01,     *)
(* C02, C13).  The harness runs programs with the hooks on and records one  *)
(* event per abstract-machine step: instruction result with the static type *)
(* the implementation computed for that instruction (ret), argument bound   *)
(* to a parameter (arg), function result (result), cell allocation (alloc), *)
(* assignment under the cell's lock (write: op, old, rhs, new), final       *)
(* result with the program's static type (final), a parameter name that     *)
(* does not resolve (unbound).  Each event is consumed by one action; the    *)
(* action's judgement is the specification's: Types!Member (by run-time tag *)
(* AND by contents, recursively) and Lang!ApplyBin (the operator applied to *)
(* the content at the moment of the update).  Events the specification      *)
(* rejects are collected in `bad' and reported, so that every violation in  *)
(* a trace is seen, not only the first.                                     *)
(***************************************************************************)
EXTENDS Lang, Json, IOUtils

Rec == ndJsonDeserialize(IOEnv.VERIF_IN)

VARIABLES l, bad
vars == <<l, bad>>

\* values on the wire -> values of Types.tla (self-contained cells, signatures)
RECURSIVE VW(_)
VW(v) ==
  CASE v.k = "array"  -> [k |-> "array", tag |-> Unwire(v.tag), es |-> [i \in 1..Len(v.es) |-> VW(v.es[i])]]
    [] v.k = "tuple"  -> [k |-> "tuple", es |-> [i \in 1..Len(v.es) |-> VW(v.es[i])]]
    [] v.k = "struct" -> [k |-> "struct", fs |-> [f \in {v.fs[i][1] : i \in 1..Len(v.fs)} |->
                                                   VW(v.fs[CHOOSE i \in 1..Len(v.fs) : v.fs[i][1] = f][2])]]
    [] v.k = "cell"   -> [k |-> "cell", ty |-> Unwire(v.ty), c |-> VW(v.c)]
    [] v.k = "fnv"    -> [k |-> "fnv", sig |-> Unwire(v.sig)]
    [] OTHER -> v

RECURSIVE HasDeep(_)
HasDeep(v) ==
  CASE v.k = "deep" -> TRUE
    [] v.k \in {"array", "tuple"} -> \E i \in 1..Len(v.es) : HasDeep(v.es[i])
    [] v.k = "struct" -> \E i \in 1..Len(v.fs) : HasDeep(v.fs[i][2])
    [] v.k = "cell" -> HasDeep(v.c)
    [] OTHER -> FALSE

\* value in type, by tag and by contents; values cut off by the recorder are not judged
\* ... and its hidden tags / declared cell types must be honest about the contents (WellFormed): every later
\* run-time type test trusts the tag
InType(v, ty) == HasDeep(v) \/ (Member(VW(v), Unwire(ty)) /\ WellFormed(VW(v)))

\* machine values (Lang.tla) from the wire, for re-computing operators: only scalars and flat arrays
Scalar(v) == v.k \in {"bool", "void"} \/ (v.k \in {"int", "float"} /\ "v" \in DOMAIN v) \/ v.k = "string"
LV(v) == IF v.k = "string" THEN StrV(v.cps) ELSE v
Recomputable(e) == Scalar(e.old) /\ Scalar(e.rhs) /\ e.new.k # "none" /\ Scalar(e.new)

WriteOk(e) ==
  IF e.new.k = "none" THEN TRUE          \* failed update: nothing stored (the cell keeps `old')
  ELSE /\ InType(e.new, e.ty)
       /\ IF e.op = "=" THEN (e.new.k = e.rhs.k /\ e.new = e.rhs)
          ELSE IF ~Recomputable(e) THEN TRUE
          ELSE LET r == ApplyBin(SubSeq(e.op, 1, Len(e.op) - 1), LV(e.old), LV(e.rhs)) IN
               IF r.k = "err" THEN r.e \in Inconclusive    \* the code stored a value where the operator fails
               ELSE r = LV(e.new)
FailedWriteOk(e) ==
  \* a failed update must be one the specification also fails, with a documented error
  IF e.new.k # "none" \/ e.op = "=" \/ ~(Scalar(e.old) /\ Scalar(e.rhs)) THEN TRUE
  ELSE LET r == ApplyBin(SubSeq(e.op, 1, Len(e.op) - 1), LV(e.old), LV(e.rhs)) IN
       r.k = "err" /\ (r.e \in DocErrors \/ r.e \in Inconclusive)

EventOk(e) ==
  CASE e.ev \in {"ret", "arg", "result", "alloc", "final"} -> InType(e.v, e.ty)
    [] e.ev = "write" -> WriteOk(e) /\ FailedWriteOk(e)
    [] e.ev = "unbound" -> FALSE
    [] OTHER -> TRUE

\* the smallest sub-value / type pair that makes a rejected membership fail, for classification:
\* [wv |-> summary of the offending value, wt |-> the type it should have had,
\*  exh |-> it is the value carried by an exhausted iterator result (false, v)]
Summary(v) == IF v.k \in {"int", "bool", "float"} /\ "v" \in DOMAIN v THEN [k |-> v.k, v |-> v.v]
              ELSE IF v.k = "array" THEN [k |-> "array", tag |-> v.tag, n |-> Len(v.es)]
              ELSE [k |-> v.k]
TupleMembers(ty, n) == SelectSeq(ty.ms, LAMBDA m : m.k = "tuple" /\ Len(m.es) = n)
NoMemberTakes(v, ty, i) == \A m \in ToSet(TupleMembers(ty, Len(v.es))) : ~InType(v.es[i], m.es[i])
RECURSIVE Witness(_, _, _)
Witness(v, ty, exh) ==
  LET t == Unwire(ty) IN
  IF v.k = "tuple" /\ ty.k = "tuple" /\ Len(v.es) = Len(ty.es)
     /\ \E i \in 1..Len(v.es) : ~InType(v.es[i], ty.es[i])
  THEN LET i == CHOOSE i \in 1..Len(v.es) : ~InType(v.es[i], ty.es[i]) /\ \A j \in 1..(i - 1) : InType(v.es[j], ty.es[j])
       IN Witness(v.es[i], ty.es[i], Len(v.es) = 2 /\ i = 2 /\ v.es[1].k = "bool" /\ v.es[1].v = FALSE)
  ELSE IF v.k = "tuple" /\ ty.k = "multi" /\ TupleMembers(ty, Len(v.es)) # <<>>
          /\ \E i \in 1..Len(v.es) : NoMemberTakes(v, ty, i)
  THEN \* union of tuple types (e.g. the result of a callee of type ()->(bool, int) | ()->(bool, float)): the first
       \* component no tuple member of the union admits, judged against the union of the members' components
       LET ms == TupleMembers(ty, Len(v.es))
           i == CHOOSE i \in 1..Len(v.es) : NoMemberTakes(v, ty, i) /\ \A j \in 1..(i - 1) : ~NoMemberTakes(v, ty, j)
       IN Witness(v.es[i], [k |-> "multi", ms |-> [m \in 1..Len(ms) |-> ms[m].es[i]]],
                  Len(v.es) = 2 /\ i = 2 /\ v.es[1].k = "bool" /\ v.es[1].v = FALSE)
  ELSE IF v.k = "array" /\ ty.k = "array" /\ Matches(Arr(Unwire(v.tag)), t)
          /\ \E i \in 1..Len(v.es) : ~InType(v.es[i], ty.e)
  THEN Witness(v.es[CHOOSE i \in 1..Len(v.es) : ~InType(v.es[i], ty.e)], ty.e, FALSE)
  ELSE IF v.k = "cell" /\ ty.k = "mut" /\ Unwire(v.ty) = t.e /\ ~InType(v.c, v.ty)
  THEN Witness(v.c, v.ty, FALSE)            \* the cell is of the right type but its content is not
  ELSE IF ~HasDeep(v) /\ Member(VW(v), t) /\ ~WellFormed(VW(v))
  THEN [wv |-> [k |-> "dishonest-tag", of |-> Summary(v)], wt |-> ty, exh |-> exh]
  ELSE [wv |-> Summary(v), wt |-> ty, exh |-> exh]

WitnessOf(e) ==
  IF e.ev \in {"ret", "arg", "result", "alloc", "final"} THEN Witness(e.v, e.ty, FALSE)
  ELSE IF e.ev = "write" /\ e.new.k # "none" /\ ~InType(e.new, e.ty) THEN Witness(e.new, e.ty, FALSE)
  ELSE [wv |-> [k |-> "n/a"], wt |-> [k |-> "n/a"], exh |-> FALSE]

Init == l = 1 /\ bad = {}
Consume == /\ l <= Len(Rec)
           /\ l' = l + 1
           /\ bad' = IF EventOk(Rec[l]) THEN bad ELSE bad \cup {l}
Next == Consume
Spec == Init /\ [][Next]_vars

\* every event consumed; the rejected ones are printed for the driver
Accepted ==
  /\ TLCGet("stats").diameter = Len(Rec) + 1
  /\ PrintT(<<"EVENTS", Len(Rec)>>)
  /\ \A i \in 1..Len(Rec) : EventOk(Rec[i]) \/ PrintT(<<"BAD", ToJson([i |-> i, e |-> Rec[i], w |-> WitnessOf(Rec[i])])>>)
=============================================================================
