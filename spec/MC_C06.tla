------------------------------ MODULE MC_C06 ------------------------------
(***************************************************************************)
(* C06 — lexical scoping; closures capture by value at creation.            *)
(* Suites: (A) shadowing grid: a declaration of x inside every scoping      *)
(* construct, observed before / inside / after, outer x hidden, constant or *)
(* a cell; (B) capture then re-declaration, captured cells stay shared,     *)
(* closures returned from and passed into functions, use before local        *)
(* declaration; (C) a declared function calling itself reached directly,     *)
(* under another name, as an argument and through every iterator operator;  *)
(* (D) user-written iterators whose bodies declare names of the consumer's  *)
(* scope, consumed by every operator; (E) modules yield exactly their own   *)
(* names.  Every case carries the result the documentation prescribes       *)
(* (`want'); ScopeDiscipline: the machine computes exactly that.            *)
(***************************************************************************)
EXTENDS LangAst, Json, IOUtils

CONSTANT Chunks
VARIABLE row

H(n) == Hide(WInt, I(n))
Case(name, prog, want) == [name |-> name, prog |-> prog, want |-> want]
T3(a, b, c) == TupV(<<IntV(a), IntV(b), IntV(c)>>)

\* ---------------------------------------------------------------- (A) shadowing grid
Outer == [hidden |-> H(1), const |-> I(1)]
InnerDeclF(two) == [set |-> <<Set("x", two)>>,
              destruct |-> <<Destruct(<<"x", "z">>, TupE(<<two, H(3)>>))>>,
              fndecl |-> <<FnDecl("xf", <<>>, WInt, <<Ret(I(2))>>), Set("x", CallE(V("xf"), <<>>))>>]
InnerDecl == InnerDeclF(H(2))
Rec == Asg("=", V("inside"), V("x"))
\* `two' is the expression that yields the inner value 2 (hidden call, or a captured name inside a closure);
\* `five' the scrutinee of constructs that do not bind x themselves
ConstructF(c, decl, two, five) ==
  CASE c = "block"   -> <<Block(decl \o <<Rec>>)>>
    [] c = "mod"     -> <<Set("m", ModE(decl \o <<Rec>>))>>
    [] c = "if"      -> <<If(Bin("==", five, I(5)), Block(decl \o <<Rec>>), Block(<<I(0)>>))>>
    [] c = "else"    -> <<If(Bin("==", five, I(2)), Block(<<I(0)>>), Block(decl \o <<Rec>>))>>
    [] c = "ifset"   -> <<IfSet("y", WInt, five, Block(decl \o <<Rec>>), NoneV)>>
    [] c = "ifset-x" -> <<IfSet("x", WInt, two, Block(<<Rec>>), NoneV)>>          \* the bound name itself
    \* the test fails: the else branch must still see the OUTER x
    [] c = "ifset-x-else" -> <<IfSet("x", WStr, two, Block(<<I(0)>>), Block(<<Asg("=", V("inside"), Bin("+", V("x"), I(1)))>>))>>
    [] c = "match-ty-x-else" -> <<Match(two, <<ArmTy("x", WStr, Block(<<I(0)>>)), ArmOther(Block(<<Asg("=", V("inside"), Bin("+", V("x"), I(1)))>>))>>)>>
    [] c = "match-ty-x-later-arm" -> <<Match(two, <<ArmTy("x", WStr, Block(<<I(0)>>)), ArmTy("q", WInt, Block(<<Asg("=", V("inside"), Bin("+", V("x"), I(1)))>>))>>)>>
    [] c = "ifset-x-value" -> <<Set("iv", IfSet("x", WInt, two, V("x"), I(0))), Asg("=", V("inside"), V("iv"))>>
    [] c = "match-ty" -> <<Match(five, <<ArmTy("y", WInt, Block(decl \o <<Rec>>))>>)>>
    [] c = "match-ty-x" -> <<Match(two, <<ArmTy("x", WInt, Block(<<Rec>>))>>)>>
    [] c = "match-ty-x-value" -> <<Set("iv", Match(two, <<ArmTy("x", WInt, V("x"))>>)), Asg("=", V("inside"), V("iv"))>>
    [] c = "match-val" -> <<Match(five, <<ArmVal(<<I(5)>>, Block(decl \o <<Rec>>)), ArmOther(Block(<<I(0)>>))>>)>>
    [] c = "match-other" -> <<Match(five, <<ArmVal(<<I(6)>>, Block(<<I(0)>>)), ArmOther(Block(decl \o <<Rec>>))>>)>>
    [] c = "loop"    -> <<Loop(Block(decl \o <<Rec, Break>>))>>
    [] c = "while"   -> <<Set("k", MutE(WInt, I(0))), While(Bin("<", Deref(V("k")), I(2)), Block(decl \o <<Rec, Asg("+=", V("k"), I(1))>>))>>
    [] c = "whileset" -> <<Set("k", MutE(WInt, I(0))),
                           FnDecl("nx", <<>>, WMulti(<<WInt, WVoid>>), <<Asg("+=", V("k"), I(1)), If1(Bin(">", Deref(V("k")), I(1)), Ret0), Ret(I(2))>>),
                           WhileSet("x", WInt, CallE(V("nx"), <<>>), Block(<<Rec>>))>>
    [] c = "for"     -> <<For("e", IterE(ArrE(<<I(7)>>)), Block(decl \o <<Rec>>))>>
    [] c = "for-x"   -> <<For("x", IterE(ArrE(<<two>>)), Block(<<Rec>>))>>              \* the loop variable itself
    [] c = "fn"      -> <<FnDecl("fb", <<>>, WVoid, decl \o <<Rec>>), CallE(V("fb"), <<>>)>>
    [] c = "fn-param" -> <<FnDecl("fb", <<P("x", WInt)>>, WVoid, <<Rec>>), CallE(V("fb"), <<two>>)>>
    [] c = "lambda"  -> <<CallE(FnE(<<>>, WVoid, decl \o <<Rec>>), <<>>)>>
Construct(c, decl) == ConstructF(c, decl, H(2), H(5))
Constructs == {"block", "mod", "if", "else", "ifset", "match-ty", "match-val", "match-other", "loop", "while", "for", "fn", "lambda"}
BoundByConstruct == {"ifset-x", "ifset-x-value", "ifset-x-else", "match-ty-x", "match-ty-x-value", "match-ty-x-else", "match-ty-x-later-arm", "whileset", "for-x", "fn-param"}

T3Ty == WTup(<<WInt, WInt, WInt>>)
\* the same grid inside a closure: outer x, the inner value and the scrutinee are CAPTURED parameters of the
\* function that creates the closure (constants when the closure body is specialised)
InClosure(body) ==
  <<FnDecl("mk", <<P("x", WInt), P("v", WInt), P("w", WInt)>>, WFn(<<>>, T3Ty),
           <<Ret(FnE(<<>>, T3Ty, <<Set("b", V("x")), Set("inside", MutE(WInt, I(0)))>> \o body
                                    \o <<Ret(TupE(<<V("b"), Deref(V("inside")), V("x")>>))>>))>>),
    CallE(CallE(V("mk"), <<H(1), H(2), H(5)>>), <<>>)>>

ShadowCases ==
  {Case("shadow-" \o c \o "-" \o d \o "-" \o o,
        <<Set("x", Outer[o]), Set("b", V("x")), Set("inside", MutE(WInt, I(0)))>>
          \o Construct(c, InnerDecl[d]) \o <<TupE(<<V("b"), Deref(V("inside")), V("x")>>)>>,
        T3(1, 2, 1)) : c \in Constructs, d \in DOMAIN InnerDecl, o \in DOMAIN Outer}
  \cup {Case("shadow-" \o c \o "-" \o o,
        <<Set("x", Outer[o]), Set("b", V("x")), Set("inside", MutE(WInt, I(0)))>>
          \o Construct(c, <<>>) \o <<TupE(<<V("b"), Deref(V("inside")), V("x")>>)>>,
        T3(1, 2, 1)) : c \in BoundByConstruct, o \in DOMAIN Outer}
  \cup {Case("shadow-closure-" \o c \o "-" \o d,
        InClosure(ConstructF(c, InnerDeclF(V("v"))[d], V("v"), V("w"))), T3(1, 2, 1)) : c \in Constructs, d \in DOMAIN InnerDecl}
  \cup {Case("shadow-closure-" \o c,
        InClosure(ConstructF(c, <<>>, V("v"), V("w"))), T3(1, 2, 1)) : c \in BoundByConstruct}

\* the name a construct binds itself (type test, loop variable, parameter) next to an outer x of ANOTHER type: after the
\* construct x is the outer string again - for the checker and at run time alike (the events of these runs are judged too)
OtherTypeCases ==
  {Case("shadow-other-type-" \o c \o "-" \o o,
        <<Set("x", IF o = "hidden" THEN Hide(WStr, S(<<105, 110>>)) ELSE S(<<105, 110>>)), Set("inside", MutE(WInt, I(0)))>>
          \o Construct(c, <<>>) \o <<Set("after", Bin("+", V("x"), S(<<33>>))), TupE(<<Deref(V("inside")), V("after")>>)>>,
        TupV(<<IntV(2), StrV(<<105, 110, 33>>)>>))
     : c \in {"ifset-x", "ifset-x-value", "match-ty-x", "match-ty-x-value", "whileset", "for-x", "fn-param"}, o \in {"hidden", "const"}}
  \cup {Case("shadow-other-type-in-fn-" \o c,
        <<FnDecl("run", <<P("x", WStr)>>, WTup(<<WInt, WStr>>),
                 <<Set("inside", MutE(WInt, I(0)))>> \o Construct(c, <<>>) \o <<Ret(TupE(<<Deref(V("inside")), Bin("+", V("x"), S(<<33>>))>>))>>),
          CallE(V("run"), <<Hide(WStr, S(<<105, 110>>))>>)>>,
        TupV(<<IntV(2), StrV(<<105, 110, 33>>)>>))
     : c \in {"ifset-x", "ifset-x-value", "match-ty-x", "match-ty-x-value", "whileset", "for-x"}}

\* a type arm's binder is gone after the arm however the arm is left (break, continue), also when the match is the BARE body
\* of a loop (no braces, so no block of its own around it): the outer x is the outer x afterwards
BareLoopCases ==
  {Case("bare-loop-match-" \o how,
        <<Set("x", H(10)), Set("k", MutE(WInt, I(0)))>> \o
        (IF how = "break"
         THEN <<[k |-> "loop", bare |-> TRUE, b |-> Match(Hide(WMulti(<<WInt, WStr>>), I(3)), <<ArmTy("x", WInt, Block(<<Break>>)), ArmOther(Block(<<Break>>))>>)]>>
         ELSE <<[k |-> "while", bare |-> TRUE, c |-> Bin("<", Asg("+=", V("k"), I(1)), I(3)),
                 b |-> Match(Hide(WMulti(<<WInt, WStr>>), I(3)), <<ArmTy("x", WInt, Block(<<ContinueS>>)), ArmOther(Block(<<Unit>>))>>)]>>)
        \o <<Set("g", FnE(<<>>, WInt, <<Ret(V("x"))>>)), TupE(<<V("x"), CallE(V("g"), <<>>)>>)>>,
        TupV(<<IntV(10), IntV(10)>>)) : how \in {"break", "continue"}}

\* blocks whose ONLY statement is a declaration of x with ANOTHER type (the outer x is an int and is used as an int
\* afterwards): a block is a scope however short it is
Str == S(<<105, 110>>)
SoloDecl == [set |-> <<Set("x", Str)>>,
             destruct |-> <<Destruct(<<"x", "z">>, TupE(<<Str, H(3)>>))>>,
             fndecl |-> <<FnDecl("x", <<>>, WInt, <<Ret(I(2))>>)>>]
SoloConstruct(c, decl, five) ==
  CASE c = "block" -> <<Block(decl)>>
    [] c = "if" -> <<If(Bin("==", five, I(5)), Block(decl), NoneV)>>
    [] c = "else" -> <<If(Bin("==", five, I(2)), Block(<<I(0)>>), Block(decl))>>
    [] c = "ifset" -> <<IfSet("y", WInt, five, Block(decl), NoneV)>>
    [] c = "match-ty" -> <<Match(five, <<ArmTy("y", WInt, Block(decl))>>)>>
    [] c = "match-val" -> <<Match(five, <<ArmVal(<<I(5)>>, Block(decl)), ArmOther(Block(<<I(0)>>))>>)>>
    [] c = "match-other" -> <<Match(five, <<ArmVal(<<I(6)>>, Block(<<I(0)>>)), ArmOther(Block(decl))>>)>>
    [] c = "for" -> <<For("e", IterE(ArrE(<<I(7)>>)), Block(decl))>>
    [] c = "nested" -> <<Block(<<Block(decl)>>)>>
SoloConstructs == {"block", "if", "else", "ifset", "match-ty", "match-val", "match-other", "for", "nested"}
T2(a, b) == TupV(<<IntV(a), IntV(b)>>)
SoloCases ==
  {Case("solo-" \o c \o "-" \o d \o "-" \o o,
        <<Set("x", Outer[o]), Set("b", V("x"))>> \o SoloConstruct(c, SoloDecl[d], H(5)) \o <<TupE(<<V("b"), Bin("+", V("x"), I(1))>>)>>,
        T2(1, 2)) : c \in SoloConstructs, d \in DOMAIN SoloDecl, o \in DOMAIN Outer}
  \cup {Case("solo-fn-" \o c \o "-" \o d,
        <<FnDecl("sf", <<P("x", WInt), P("w", WInt)>>, WTup(<<WInt, WInt>>),
                 <<Set("b", V("x"))>> \o SoloConstruct(c, SoloDecl[d], V("w")) \o <<Ret(TupE(<<V("b"), Bin("+", V("x"), I(1))>>))>>),
          CallE(V("sf"), <<H(1), H(5)>>)>>,
        T2(1, 2)) : c \in SoloConstructs, d \in DOMAIN SoloDecl}
  \cup {Case("solo-closure-" \o c \o "-" \o d,
        <<FnDecl("mk", <<P("x", WInt), P("w", WInt)>>, WFn(<<>>, WTup(<<WInt, WInt>>)),
                 <<Ret(FnE(<<>>, WTup(<<WInt, WInt>>),
                           <<Set("b", V("x"))>> \o SoloConstruct(c, SoloDecl[d], V("w")) \o <<Ret(TupE(<<V("b"), Bin("+", V("x"), I(1))>>))>>))>>),
          CallE(CallE(V("mk"), <<H(1), H(5)>>), <<>>)>>,
        T2(1, 2)) : c \in SoloConstructs, d \in DOMAIN SoloDecl}

\* loop bodies that READ the outer x and only later declare their own x (of another type): every round starts with a
\* fresh scope, also after a round that ended with `continue'
LateBody(extra) == <<Asg("=", V("acc"), Bin("+", Bin("*", Deref(V("acc")), I(10)), V("x")))>> \o extra \o <<Set("x", Str)>>
LateLoop(c) ==
  CASE c = "loop" -> <<Set("k", MutE(WInt, I(0))), Loop(Block(<<Asg("+=", V("k"), I(1)), If1(Bin(">", Deref(V("k")), I(3)), Break)>> \o LateBody(<<>>)))>>
    [] c = "loop-continue" -> <<Set("k", MutE(WInt, I(0))),
                               Loop(Block(<<Asg("+=", V("k"), I(1)), If1(Bin(">", Deref(V("k")), I(3)), Break)>>
                                          \o <<Asg("=", V("acc"), Bin("+", Bin("*", Deref(V("acc")), I(10)), V("x"))), Set("x", Str),
                                               If1(Bin("==", Deref(V("k")), I(1)), ContinueS), Set("z", I(0))>>))>>
    [] c = "while" -> <<Set("k", MutE(WInt, I(0))), While(Bin("<", Deref(V("k")), I(3)), Block(<<Asg("+=", V("k"), I(1))>> \o LateBody(<<>>)))>>
    [] c = "while-true" -> <<Set("k", MutE(WInt, I(0))), While(B(TRUE), Block(<<Asg("+=", V("k"), I(1)), If1(Bin(">", Deref(V("k")), I(3)), Break)>> \o LateBody(<<>>)))>>
    [] c = "for" -> <<For("e", IterE(ArrE(<<I(7), I(8), I(9)>>)), Block(LateBody(<<>>)))>>
    [] c = "loop-closure" -> <<Set("k", MutE(WInt, I(0))),
                              Loop(Block(<<Asg("+=", V("k"), I(1)), If1(Bin(">", Deref(V("k")), I(3)), Break),
                                           Set("rd", FnE(<<>>, WInt, <<Ret(V("x"))>>)),
                                           Asg("=", V("acc"), Bin("+", Bin("*", Deref(V("acc")), I(10)), CallE(V("rd"), <<>>))), Set("x", Str)>>))>>
LateKinds == {"loop", "loop-continue", "while", "while-true", "for", "loop-closure"}
LateCases ==
  {Case("late-decl-" \o c \o "-" \o o, <<Set("x", Outer[o]), Set("acc", MutE(WInt, I(0)))>> \o LateLoop(c) \o <<TupE(<<Deref(V("acc")), V("x")>>)>>,
        T2(111, 1)) : c \in LateKinds, o \in DOMAIN Outer}
  \cup {Case("late-decl-fn-" \o c, <<FnDecl("lf", <<P("x", WInt)>>, WTup(<<WInt, WInt>>), <<Set("acc", MutE(WInt, I(0)))>> \o LateLoop(c) \o <<Ret(TupE(<<Deref(V("acc")), V("x")>>))>>),
                                       CallE(V("lf"), <<H(1)>>)>>, T2(111, 1)) : c \in LateKinds}

\* a name that is re-declared — a constant as a function, a function with another signature, a function as a constant —
\* means the NEW declaration from then on, in every kind of scope
F0(n, v) == FnDecl(n, <<>>, WInt, <<Ret(I(v))>>)
F1(n) == FnDecl(n, <<P("a", WInt)>>, WInt, <<Ret(Bin("*", V("a"), I(2)))>>)
RedeclBody(k) ==
  CASE k = "const-to-fn" -> <<Set("f", I(5)), F0("f", 1), Set("r", CallE(V("f"), <<>>))>>
    [] k = "hidden-to-fn" -> <<Set("f", H(5)), F0("f", 1), Set("r", CallE(V("f"), <<>>))>>
    [] k = "fn-to-other-signature" -> <<F1("f"), Set("q", CallE(V("f"), <<I(4)>>)), F0("f", 1), Set("r", Bin("+", CallE(V("f"), <<>>), V("q")))>>
    [] k = "fn-to-other-signature-2" -> <<F0("f", 3), F1("f"), Set("r", CallE(V("f"), <<I(4)>>))>>
    [] k = "fn-to-const" -> <<F0("f", 3), Set("f", I(5)), Set("r", Bin("+", V("f"), I(1)))>>
    \* a function name bound twice with DIFFERENT signatures: a call means the nearest declaration - inside a function that
    \* declares its own, in a recursive function declared over an older one, in a closure made after the re-declaration
    [] k = "nested-fn-shadows-outer-fn" -> <<FnDecl("g", <<>>, WStr, <<Ret(S(<<111>>))>>),
                                             FnDecl("h", <<>>, WInt, <<FnDecl("g", <<>>, WInt, <<Ret(I(1))>>), Ret(Bin("+", CallE(V("g"), <<>>), I(1)))>>),
                                             Set("r", CallE(V("h"), <<>>))>>
    [] k = "nested-fn-shadows-outer-fn-returned" -> <<FnDecl("g", <<>>, WStr, <<Ret(S(<<111>>))>>),
                                             FnDecl("h", <<>>, WInt, <<FnDecl("g", <<>>, WInt, <<Ret(I(1))>>), Ret(CallE(V("g"), <<>>))>>),
                                             Set("r", CallE(V("h"), <<>>))>>
    [] k = "recursive-fn-redeclared" -> <<FnDecl("g", <<P("n", WInt)>>, WStr, <<Ret(S(<<111>>))>>),
                                          FnDecl("g", <<P("n", WInt)>>, WInt, <<If1(Bin("<", V("n"), I(1)), Ret(I(0))), Ret(Bin("+", V("n"), CallE(V("g"), <<Bin("-", V("n"), I(1))>>)))>>),
                                          Set("r", CallE(V("g"), <<H(3)>>))>>
    [] k = "fn-redeclared-then-captured" -> <<FnDecl("g", <<>>, WStr, <<Ret(S(<<111>>))>>), FnDecl("g", <<>>, WInt, <<Ret(I(10))>>),
                                              Set("k", FnE(<<>>, WInt, <<Ret(Bin("+", CallE(V("g"), <<>>), I(1)))>>)), Set("r", CallE(V("k"), <<>>))>>
    [] k = "fn-to-tuple-result" -> <<F0("f", 3), FnDecl("f", <<>>, WTup(<<WInt, WInt>>), <<Ret(TupE(<<I(1), I(2)>>))>>),
                                     Destruct(<<"r", "z">>, CallE(V("f"), <<>>))>>
RedeclWant(k) == CASE k \in {"const-to-fn", "hidden-to-fn", "fn-to-tuple-result"} -> IntV(1) [] k = "fn-to-other-signature" -> IntV(9)
                   [] k = "nested-fn-shadows-outer-fn" -> IntV(2) [] k = "nested-fn-shadows-outer-fn-returned" -> IntV(1) [] k = "recursive-fn-redeclared" -> IntV(6) [] k = "fn-redeclared-then-captured" -> IntV(11)
                   [] k = "fn-to-other-signature-2" -> IntV(8) [] k = "fn-to-const" -> IntV(6)
RedeclKinds == {"const-to-fn", "hidden-to-fn", "fn-to-other-signature", "fn-to-other-signature-2", "fn-to-const", "fn-to-tuple-result",
                "nested-fn-shadows-outer-fn", "nested-fn-shadows-outer-fn-returned", "recursive-fn-redeclared", "fn-redeclared-then-captured"}
RedeclCases ==
  {Case("redeclare-top-" \o k, RedeclBody(k) \o <<V("r")>>, RedeclWant(k)) : k \in RedeclKinds}
  \cup {Case("redeclare-block-" \o k, <<Set("out", Block(RedeclBody(k) \o <<V("r")>>)), V("out")>>, RedeclWant(k)) : k \in RedeclKinds}
  \cup {Case("redeclare-fn-" \o k, <<FnDecl("body", <<P("unused", WInt)>>, WInt, RedeclBody(k) \o <<Ret(V("r"))>>), CallE(V("body"), <<H(0)>>)>>,
              RedeclWant(k)) : k \in RedeclKinds}
  \cup {Case("redeclare-mod-" \o k, <<Set("m", ModE(RedeclBody(k))), Field(V("m"), "r")>>, RedeclWant(k)) : k \in RedeclKinds}

\* every kind of expression / statement with CAPTURED operands inside an inner function: the names x (int 2), a (array
\* [5, 6, 7]), t (tuple), s (struct), c (cell), b (bool), u (int|string holding an int), g (function), are parameters of the
\* function that makes the closure; the closure is then called twice (each call sees the same captured values)
CapParams == <<P("x", WInt), P("a", WArr(WInt)), P("t", WTup(<<WInt, WInt>>)), P("s", WStruct(<< <<"f", WInt>> >>)), P("c", WMut(WInt)),
               P("b", WBool), P("u", WMulti(<<WInt, WStr>>)), P("g", WFn(<<WInt>>, WInt))>>
CapArgs == <<H(2), Hide(WArr(WInt), ArrE(<<I(5), I(6), I(7)>>)), Hide(WTup(<<WInt, WInt>>), TupE(<<I(8), I(9)>>)),
             StructE(<< <<"f", H(4)>> >>), MutE(WInt, I(1)), Hide(WBool, B(TRUE)), Hide(WMulti(<<WInt, WStr>>), I(3)),
             FnE(<<P("q", WInt)>>, WInt, <<Ret(Bin("*", V("q"), I(10)))>>)>>
GtOne == FnE(<<P("q", WInt)>>, WBool, <<Ret(Bin(">", V("q"), V("x")))>>)        \* a predicate that itself captures x
CapForm(k) ==
  CASE k = "array" -> <<Ret(At(ArrE(<<V("x"), I(1)>>), I(0)))>>
    [] k = "repeat-value" -> <<Ret(At(RepE(V("x"), I(2)), I(1)))>>
    [] k = "repeat-length" -> <<Ret(Bin("+", At(RepE(I(4), V("x")), I(1)), V("x")))>>
    [] k = "bin" -> <<Ret(Bin("-", Bin("*", V("x"), I(7)), V("x")))>>
    [] k = "neg-not" -> <<Ret(If(NotE(V("b")), NegE(V("x")), NegE(NegE(V("x")))))>>
    [] k = "and-or" -> <<Ret(If(OrE(AndE(V("b"), Bin(">", V("x"), I(5))), NotE(V("b"))), I(1), I(0)))>>
    [] k = "field" -> <<Ret(Field(V("s"), "f"))>>
    [] k = "tuple-access" -> <<Ret(Bin("-", TupAt(V("t"), 1), TupAt(V("t"), 0)))>>
    [] k = "tuple" -> <<Ret(TupAt(TupE(<<I(0), V("x"), I(0)>>), 1))>>
    [] k = "struct" -> <<Ret(Field(StructE(<< <<"k", V("x")>> >>), "k"))>>
    [] k = "index" -> <<Ret(At(V("a"), V("x")))>>
    [] k = "slice-bounds" -> <<Ret(At(Slice(V("a"), V("x"), NoneV, NoneV), I(0)))>>
    [] k = "slice-sequence" -> <<Ret(At(Slice(V("a"), I(1), I(3), NoneV), I(1)))>>
    [] k = "slice-step" -> <<Ret(At(Slice(V("a"), NoneV, NoneV, V("x")), I(1)))>>
    [] k = "mut" -> <<Set("m", MutE(WInt, V("x"))), Asg("+=", V("m"), I(1)), Ret(Deref(V("m")))>>
    [] k = "deref-assign" -> <<Asg("+=", V("c"), V("x")), Ret(Deref(V("c")))>>
    [] k = "call" -> <<Ret(CallE(V("g"), <<V("x")>>))>>
    [] k = "if" -> <<If1(Bin("==", V("x"), I(2)), Ret(I(1))), Ret(I(0))>>
    [] k = "ifset" -> <<IfSet("n", WInt, V("u"), Ret(Bin("+", V("n"), V("x"))), NoneV), Ret(I(0))>>
    [] k = "match" -> <<Ret(Match(V("x"), <<ArmVal(<<I(1)>>, I(10)), ArmVal(<<TupAt(V("t"), 0), I(2)>>, I(20)), ArmOther(I(30))>>))>>
    [] k = "match-type" -> <<Ret(Match(V("u"), <<ArmTy("n", WStr, I(1)), ArmTy("n", WInt, Bin("+", V("n"), V("x")))>>))>>
    [] k = "block" -> <<Set("r", Block(<<Set("y", Bin("+", V("x"), I(1))), Bin("*", V("y"), I(2))>>)), Ret(V("r"))>>
    [] k = "destruct" -> <<Destruct(<<"p", "q">>, V("t")), Ret(Bin("+", V("p"), Bin("*", V("q"), V("x"))))>>
    [] k = "while" -> <<Set("k", MutE(WInt, I(0))), While(Bin("<", Deref(V("k")), V("x")), Block(<<Asg("+=", V("k"), I(1))>>)), Ret(Deref(V("k")))>>
    [] k = "for" -> <<Set("k", MutE(WInt, I(0))), For("e", IterE(V("a")), Block(<<Asg("+=", V("k"), Bin("*", V("e"), V("x")))>>)), Ret(Deref(V("k")))>>
    [] k = "loop" -> <<Set("k", MutE(WInt, I(0))), Loop(Block(<<Asg("+=", V("k"), I(1)), If1(Bin(">", Deref(V("k")), V("x")), Break)>>)), Ret(Deref(V("k")))>>
    [] k = "iter-collect" -> <<Ret(At(CollectE(IterE(V("a"))), V("x")))>>
    [] k = "map" -> <<Ret(RedE("$+", "int", MapE(IterE(V("a")), V("g"))))>>
    [] k = "filter" -> <<Ret(RedE("$+", "int", FilterE(IterE(ArrE(<<I(1), I(2), I(3), V("x")>>)), GtOne)))>>
    [] k = "type-filter" -> <<Ret(RedE("$+", "int", TFilterE(IterE(ArrE(<<V("u"), V("x")>>)), WInt)))>>
    [] k = "partition" -> <<Ret(At(TupAt(PartE(IterE(V("a")), FnE(<<P("q", WInt)>>, WBool, <<Ret(Bin(">", V("q"), Bin("+", V("x"), I(3))))>>)), 0), I(0)))>>
    [] k = "reduce" -> <<Ret(ReduceE(IterE(V("a")), V("x"), FnE(<<P("acc", WInt), P("q", WInt)>>, WInt, <<Ret(Bin("+", V("acc"), V("q")))>>)))>>
    [] k = "sum-product" -> <<Ret(Bin("+", RedE("$+", "int", IterE(V("a"))), RedE("$*", "int", IterE(ArrE(<<V("x"), I(3)>>)))))>>
    [] k = "bool-reduce" -> <<Ret(If(RedE("$&&", "bool", IterE(ArrE(<<V("b"), B(TRUE)>>))), I(1), I(0)))>>
    [] k = "fn-literal" -> <<Set("h", FnE(<<P("q", WInt)>>, WInt, <<Ret(Bin("+", V("q"), V("x")))>>)), Ret(CallE(V("h"), <<I(40)>>))>>
    [] k = "fn-decl" -> <<FnDecl("h", <<P("q", WInt)>>, WInt, <<Ret(Bin("+", V("q"), V("x")))>>), Ret(CallE(V("h"), <<I(40)>>))>>
    [] k = "mod" -> <<Set("m", ModE(<<Set("y", Bin("+", V("x"), I(1)))>>)), Ret(Field(V("m"), "y"))>>
    [] k = "whileset" -> <<Set("k", MutE(WInt, I(0))),
                           FnDecl("nx", <<>>, WMulti(<<WInt, WVoid>>), <<Asg("+=", V("k"), I(1)), If1(Bin(">", Deref(V("k")), V("x")), Ret0), Ret(Deref(V("k")))>>),
                           Set("acc", MutE(WInt, I(0))), WhileSet("n", WInt, CallE(V("nx"), <<>>), Block(<<Asg("+=", V("acc"), V("n"))>>)), Ret(Deref(V("acc")))>>
CapWant(k) ==
  CASE k \in {"array", "repeat-value", "tuple", "struct", "while"} -> 2
    [] k = "repeat-length" -> 6 [] k = "bin" -> 12 [] k = "neg-not" -> 2 [] k = "and-or" -> 0 [] k = "field" -> 4
    [] k = "tuple-access" -> 1 [] k = "index" -> 7 [] k = "slice-bounds" -> 7 [] k = "slice-sequence" -> 7 [] k = "slice-step" -> 7
    [] k = "mut" -> 3 [] k = "call" -> 20 [] k = "if" -> 1 [] k = "ifset" -> 5 [] k = "match" -> 20 [] k = "match-type" -> 5
    [] k = "block" -> 6 [] k = "destruct" -> 26 [] k = "for" -> 36 [] k = "loop" -> 3 [] k = "iter-collect" -> 7 [] k = "map" -> 180
    [] k = "filter" -> 3 [] k = "type-filter" -> 5 [] k = "partition" -> 6 [] k = "reduce" -> 20 [] k = "sum-product" -> 24
    [] k = "bool-reduce" -> 1 [] k = "fn-literal" -> 42 [] k = "fn-decl" -> 42 [] k = "mod" -> 3 [] k = "whileset" -> 3
CapKinds == {"array", "repeat-value", "repeat-length", "bin", "neg-not", "and-or", "field", "tuple-access", "tuple", "struct", "index",
             "slice-bounds", "slice-sequence", "slice-step", "mut", "call", "if", "ifset", "match", "match-type", "block", "destruct",
             "while", "for", "loop", "iter-collect", "map", "filter", "type-filter", "partition", "reduce", "sum-product", "bool-reduce",
             "fn-literal", "fn-decl", "mod", "whileset"}
CapturedCases ==
  {Case("captured-" \o k,
        <<FnDecl("mk", CapParams, WFn(<<>>, WInt), <<Ret(FnE(<<>>, WInt, CapForm(k)))>>),
          Set("clo", CallE(V("mk"), CapArgs)), TupE(<<CallE(V("clo"), <<>>), CallE(V("clo"), <<>>)>>)>>,
        TupV(<<IntV(CapWant(k)), IntV(CapWant(k))>>)) : k \in CapKinds}
  \* two levels: the closure that uses the operands is made by a closure that is made by the function holding them
  \* (the specialisation pass runs once per level)
  \cup {Case("captured2-" \o k,
        <<FnDecl("mk", CapParams, WFn(<<>>, WFn(<<>>, WInt)), <<Ret(FnE(<<>>, WFn(<<>>, WInt), <<Ret(FnE(<<>>, WInt, CapForm(k)))>>))>>),
          Set("mid", CallE(V("mk"), CapArgs)), Set("clo", CallE(V("mid"), <<>>)), Set("clo2", CallE(V("mid"), <<>>)),
          TupE(<<CallE(V("clo"), <<>>), CallE(V("clo2"), <<>>)>>)>>,
        TupV(<<IntV(CapWant(k)), IntV(CapWant(k))>>)) : k \in CapKinds}
  \* ... and the operands are used in a function DECLARED (by name, so it can also call itself) inside the closure
  \cup {Case("captured-in-declared-" \o k,
        <<FnDecl("mk", CapParams, WFn(<<>>, WInt),
                 <<FnDecl("inner", <<>>, WInt, CapForm(k)), Ret(V("inner"))>>),
          Set("clo", CallE(V("mk"), CapArgs)), TupE(<<CallE(V("clo"), <<>>), CallE(V("clo"), <<>>)>>)>>,
        TupV(<<IntV(CapWant(k)), IntV(CapWant(k))>>)) : k \in CapKinds}
  \* the closure writes a captured cell: the two calls see each other's writes
  \cup {Case("captured-deref-assign",
        <<FnDecl("mk", CapParams, WFn(<<>>, WInt), <<Ret(FnE(<<>>, WInt, CapForm("deref-assign")))>>),
          Set("clo", CallE(V("mk"), CapArgs)), TupE(<<CallE(V("clo"), <<>>), CallE(V("clo"), <<>>)>>)>>, T2(3, 5))}

\* ---------------------------------------------------------------- (B) capture
GetX == FnE(<<>>, WInt, <<Ret(V("x"))>>)
\* A function literal that is evaluated more than once (a factory called twice, a loop body) captures anew each time,
\* also when the captured name is used only INSIDE a function nested in the literal (a helper bound to a name, a
\* declared helper, a literal called on the spot, two levels down, a callback of @) and never at the literal's own level.
DeepBody(how, x) ==
  CASE how = "helper" -> <<Set("hh", FnE(<<>>, WInt, <<Ret(x)>>)), Ret(CallE(V("hh"), <<>>))>>
    [] how = "decl"   -> <<FnDecl("hh", <<>>, WInt, <<Ret(x)>>), Ret(CallE(V("hh"), <<>>))>>
    [] how = "inline" -> <<Ret(CallE(FnE(<<>>, WInt, <<Ret(x)>>), <<>>))>>
    [] how = "deep3"  -> <<Set("hh", FnE(<<>>, WInt, <<Set("kk", FnE(<<>>, WInt, <<Ret(x)>>)), Ret(CallE(V("kk"), <<>>))>>)), Ret(CallE(V("hh"), <<>>))>>
    [] how = "map"    -> <<Ret(RedE("$+", "int", MapE(IterE(ArrE(<<I(0)>>)), FnE(<<P("z", WInt)>>, WInt, <<Ret(Bin("+", V("z"), x))>>))))>>
    [] how = "block"  -> <<Set("r", Block(<<Set("hh", FnE(<<>>, WInt, <<Ret(x)>>)), CallE(V("hh"), <<>>)>>)), Ret(V("r"))>>
DeepHows == {"helper", "decl", "inline", "deep3", "map", "block"}
FnInt == WFn(<<>>, WInt)
DeepCases ==
  {Case("factory-deep-param-" \o how,
        <<FnDecl("mk", <<P("n", WInt)>>, FnInt, <<Ret(FnE(<<>>, WInt, DeepBody(how, V("n"))))>>),
          Set("a", CallE(V("mk"), <<H(1)>>)), Set("b", CallE(V("mk"), <<H(2)>>)),
          TupE(<<CallE(V("a"), <<>>), CallE(V("b"), <<>>), CallE(V("a"), <<>>)>>)>>, T3(1, 2, 1)) : how \in DeepHows}
  \cup {Case("factory-deep-local-" \o how,
        <<FnDecl("mk", <<P("n", WInt)>>, FnInt, <<Set("m", Bin("*", V("n"), I(10))), Ret(FnE(<<>>, WInt, DeepBody(how, V("m"))))>>),
          Set("a", CallE(V("mk"), <<H(1)>>)), Set("b", CallE(V("mk"), <<H(2)>>)),
          TupE(<<CallE(V("a"), <<>>), CallE(V("b"), <<>>), CallE(V("a"), <<>>)>>)>>, T3(10, 20, 10)) : how \in DeepHows}
  \cup {Case("factory-deep-cell-" \o how,
        <<FnDecl("mk", <<>>, FnInt, <<Set("c", MutE(WInt, I(0))), Ret(FnE(<<>>, WInt, DeepBody(how, Asg("+=", V("c"), I(1)))))>>),
          Set("a", CallE(V("mk"), <<>>)), Set("b", CallE(V("mk"), <<>>)),
          TupE(<<CallE(V("a"), <<>>), CallE(V("a"), <<>>), CallE(V("b"), <<>>)>>)>>, T3(1, 2, 1)) : how \in DeepHows}
  \cup {Case("loop-deep-" \o how,
        <<Set("fs", MutE(WArr(FnInt), ArrE(<<>>))),
          For("i", IterE(ArrE(<<H(1), H(2)>>)), Block(<<Asg("+=", V("fs"), ArrE(<<FnE(<<>>, WInt, DeepBody(how, V("i")))>>))>>)),
          TupE(<<CallE(At(Deref(V("fs")), I(0)), <<>>), CallE(At(Deref(V("fs")), I(1)), <<>>), CallE(At(Deref(V("fs")), I(0)), <<>>)>>)>>, T3(1, 2, 1))
        : how \in DeepHows}
  \cup {Case("literal-in-function-called-twice-" \o how,
        <<FnDecl("run", <<P("n", WInt)>>, WInt, <<Set("f", FnE(<<>>, WInt, DeepBody(how, V("n")))), Ret(CallE(V("f"), <<>>))>>),
          TupE(<<CallE(V("run"), <<H(1)>>), CallE(V("run"), <<H(2)>>), CallE(V("run"), <<H(1)>>)>>)>>, T3(1, 2, 1)) : how \in DeepHows}

CaptureCases == {
  Case("capture-redeclare", <<Set("x", H(1)), Set("f", GetX), Set("x", H(2)), TupE(<<CallE(V("f"), <<>>), V("x")>>)>>,
       TupV(<<IntV(1), IntV(2)>>)),
  Case("capture-redeclare-const", <<Set("x", I(1)), Set("f", GetX), Set("x", I(2)), TupE(<<CallE(V("f"), <<>>), V("x")>>)>>,
       TupV(<<IntV(1), IntV(2)>>)),
  Case("capture-redeclare-decl", <<Set("x", H(1)), FnDecl("f", <<>>, WInt, <<Ret(V("x"))>>), Set("x", H(2)), TupE(<<CallE(V("f"), <<>>), V("x")>>)>>,
       TupV(<<IntV(1), IntV(2)>>)),
  \* identity: inside its body a function's own name denotes THE function that was called (== is identity on functions
  \* and cells): compared with the same function reached as an argument, through an alias, inside an array, in a value arm
  Case("identity-own-name",
       <<FnDecl("f", <<P("g", WAny)>>, WTup(<<WInt, WInt, WInt, WInt>>),
                <<Set("m", Match(V("g"), <<ArmVal(<<V("f")>>, I(1)), ArmOther(I(0))>>)),
                  Set("e", If(Bin("==", V("f"), V("g")), I(1), I(0))), Set("n", If(Bin("!=", V("f"), V("g")), I(1), I(0))),
                  Set("a", If(Bin("==", ArrE(<<V("f")>>), ArrE(<<V("g")>>)), I(1), I(0))),
                  Ret(TupE(<<V("e"), V("n"), V("m"), V("a")>>))>>),
         FnDecl("other", <<P("g", WAny)>>, WInt, <<Ret(I(0))>>), Set("al", V("f")),
         TupE(<<CallE(V("f"), <<V("f")>>), CallE(V("f"), <<V("al")>>), CallE(V("f"), <<V("other")>>), CallE(V("al"), <<V("f")>>)>>)>>,
       TupV(<<TupV(<<IntV(1), IntV(0), IntV(1), IntV(1)>>), TupV(<<IntV(1), IntV(0), IntV(1), IntV(1)>>),
              TupV(<<IntV(0), IntV(1), IntV(0), IntV(0)>>), TupV(<<IntV(1), IntV(0), IntV(1), IntV(1)>>)>>)),
  Case("identity-returns-itself",
       <<FnDecl("self", <<>>, WAny, <<Ret(V("self"))>>), Set("r", CallE(V("self"), <<>>)),
         Set("e", If(Bin("==", V("r"), V("self")), I(1), I(0))), TupE(<<V("e"), V("e")>>)>>, T2(1, 1)),
  Case("identity-cell",
       <<Set("c", MutE(WInt, I(1))), FnDecl("k", <<P("d", WMut(WInt))>>, WInt, <<Ret(If(Bin("==", V("c"), V("d")), I(1), I(0)))>>),
         TupE(<<CallE(V("k"), <<V("c")>>), CallE(V("k"), <<MutE(WInt, I(1))>>)>>)>>, T2(1, 0)),
  \* a value arm that lists a literal AND a captured non-constant name
  Case("capture-in-match-value-arm",
       <<FnDecl("mk", <<P("limit", WInt)>>, WFn(<<WInt>>, WInt),
                <<Ret(FnE(<<P("v", WInt)>>, WInt, <<Ret(Match(V("v"), <<ArmVal(<<I(0), V("limit")>>, I(1)), ArmOther(I(0))>>))>>))>>),
         Set("g", CallE(V("mk"), <<H(7)>>)), TupE(<<CallE(V("g"), <<H(7)>>), CallE(V("g"), <<H(0)>>), CallE(V("g"), <<H(3)>>)>>)>>, T3(1, 1, 0)),
  Case("capture-in-match-value-arm-top",
       <<Set("limit", H(7)), FnDecl("g", <<P("v", WInt)>>, WInt, <<Ret(Match(V("v"), <<ArmVal(<<V("limit"), I(0)>>, I(1)), ArmOther(I(0))>>))>>),
         Set("limit", H(3)), TupE(<<CallE(V("g"), <<H(7)>>), CallE(V("g"), <<H(0)>>), CallE(V("g"), <<H(3)>>)>>)>>, T3(1, 1, 0)),
  Case("capture-in-match-scrutinee-and-arms",
       <<Set("lo", H(1)), Set("hi", H(9)), FnDecl("g", <<>>, WInt, <<Ret(Match(V("lo"), <<ArmVal(<<V("hi")>>, I(1)), ArmVal(<<I(5), V("lo")>>, I(2)), ArmOther(I(0))>>))>>),
         CallE(V("g"), <<>>)>>, IntV(2)),
  Case("capture-cell-shared", <<Set("c", MutE(WInt, I(1))), Set("f", FnE(<<>>, WInt, <<Ret(Deref(V("c")))>>)),
                                Asg("=", V("c"), I(5)), TupE(<<CallE(V("f"), <<>>), Deref(V("c"))>>)>>,
       TupV(<<IntV(5), IntV(5)>>)),
  Case("capture-cell-redeclared", <<Set("c", MutE(WInt, I(1))), Set("f", FnE(<<>>, WInt, <<Ret(Deref(V("c")))>>)),
                                    Set("c", MutE(WInt, I(9))), TupE(<<CallE(V("f"), <<>>), Deref(V("c"))>>)>>,
       TupV(<<IntV(1), IntV(9)>>)),
  Case("closure-writes-captured-cell", <<Set("c", MutE(WInt, I(1))), Set("inc", FnE(<<>>, WInt, <<Ret(Asg("+=", V("c"), I(1)))>>)),
                                         CallE(V("inc"), <<>>), CallE(V("inc"), <<>>), Deref(V("c"))>>, IntV(3)),
  Case("closure-returned", <<FnDecl("mk", <<P("a", WInt)>>, WFn(<<>>, WInt), <<Ret(FnE(<<>>, WInt, <<Ret(V("a"))>>))>>),
                             Set("g", CallE(V("mk"), <<H(3)>>)), Set("g2", CallE(V("mk"), <<H(4)>>)), Set("a", H(10)),
                             TupE(<<CallE(V("g"), <<>>), CallE(V("g2"), <<>>), V("a")>>)>>, T3(3, 4, 10)),
  Case("closure-passed", <<Set("x", H(1)), Set("f", GetX),
                           FnDecl("app", <<P("fn", WFn(<<>>, WInt))>>, WInt, <<Set("x", H(100)), Ret(Bin("+", CallE(V("fn"), <<>>), V("x")))>>),
                           TupE(<<CallE(V("app"), <<V("f")>>), V("x")>>)>>, TupV(<<IntV(101), IntV(1)>>)),
  Case("counter-factory", <<FnDecl("mkc", <<>>, WFn(<<>>, WInt), <<Set("n", MutE(WInt, I(0))), Ret(FnE(<<>>, WInt, <<Ret(Asg("+=", V("n"), I(1)))>>))>>),
                            Set("c1", CallE(V("mkc"), <<>>)), Set("c2", CallE(V("mkc"), <<>>)),
                            TupE(<<CallE(V("c1"), <<>>), CallE(V("c1"), <<>>), CallE(V("c2"), <<>>)>>)>>, T3(1, 2, 1)),
  Case("use-before-local", <<Set("x", H(1)), FnDecl("f", <<>>, WInt, <<Set("y", V("x")), Set("x", H(5)), Ret(Bin("+", V("y"), V("x")))>>),
                             TupE(<<CallE(V("f"), <<>>), V("x")>>)>>, TupV(<<IntV(6), IntV(1)>>)),
  Case("callee-declares", <<Set("y", H(1)), FnDecl("f", <<>>, WVoid, <<Set("y", H(5)), Set("w", H(6))>>), CallE(V("f"), <<>>), V("y")>>, IntV(1)),
  Case("nested-literals", <<Set("x", H(1)),
                            Set("f", FnE(<<P("a", WInt)>>, WFn(<<WInt>>, WInt),
                                         <<Set("x", Bin("+", V("x"), V("a"))), Ret(FnE(<<P("b", WInt)>>, WInt, <<Ret(Bin("+", Bin("*", V("x"), I(10)), V("b")))>>))>>)),
                            Set("g", CallE(V("f"), <<H(2)>>)), Set("x", H(50)), CallE(V("g"), <<H(4)>>)>>, IntV(34)),
  Case("param-shadows-own-name", <<FnDecl("f", <<P("f", WInt)>>, WInt, <<Ret(V("f"))>>), CallE(V("f"), <<H(3)>>)>>, IntV(3)),
  \* two parameters of one name: the later declaration is the one the body means — for the checker and at run time alike
  Case("param-duplicate-name", <<FnDecl("f", <<P("a", WInt), P("a", WStr)>>, WStr, <<Ret(Bin("+", V("a"), S(<<33>>)))>>),
                                 FnDecl("g", <<P("a", WStr), P("a", WInt)>>, WInt, <<Set("h", FnE(<<>>, WInt, <<Ret(Bin("*", V("a"), I(2)))>>)), Ret(CallE(V("h"), <<>>))>>),
                                 TupE(<<CallE(V("f"), <<H(1), S(<<120>>)>>), CallE(V("g"), <<S(<<120>>), H(4)>>)>>)>>,
       TupV(<<StrV(<<120, 33>>), IntV(8)>>)),
  \* ... and the body USES the parameter as the int it is (directly, through an alias, from an iterator operator)
  Case("param-shadows-own-name-used", <<FnDecl("twice", <<P("twice", WInt)>>, WInt, <<Ret(Bin("*", V("twice"), I(2)))>>),
                                        Set("al", V("twice")),
                                        TupE(<<CallE(V("twice"), <<H(4)>>), CallE(V("al"), <<H(5)>>),
                                               RedE("$+", "int", MapE(IterE(ArrE(<<H(1), H(2)>>)), V("twice")))>>)>>, T3(8, 10, 6)),
  Case("param-shadows-outer", <<Set("a", H(1)), FnDecl("f", <<P("a", WInt)>>, WInt, <<Ret(V("a"))>>), TupE(<<CallE(V("f"), <<H(7)>>), V("a")>>)>>,
       TupV(<<IntV(7), IntV(1)>>)),
  \* a declaration becomes visible only after its whole initialiser was evaluated
  Case("destruct-swap", <<Set("a", H(1)), Set("b", H(2)), Destruct(<<"a", "b">>, TupE(<<V("b"), V("a")>>)), TupE(<<V("a"), V("b")>>)>>, TupV(<<IntV(2), IntV(1)>>)),
  Case("destruct-rotate", <<Set("x", H(1)), Set("y", H(2)), Set("z", H(3)), Destruct(<<"x", "y", "z">>, TupE(<<V("y"), V("z"), V("x")>>)), TupE(<<V("x"), V("y"), V("z")>>)>>, T3(2, 3, 1)),
  Case("destruct-closure-sees-old", <<Set("a", H(1)), Set("b", H(2)), Destruct(<<"a", "get">>, TupE(<<V("b"), FnE(<<>>, WInt, <<Ret(V("a"))>>)>>)),
                                      TupE(<<V("a"), CallE(V("get"), <<>>)>>)>>, TupV(<<IntV(2), IntV(1)>>)),
  Case("destruct-swap-mixed", <<Set("c", MutE(WInt, I(7))), Set("a", H(1)), Set("b", Deref(V("c"))), Destruct(<<"a", "b">>, TupE(<<V("b"), V("a")>>)), TupE(<<V("a"), V("b")>>)>>,
       TupV(<<IntV(7), IntV(1)>>)),
  Case("destruct-self-reference-top", <<Set("c", MutE(WInt, I(7))), Set("x", Deref(V("c"))), Destruct(<<"x", "y">>, TupE(<<H(0), Bin("+", V("x"), I(1))>>)), TupE(<<V("x"), V("y")>>)>>,
       TupV(<<IntV(0), IntV(8)>>)),
  \* the else branch of an if-set names the binder: it means the ENCLOSING variable, whose value differs from the tested one
  Case("ifset-else-sees-outer-not-tested", <<FnDecl("f", <<P("x", WInt), P("v", WMulti(<<WInt, WStr>>))>>, WAny,
                                                    <<IfSet("x", WInt, V("v"), Block(<<Ret(I(-1))>>), Block(<<Ret(V("x"))>>)), Ret(I(-2))>>),
                                             TupE(<<CallE(V("f"), <<H(7), S(<<115>>)>>), CallE(V("f"), <<H(7), H(3)>>)>>)>>, TupV(<<IntV(7), IntV(-1)>>)),
  Case("ifset-else-value-sees-outer", <<Set("x", H(7)), Set("v", Hide(WMulti(<<WInt, WStr>>), S(<<115>>))),
                                        Set("r", IfSet("x", WInt, V("v"), I(-1), Bin("+", V("x"), I(1)))), TupE(<<V("r"), V("x")>>)>>, TupV(<<IntV(8), IntV(7)>>)),
  Case("destruct-swap-in-fn", <<FnDecl("sw", <<P("a", WInt), P("b", WInt)>>, WTup(<<WInt, WInt>>), <<Destruct(<<"a", "b">>, TupE(<<V("b"), V("a")>>)), Ret(TupE(<<V("a"), V("b")>>))>>),
                                CallE(V("sw"), <<H(1), H(2)>>)>>, TupV(<<IntV(2), IntV(1)>>)),
  Case("set-self-reference", <<Set("x", H(1)), Set("x", Block(<<Set("x", Bin("+", V("x"), I(1))), Bin("*", V("x"), I(10))>>)), V("x")>>, IntV(20)),
  Case("set-self-reference-fn", <<Set("x", H(1)), Set("x", CallE(FnE(<<>>, WInt, <<Ret(Bin("+", V("x"), I(1)))>>), <<>>)), V("x")>>, IntV(2)),
  Case("block-value-and-scope", <<Set("x", H(1)), Set("v", Block(<<Set("x", H(2)), Bin("+", V("x"), I(1))>>)), TupE(<<V("v"), V("x")>>)>>,
       TupV(<<IntV(3), IntV(1)>>))
}

\* ---------------------------------------------------------------- (C) recursion by declared name
Fact == FnDecl("fact", <<P("n", WInt)>>, WInt, <<If1(Bin("<", V("n"), I(2)), Ret(I(1))), Ret(Bin("*", V("n"), CallE(V("fact"), <<Bin("-", V("n"), I(1))>>)))>>)
IsEvenRec == FnDecl("ev", <<P("n", WInt)>>, WBool, <<If1(Bin("==", V("n"), I(0)), Ret(B(TRUE))), If1(Bin("==", V("n"), I(1)), Ret(B(FALSE))), Ret(CallE(V("ev"), <<Bin("-", V("n"), I(2))>>))>>)
SumRec == FnDecl("sr", <<P("a", WInt), P("n", WInt)>>, WInt, <<If1(Bin("==", V("n"), I(0)), Ret(V("a"))), Ret(CallE(V("sr"), <<Bin("+", V("a"), I(1)), Bin("-", V("n"), I(1))>>))>>)
\* a declared iterator that calls itself (skips the value 2)
RecIter == <<Set("cnt", MutE(WInt, I(0))),
             FnDecl("it", <<>>, WTup(<<WBool, WInt>>),
               <<Asg("+=", V("cnt"), I(1)),
                 If1(Bin(">", Deref(V("cnt")), I(3)), Ret(TupE(<<B(FALSE), I(0)>>))),
                 If1(Bin("==", Deref(V("cnt")), I(2)), Ret(CallE(V("it"), <<>>))),
                 Ret(TupE(<<B(TRUE), Deref(V("cnt"))>>))>>)>>
A123 == ArrE(<<I(1), I(2), I(3)>>)
AV(xs) == ArrV(TAny, [i \in 1..Len(xs) |-> IntV(xs[i])])
RecCases == {
  Case("rec-direct", <<Fact, CallE(V("fact"), <<H(4)>>)>>, IntV(24)),
  Case("rec-alias", <<Fact, Set("g", V("fact")), Set("fact", H(0)), CallE(V("g"), <<H(4)>>)>>, IntV(24)),
  Case("rec-argument", <<Fact, FnDecl("app", <<P("fn", WFn(<<WInt>>, WInt)), P("v", WInt)>>, WInt, <<Ret(CallE(V("fn"), <<V("v")>>))>>),
                         CallE(V("app"), <<V("fact"), H(4)>>)>>, IntV(24)),
  Case("rec-map", <<Fact, CollectE(MapE(IterE(A123), V("fact")))>>, AV(<<1, 2, 6>>)),
  Case("rec-filter", <<IsEvenRec, CollectE(FilterE(IterE(ArrE(<<I(1), I(2), I(3), I(4)>>)), V("ev")))>>, AV(<<2, 4>>)),
  Case("rec-partition", <<IsEvenRec, PartE(IterE(A123), V("ev"))>>, TupV(<<AV(<<2>>), AV(<<1, 3>>)>>)),
  Case("rec-reduce", <<SumRec, ReduceE(IterE(A123), I(0), V("sr"))>>, IntV(6)),
  Case("rec-for", <<Fact, Set("acc", MutE(WInt, I(0))), For("e", IterE(A123), Block(<<Asg("+=", V("acc"), CallE(V("fact"), <<V("e")>>))>>)), Deref(V("acc"))>>, IntV(9)),
  Case("rec-in-block", <<Set("r", Block(<<Fact, CallE(V("fact"), <<H(3)>>)>>)), V("r")>>, IntV(6)),
  Case("rec-iter-collect", RecIter \o <<Set("j", V("it")), CollectE(V("j"))>>, AV(<<1, 3>>)),
  Case("rec-iter-collect-own", RecIter \o <<CollectE(V("it"))>>, AV(<<1, 3>>)),
  Case("rec-iter-reduce", RecIter \o <<Set("j", V("it")), ReduceE(V("j"), I(0), FnE(<<P("a", WInt), P("b", WInt)>>, WInt, <<Ret(Bin("+", V("a"), V("b")))>>))>>, IntV(4)),
  Case("rec-iter-sum", RecIter \o <<Set("j", V("it")), RedE("$+", "int", V("j"))>>, IntV(4)),
  Case("rec-iter-partition", RecIter \o <<Set("j", V("it")), PartE(V("j"), FnE(<<P("a", WInt)>>, WBool, <<Ret(Bin(">", V("a"), I(1)))>>))>>,
       TupV(<<AV(<<3>>), AV(<<1>>)>>)),
  Case("rec-iter-map", RecIter \o <<Set("j", V("it")), CollectE(MapE(V("j"), FnE(<<P("a", WInt)>>, WInt, <<Ret(Bin("*", V("a"), I(2)))>>)))>>, AV(<<2, 6>>)),
  Case("rec-iter-filter", RecIter \o <<Set("j", V("it")), CollectE(FilterE(V("j"), FnE(<<P("a", WInt)>>, WBool, <<Ret(Bin(">", V("a"), I(1)))>>)))>>, AV(<<3>>)),
  Case("rec-iter-tfilter", RecIter \o <<Set("j", V("it")), CollectE(TFilterE(V("j"), WInt))>>, AV(<<1, 3>>)),
  Case("rec-iter-for", RecIter \o <<Set("j", V("it")), Set("acc", MutE(WInt, I(0))), For("e", V("j"), Block(<<Asg("+=", V("acc"), V("e"))>>)), Deref(V("acc"))>>, IntV(4))
}

\* ---------------------------------------------------------------- (D) iterator bodies declaring the consumer's names
\* the iterator yields 1, 2 and declares x, acc, e, a, p locally
NoisyIter(declared) ==
  LET body == <<Set("x", S(<<98>>)), Set("acc", S(<<98>>)), Set("e", S(<<98>>)), Set("a", S(<<98>>)), Set("p", S(<<98>>)), Set("it", S(<<98>>)),
                Asg("+=", V("n"), I(1)),
                If1(Bin(">", Deref(V("n")), I(2)), Ret(TupE(<<B(FALSE), I(0)>>))),
                Ret(TupE(<<B(TRUE), Deref(V("n"))>>))>>
  IN IF declared THEN <<Set("n", MutE(WInt, I(0))), FnDecl("src", <<>>, WTup(<<WBool, WInt>>), body)>>
     ELSE <<Set("n", MutE(WInt, I(0))), Set("src", FnE(<<>>, WTup(<<WBool, WInt>>), body))>>
AddF == FnE(<<P("a", WInt), P("b", WInt)>>, WInt, <<Ret(Bin("+", V("a"), V("b")))>>)
GtF == FnE(<<P("a", WInt)>>, WBool, <<Ret(Bin(">", V("a"), I(1)))>>)
DblF == FnE(<<P("a", WInt)>>, WInt, <<Ret(Bin("*", V("a"), I(2)))>>)
Consumers == [
  collect |-> [e |-> CollectE(V("src")), want |-> AV(<<1, 2>>)],
  reduce |-> [e |-> ReduceE(V("src"), I(0), V("p")), want |-> IntV(3)],
  partition |-> [e |-> PartE(V("src"), GtF), want |-> TupV(<<AV(<<2>>), AV(<<1>>)>>)],
  map |-> [e |-> CollectE(MapE(V("src"), DblF)), want |-> AV(<<2, 4>>)],
  filter |-> [e |-> CollectE(FilterE(V("src"), GtF)), want |-> AV(<<2>>)],
  tfilter |-> [e |-> CollectE(TFilterE(V("src"), WInt)), want |-> AV(<<1, 2>>)],
  sum |-> [e |-> RedE("$+", "int", V("src")), want |-> IntV(3)],
  product |-> [e |-> RedE("$*", "int", V("src")), want |-> IntV(2)],
  bitor |-> [e |-> RedE("$|", "int", V("src")), want |-> IntV(3)]
]
NoisyCases ==
  {Case("noisy-" \o c \o "-" \o ToString(d),
        <<Set("x", H(1)), Set("acc", H(2)), Set("e", H(3)), Set("a", H(4)), Set("p", AddF)>> \o NoisyIter(d)
          \o <<Set("r", Consumers[c].e), TupE(<<V("r"), V("x"), V("acc"), V("e"), V("a")>>)>>,
        TupV(<<Consumers[c].want, IntV(1), IntV(2), IntV(3), IntV(4)>>)) : c \in DOMAIN Consumers, d \in BOOLEAN}
  \cup {Case("noisy-for-" \o ToString(d),
        <<Set("x", H(1)), Set("acc", MutE(WInt, I(0))), Set("a", H(4)), Set("p", AddF)>> \o NoisyIter(d)
          \o <<For("e", V("src"), Block(<<Asg("+=", V("acc"), Bin("+", V("e"), V("x")))>>)), TupE(<<Deref(V("acc")), V("x"), V("a")>>)>>,
        T3(5, 1, 4)) : d \in BOOLEAN}

\* the names the implementation's helper code uses internally, bound by the user: every iterator operator leaves them alone
HelperNames == <<"iterator", "default", "func", "function", "mapper", "predicate", "res", "con", "value", "array", "i", "len", "initial", "result", "tuple">>
HelperCase ==
  Case("helper-names-untouched",
       [j \in 1..Len(HelperNames) |-> Set(HelperNames[j], H(70 + j))] \o
       <<Set("src", Hide(WArr(WMulti(<<WInt, WStr>>)), ArrE(<<I(1), S(<<97>>), I(2)>>))),
         Set("r1", CollectE(TFilterE(IterE(V("src")), WInt))),
         Set("r2", CollectE(MapE(FilterE(TFilterE(IterE(V("src")), WInt), GtF), DblF))),
         Set("r3", PartE(TFilterE(IterE(V("src")), WInt), GtF)),
         Set("r4", Bin("+", RedE("$+", "int", TFilterE(IterE(V("src")), WInt)), ReduceE(TFilterE(IterE(V("src")), WInt), I(0), AddF))),
         Set("acc", MutE(WInt, I(0))), For("e", TFilterE(IterE(V("src")), WInt), Block(<<Asg("+=", V("acc"), V("e"))>>)),
         TupE([j \in 1..Len(HelperNames) |-> V(HelperNames[j])])>>,
       TupV([j \in 1..Len(HelperNames) |-> IntV(70 + j)]))

\* ... and a user variable of such a name used INSIDE the operand / the callback of an operator means the user's variable
\* (a run-time binding), whatever the operator's own code has bound under that name while the operand is evaluated
HelperOperandCases ==
  {Case("helper-name-in-operand-" \o nm,
        <<Set(nm, H(42)), Set("u", Hide(WMulti(<<WInt, WStr>>), S(<<115>>))),
          Set("r1", CollectE(TFilterE(IterE(ArrE(<<V(nm), V("u"), I(1)>>)), WInt))),
          Set("r2", CollectE(MapE(IterE(ArrE(<<V(nm), I(1)>>)), FnE(<<P("x", WInt)>>, WInt, <<Ret(Bin("+", V("x"), V(nm)))>>)))),
          Set("r3", CollectE(FilterE(IterE(ArrE(<<V(nm), I(1)>>)), FnE(<<P("x", WInt)>>, WBool, <<Ret(Bin("==", V("x"), V(nm)))>>)))),
          Set("r4", ReduceE(IterE(ArrE(<<V(nm)>>)), V(nm), AddF)),
          Set("r5", PartE(IterE(ArrE(<<V(nm), I(1)>>)), FnE(<<P("x", WInt)>>, WBool, <<Ret(Bin("==", V("x"), V(nm)))>>))),
          Set("r6", RedE("$+", "int", IterE(ArrE(<<V(nm), V(nm)>>)))),
          Set("acc", MutE(WInt, I(0))), For("e", IterE(ArrE(<<V(nm), I(1)>>)), Block(<<Asg("+=", V("acc"), Bin("+", V("e"), V(nm)))>>)),
          TupE(<<V("r1"), V("r2"), V("r3"), V("r4"), TupAt(V("r5"), 0), V("r6"), Deref(V("acc"))>>)>>,
        TupV(<<ArrV(TInt, <<IntV(42), IntV(1)>>), ArrV(TInt, <<IntV(84), IntV(43)>>), ArrV(TInt, <<IntV(42)>>), IntV(84),
               ArrV(TInt, <<IntV(42)>>), IntV(84), IntV(127)>>))
     : nm \in ({HelperNames[j] : j \in 1..Len(HelperNames)} \cup {"iter", "item", "element", "acc0", "it", "f", "p"}) \ {"acc", "e", "u", "x", "a", "b"}}

\* ---------------------------------------------------------------- (E) modules
SV(fs) == StructV(fs)
ModCases == {
  Case("mod-own-names", <<Set("outer", H(9)), Set("m", ModE(<<Set("a", H(1)), Set("b", Block(<<Set("c", H(2)), V("c")>>)), Set("a", H(3))>>)), V("m")>>,
       SV("a" :> IntV(3) @@ "b" :> IntV(2))),
  Case("mod-field-use", <<Set("m", ModE(<<Set("k", H(4)), FnDecl("dbl", <<P("v", WInt)>>, WInt, <<Ret(Bin("*", V("v"), V("k")))>>)>>)),
                          CallE(Field(V("m"), "dbl"), <<Field(V("m"), "k")>>)>>, IntV(16)),
  Case("mod-not-leaking", <<Set("a", H(1)), Set("m", ModE(<<Set("a", H(2))>>)), TupE(<<V("a"), Field(V("m"), "a")>>)>>, TupV(<<IntV(1), IntV(2)>>)),
  Case("mod-sees-outer", <<Set("a", H(1)), Set("m", ModE(<<Set("b", Bin("+", V("a"), I(1)))>>)), Field(V("m"), "b")>>, IntV(2)),
  Case("mod-empty", <<Set("m", ModE(<<>>)), V("m")>>, SV(<<>>)),
  \* imports: the same, with the module's text in another file
  Case("import-own-names", <<Set("outer", H(9)), Set("m", ImportE("m1.sl", <<Set("a", H(1)), Set("b", Block(<<Set("c", H(2)), V("c")>>)), Set("a", H(3))>>)), V("m")>>,
       SV("a" :> IntV(3) @@ "b" :> IntV(2))),
  Case("import-not-leaking", <<Set("a", H(1)), Set("m", ImportE("m2.sl", <<Set("a", H(2)), Set("z", H(5))>>)), TupE(<<V("a"), Field(V("m"), "a"), Field(V("m"), "z")>>)>>, T3(1, 2, 5)),
  Case("import-function", <<Set("m", ImportE("m3.sl", <<Set("k", H(4)), FnDecl("dbl", <<P("v", WInt)>>, WInt, <<Ret(Bin("*", V("v"), V("k")))>>)>>)),
                            Set("k", H(100)), CallE(Field(V("m"), "dbl"), <<H(3)>>)>>, IntV(12)),
  Case("import-twice-fresh-cells", <<Set("m1", ImportE("m4.sl", <<Set("c", MutE(WInt, I(1)))>>)), Set("m2", ImportE("m4.sl", <<Set("c", MutE(WInt, I(1)))>>)),
                                    Asg("+=", Field(V("m1"), "c"), I(5)), TupE(<<Deref(Field(V("m1"), "c")), Deref(Field(V("m2"), "c"))>>)>>, TupV(<<IntV(6), IntV(1)>>)),
  Case("import-in-function", <<FnDecl("ld", <<>>, WInt, <<Set("m", ImportE("m5.sl", <<Set("a", H(7))>>)), Ret(Field(V("m"), "a"))>>), Set("a", H(1)),
                               TupE(<<CallE(V("ld"), <<>>), V("a")>>)>>, TupV(<<IntV(7), IntV(1)>>)),
  Case("import-nested", <<Set("m", ImportE("m6.sl", <<Set("inner", ImportE("m7.sl", <<Set("q", H(8))>>)), Set("p", Field(V("inner"), "q"))>>)), Field(V("m"), "p")>>, IntV(8)),
  \* the SAME file (same path, same text) imported from two scopes that bind its free name differently: each import
\* resolves, folds and types the text in the scope of ITS import statement
  Case("import-same-file-two-scopes-const",
       <<Set("x", I(5)), Set("m1", ImportE("m8.sl", <<Set("y", Bin("*", V("x"), I(2)))>>)),
         Set("x", I(7)), Set("m2", ImportE("m8.sl", <<Set("y", Bin("*", V("x"), I(2)))>>)),
         TupE(<<Field(V("m1"), "y"), Field(V("m2"), "y")>>)>>, TupV(<<IntV(10), IntV(14)>>)),
  Case("import-same-file-two-scopes-hidden",
       <<Set("x", H(5)), Set("m1", ImportE("m9.sl", <<Set("y", Bin("*", V("x"), I(2)))>>)),
         Set("x", H(7)), Set("m2", ImportE("m9.sl", <<Set("y", Bin("*", V("x"), I(2)))>>)),
         TupE(<<Field(V("m1"), "y"), Field(V("m2"), "y")>>)>>, TupV(<<IntV(10), IntV(14)>>)),
  Case("import-same-file-two-functions",
       <<FnDecl("la", <<P("x", WInt)>>, WInt, <<Set("m", ImportE("m10.sl", <<Set("y", Bin("+", V("x"), I(1)))>>)), Ret(Field(V("m"), "y"))>>),
         FnDecl("lb", <<>>, WInt, <<Set("x", I(40)), Set("m", ImportE("m10.sl", <<Set("y", Bin("+", V("x"), I(1)))>>)), Ret(Field(V("m"), "y"))>>),
         TupE(<<CallE(V("la"), <<H(1)>>), CallE(V("lb"), <<>>), CallE(V("la"), <<H(2)>>)>>)>>, T3(2, 41, 3)),
  \* two PROGRAMS that import one shared file (the harness runs the cases of a suite in one process)
  Case("import-shared-file-A", <<Set("x", I(5)), Set("m", ImportE("shared.sl", <<Set("y", Bin("*", V("x"), I(2)))>>)), Field(V("m"), "y")>>, IntV(10)),
  Case("import-shared-file-B", <<Set("x", I(7)), Set("m", ImportE("shared.sl", <<Set("y", Bin("*", V("x"), I(2)))>>)), Field(V("m"), "y")>>, IntV(14)),
  Case("import-shared-file-C", <<Set("x", H(9)), Set("m", ImportE("shared.sl", <<Set("y", Bin("*", V("x"), I(2)))>>)), Field(V("m"), "y")>>, IntV(18)),
  Case("mod-destruct", <<Set("m", ModE(<<Destruct(<<"p", "q">>, TupE(<<H(1), H(2)>>))>>)), V("m")>>, SV("p" :> IntV(1) @@ "q" :> IntV(2))),
  \* a module (or imported file) whose top level holds STATEMENTS - every kind of loop, type tests, a match, a block, iterator
  \* operators: whatever these use internally, the module yields exactly the names its top level declares
  Case("mod-with-for", <<Set("m", ModE(<<Set("acc", MutE(WInt, I(0))), For("e", IterE(ArrE(<<H(1), H(2)>>)), Block(<<Asg("+=", V("acc"), V("e"))>>)),
                                          Set("total", Deref(V("acc")))>>)),
                         TupE(<<Field(V("m"), "total"), Deref(Field(V("m"), "acc"))>>)>>, TupV(<<IntV(3), IntV(3)>>)),
  Case("mod-with-for-fields", <<Set("m", ModE(<<Set("k", H(1)), For("e", IterE(ArrE(<<H(1), H(2)>>)), Block(<<Set("z", V("e"))>>)), Set("j", H(2))>>)), V("m")>>,
       SV("k" :> IntV(1) @@ "j" :> IntV(2))),
  Case("mod-with-for-inside-for", <<Set("r", MutE(WAny, Unit)),
                                    For("o", IterE(ArrE(<<H(5), H(6)>>)),
                                        Block(<<Set("m", ModE(<<Set("k", V("o")), For("e", IterE(ArrE(<<H(1)>>)), Block(<<Set("z", V("e"))>>))>>)),
                                                Asg("=", V("r"), V("m"))>>)),
                                    Deref(V("r"))>>, SV("k" :> IntV(6))),
  Case("mod-with-statements", <<Set("m", ModE(<<Set("k", MutE(WInt, I(0))),
                                                While(Bin("<", Deref(V("k")), I(2)), Block(<<Asg("+=", V("k"), I(1)), Set("w", I(0))>>)),
                                                Loop(Block(<<Set("l", I(0)), Break>>)),
                                                IfSet("t", WInt, Hide(WMulti(<<WInt, WStr>>), I(1)), Block(<<Set("u", V("t"))>>), NoneV),
                                                WhileSet("ws", WInt, Hide(WMulti(<<WInt, WStr>>), S(<<97>>)), Block(<<Set("v", I(0))>>)),
                                                Match(H(1), <<ArmTy("mt", WInt, Block(<<Set("mu", V("mt"))>>))>>),
                                                Block(<<Set("b", I(0))>>),
                                                Set("n", RedE("$+", "int", MapE(IterE(ArrE(<<H(1), H(2)>>)), DblF))),
                                                Set("p", PartE(IterE(ArrE(<<H(1), H(5)>>)), GtF))>>)),
                                TupE(<<Deref(Field(V("m"), "k")), Field(V("m"), "n")>>)>>, TupV(<<IntV(2), IntV(6)>>)),
  Case("mod-with-statements-fields", <<Set("m", ModE(<<Set("k", H(7)),
                                                       For("e", IterE(ArrE(<<H(1)>>)), Block(<<>>)),
                                                       IfSet("t", WInt, Hide(WMulti(<<WInt, WStr>>), I(1)), Block(<<Set("u", V("t"))>>), NoneV),
                                                       Match(H(1), <<ArmTy("mt", WInt, Block(<<Set("mu", V("mt"))>>))>>),
                                                       Set("n", CollectE(TFilterE(IterE(ArrE(<<H(1), H(2)>>)), WInt)))>>)), V("m")>>,
       SV("k" :> IntV(7) @@ "n" :> ArrV(TInt, <<IntV(1), IntV(2)>>))),
  Case("import-with-for", <<Set("m", ImportE("m11.sl", <<Set("acc", MutE(WInt, I(0))), For("e", IterE(ArrE(<<H(1), H(2)>>)), Block(<<Asg("+=", V("acc"), V("e"))>>)),
                                                          Set("total", Deref(V("acc")))>>)), Field(V("m"), "total")>>, IntV(3)),
  Case("import-with-for-fields", <<Set("m", ImportE("m12.sl", <<Set("k", H(1)), For("e", IterE(ArrE(<<H(1), H(2)>>)), Block(<<Set("z", V("e"))>>))>>)), V("m")>>,
       SV("k" :> IntV(1)))
}

\* int / bool / struct values cannot share one TLC set: keep the suites in separate sequences
CaseSeq == SetToSeq(ShadowCases) \o SetToSeq(OtherTypeCases) \o SetToSeq(BareLoopCases) \o SetToSeq(SoloCases) \o SetToSeq(LateCases) \o SetToSeq(RedeclCases) \o SetToSeq(CapturedCases) \o SetToSeq(CaptureCases) \o SetToSeq(DeepCases) \o SetToSeq(RecCases) \o SetToSeq(NoisyCases) \o <<HelperCase>> \o SetToSeq(HelperOperandCases) \o SetToSeq(ModCases)
N == Len(CaseSeq)
Fuel == 3000
Out(i) == Outcome(Run(CaseSeq[i].prog, Fuel))

RECURSIVE Strip(_)
Strip(v) == CASE v.k = "array" -> [k |-> "array", es |-> [i \in 1..Len(v.es) |-> Strip(v.es[i])]]
              [] v.k = "tuple" -> [v EXCEPT !.es = [i \in 1..Len(v.es) |-> Strip(v.es[i])]]
              [] v.k = "struct" -> [v EXCEPT !.fs = [f \in DOMAIN v.fs |-> Strip(v.fs[f])]]
              [] OTHER -> v
ScopeDiscipline == row > 0 =>
  LET o == Out(row) IN
  \/ (o.status = "value" /\ Strip(o.v) = Strip(CaseSeq[row].want))
  \/ (PrintT(<<"SCOPE", CaseSeq[row].name, o, CaseSeq[row].want>>) /\ FALSE)

Init == row = 0
Next == \/ row = 0 /\ row' \in {-c : c \in 1..Chunks}
        \/ row < 0 /\ row' \in {i \in 1..N : i % Chunks = (-row) % Chunks}
Spec == Init /\ [][Next]_row

Emit ==
  /\ TLCGet("stats").distinct > 0
  /\ ndJsonSerialize(IOEnv.VERIF_OUT \o "/c06_cases.ndjson",
        [i \in 1..N |-> [id |-> CaseSeq[i].name, suite |-> "c06", prog |-> CaseSeq[i].prog, exp |-> Out(i)]])
  /\ PrintT(<<"CASES", N>>)
=============================================================================
