---------------------------- MODULE Trace_Arith ----------------------------
(***************************************************************************)
(* Trace validation for C08 (impl -> spec).  The harness executed a stream   *)
(* of operations on the real code, each one in every execution form          *)
(* (literal / run time / compound assignment ...), and recorded              *)
(*   [t |-> "int2"|"int1"|"float2"|"float1", op, a, b (limbs),               *)
(*    rs |-> <<[f |-> form, r |-> result]>>, cells |-> <<[f, r]>>]           *)
(* This specification consumes the records one by one.  For integers it      *)
(* recomputes the result on limbs (Int64 at N=8, B=8).  For floats it        *)
(* recomputes what can be expressed (comparisons, unary minus) and for       *)
(* + - * / ** it states that the operator is a FUNCTION: the forms agree     *)
(* bit for bit with each other and with every earlier evaluation of the      *)
(* same (op, a, b) -- `memo' -- and the result is a float, never an error.   *)
(* A record the specification does not agree with is reported               *)
(* (<<"MISMATCH", json>>) and counted in `bad'; the trace is accepted when   *)
(* every record was consumed and bad = 0.                                    *)
(***************************************************************************)
EXTENDS Int64, Json, IOUtils

ASSUME NB = 64 /\ B = 8

Rec == ndJsonDeserialize(IOEnv.VERIF_IN)

VARIABLES l, memo, bad
vars == <<l, memo, bad>>
View == l                       \* memo and bad are history variables

Cur == Rec[l]
IsEvent(t) == l <= Len(Rec) /\ Cur.t = t

AllResults(e, exp) == \A i \in 1..Len(e.rs) : e.rs[i].r = exp
AllCells(e, exp)   == \A i \in 1..Len(e.cells) : e.cells[i].r = exp

Judge(ok, exp) ==
  /\ IF ok THEN bad' = bad
     ELSE /\ PrintT(<<"MISMATCH", ToJson([i |-> l, expected |-> exp])>>)
          /\ bad' = bad + 1
  /\ l' = l + 1
  /\ (l = Len(Rec)) => PrintT(<<"TRACE_DONE", ToJson([n |-> Len(Rec), bad |-> bad'])>>)

IntBinary ==
  /\ IsEvent("int2") /\ Cur.op \in IntBinOps
  /\ LET e == Cur
         x == AssignInt(e.op, e.a, e.b)       \* .r = ApplyInt(op, a, b)
     IN Judge(AllResults(e, x.r) /\ AllCells(e, x.cell), x)
  /\ UNCHANGED memo

IntUnary ==
  /\ IsEvent("int1") /\ Cur.op \in IntUnOps
  /\ LET exp == ApplyIntUn(Cur.op, Cur.a) IN Judge(AllResults(Cur, exp), exp)
  /\ UNCHANGED memo

FloatCompare ==
  /\ IsEvent("float2") /\ Cur.op \in FloatCmpOps
  /\ LET exp == ApplyFloatCmp(Cur.op, Cur.a, Cur.b) IN Judge(AllResults(Cur, exp), exp)
  /\ UNCHANGED memo

FloatUnary ==
  /\ IsEvent("float1") /\ Cur.op = "neg"
  /\ LET exp == ApplyFloatUn(Cur.op, Cur.a) IN Judge(AllResults(Cur, exp), exp)
  /\ UNCHANGED memo

FloatArith ==
  /\ IsEvent("float2") /\ Cur.op \in FloatArithOps
  /\ LET e == Cur
         key == <<e.op, e.a, e.b>>
         known == key \in DOMAIN memo
         exp == IF known THEN memo[key] ELSE e.rs[1].r
     IN /\ Judge(/\ Len(e.rs) >= 1 /\ exp.k = "float" /\ IsWord(exp.l)
                 /\ AllResults(e, exp) /\ AllCells(e, exp), exp)
        /\ memo' = IF known THEN memo ELSE (key :> exp) @@ memo

\* `xs~ $+' / `xs~ $*' over floats is the documented left fold from 0.0 / 1.0, every step rounded on its own: the steps
\* were recorded before (float2 records of the implementation's own operator, now in `memo'); every execution form of
\* the reduction must give the end of that chain, bit for bit (C11)
ZeroF == <<0, 0, 0, 0, 0, 0, 0, 0>>
OneF == <<0, 0, 0, 0, 0, 0, 240, 63>>
FloatFold ==
  /\ IsEvent("ffold") /\ Cur.op \in {"+", "*"}
  /\ LET e == Cur
         RECURSIVE Chain(_, _)
         Chain(acc, i) == IF i > Len(e.xs) THEN [k |-> "float", l |-> acc]
                          ELSE LET key == <<e.op, acc, e.xs[i]>> IN
                               IF key \in DOMAIN memo /\ memo[key].k = "float" THEN Chain(memo[key].l, i + 1)
                               ELSE [k |-> "no-recorded-step", at |-> i]
         exp == Chain(IF e.op = "+" THEN ZeroF ELSE OneF, 1)
     IN Judge(Len(e.rs) >= 1 /\ exp.k = "float" /\ AllResults(e, exp), exp)
  /\ UNCHANGED memo

\* `x1 op1 x2 op2 ... xn' with operators of one precedence level groups left to right, however long it is (C14): every
\* form of the unparenthesised chain gives the end of the left-to-right chain of recorded steps
FloatChain ==
  /\ IsEvent("fchain")
  /\ LET e == Cur
         RECURSIVE Chain(_, _)
         Chain(acc, i) == IF i > Len(e.ops) THEN [k |-> "float", l |-> acc]
                          ELSE LET key == <<e.ops[i], acc, e.xs[i + 1]>> IN
                               IF key \in DOMAIN memo /\ memo[key].k = "float" THEN Chain(memo[key].l, i + 1)
                               ELSE [k |-> "no-recorded-step", at |-> i]
         exp == Chain(e.xs[1], 1)
     IN Judge(Len(e.rs) >= 1 /\ Len(e.xs) = Len(e.ops) + 1 /\ exp.k = "float" /\ AllResults(e, exp), exp)
  /\ UNCHANGED memo

Init == l = 1 /\ memo = <<>> /\ bad = 0
Next == IntBinary \/ IntUnary \/ FloatCompare \/ FloatUnary \/ FloatArith \/ FloatFold \/ FloatChain
TraceSpec == Init /\ [][Next]_vars

\* every record was consumed (a record of an unknown shape stops the trace)
TraceAccepted ==
  LET d == TLCGet("stats").diameter IN
  IF d - 1 = Len(Rec) THEN TRUE
  ELSE PrintT(<<"TRACE_STUCK", ToJson([at |-> d, n |-> Len(Rec)])>>) /\ FALSE
=============================================================================
