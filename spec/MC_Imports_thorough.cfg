SPECIFICATION Spec
CONSTANTS
  MaxLen = 5
INVARIANTS
  ParseIsAFunctionOfTheFiles
  EmitBehaviours
CHECK_DEADLOCK FALSE
