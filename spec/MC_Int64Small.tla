--------------------------- MODULE MC_Int64Small ---------------------------
(***************************************************************************)
(* Validation of the limb algorithms of Int64 at small widths (N=2,B=2:     *)
(* 4-bit ints; also N=3,B=2 and N=2,B=4 in the thorough tier): every limb    *)
(* operator is compared with its MATHEMATICAL definition on TLC's native     *)
(* integers, for ALL operand pairs, all shift amounts, all exponents.        *)
(*                                                                           *)
(* State machine: row = 0 start, row = -c chunk, row = i > 0 "word number i  *)
(* has been combined with every word"; the laws are invariants of the rows.  *)
(***************************************************************************)
EXTENDS Int64, FiniteSets

CONSTANTS Chunks

VARIABLE row

Mod2NB == 2^NB
HalfRange == 2^(NB - 1)
IntRange == (0 - HalfRange)..(HalfRange - 1)

\* --- the bridge between words and native integers
RECURSIVE UVal(_, _)
UVal(a, i) == IF i = 0 THEN 0 ELSE UVal(a, i - 1) + a[i] * (Base^(i - 1))
ToInt(a) == LET u == UVal(a, N) IN IF u >= HalfRange THEN u - Mod2NB ELSE u
Wrap(x)  == ((x + HalfRange) % Mod2NB) - HalfRange
OfInt(x) == FromNat(x % Mod2NB)

AllWords == {OfInt(x) : x \in IntRange}
WordSeq == [i \in 1..Mod2NB |-> OfInt(i - 1 - HalfRange)]

\* --- mathematical definitions on native integers
AbsI(x) == IF x < 0 THEN 0 - x ELSE x
MBit(x, j) == ((x % Mod2NB) \div (2^j)) % 2
BitF(f, p, q) == CASE f = "and" -> p * q
                  [] f = "or"  -> IF p + q > 0 THEN 1 ELSE 0
                  [] f = "xor" -> IF p # q THEN 1 ELSE 0
RECURSIVE MBitwise(_, _, _, _)
MBitwise(f, x, y, j) ==
  IF j = NB THEN 0 ELSE BitF(f, MBit(x, j), MBit(y, j)) * (2^j) + MBitwise(f, x, y, j + 1)
MAnd(x, y) == Wrap(MBitwise("and", x, y, 0))
MOr(x, y)  == Wrap(MBitwise("or", x, y, 0))
MXor(x, y) == Wrap(MBitwise("xor", x, y, 0))
MNot(x)    == 0 - x - 1
\* floor(x / 2^s) without dividing a negative number
MFloorDiv(x, d) == IF x >= 0 THEN x \div d ELSE 0 - (((0 - x) + d - 1) \div d)
MTruncQuot(x, y) == LET q == AbsI(x) \div AbsI(y) IN IF (x < 0) # (y < 0) THEN 0 - q ELSE q
MDiv(x, y) == Wrap(MTruncQuot(x, y))
MMod(x, y) == x - y * MTruncQuot(x, y)
RECURSIVE MPow(_, _)
MPow(x, e) == IF e = 0 THEN 1 ELSE Wrap(x * MPow(x, e - 1))

\* --- the laws: limb operator = mathematical definition
BinaryAgree(a) ==
  LET x == ToInt(a) IN
  \A b \in AllWords :
    LET y == ToInt(b) IN
    /\ IsWord(Add(a, b)) /\ ToInt(Add(a, b)) = Wrap(x + y)
    /\ IsWord(Sub(a, b)) /\ ToInt(Sub(a, b)) = Wrap(x - y)
    /\ IsWord(Mul(a, b)) /\ ToInt(Mul(a, b)) = Wrap(x * y)
    /\ IsWord(And(a, b)) /\ ToInt(And(a, b)) = MAnd(x, y)
    /\ IsWord(Or(a, b))  /\ ToInt(Or(a, b))  = MOr(x, y)
    /\ IsWord(Xor(a, b)) /\ ToInt(Xor(a, b)) = MXor(x, y)
    /\ Lt(a, b) = (x < y) /\ Le(a, b) = (x <= y) /\ Gt(a, b) = (x > y) /\ Ge(a, b) = (x >= y)
    /\ Eq(a, b) = (x = y) /\ Ne(a, b) = (x # y)
    /\ ULt(a, b) = ((x % Mod2NB) < (y % Mod2NB))

UnaryAgree(a) ==
  LET x == ToInt(a) IN
  /\ IsWord(a) /\ OfInt(x) = a
  /\ ToInt(Neg(a)) = Wrap(0 - x)
  /\ ToInt(Not(a)) = MNot(x)
  /\ IsNeg(a) = (x < 0)
  /\ UVal(Mag(a), N) = AbsI(x)
  /\ FromBits([j \in 0..(NB - 1) |-> BitOf(a, j)]) = a
  /\ \A j \in 0..(NB - 1) : BitOf(a, j) = MBit(x, j)

DivAgree(a) ==
  LET x == ToInt(a) IN
  \A b \in AllWords :
    LET y == ToInt(b) IN
    IF y = 0 THEN ApplyInt("/", a, b) = ErrV("ZeroDivision") /\ ApplyInt("%", a, b) = ErrV("ZeroModulo")
    ELSE /\ ToInt(Div(a, b)) = MDiv(x, y)
         /\ ToInt(Mod(a, b)) = MMod(x, y)
         /\ DivModOk(a, b, Div(a, b), Mod(a, b))
         \* ... and the relation has no other solution
         /\ Mod2NB <= 32 =>      \* (quartic in the number of words: only at the smallest widths)
               \A q \in AllWords : \A r \in AllWords :
                  DivModOk(a, b, q, r) => (q = Div(a, b) /\ r = Mod(a, b))

ShiftAgree(a) ==
  LET x == ToInt(a) IN
  \A b \in AllWords :
    LET s == ToInt(b) IN
    IF s \in 0..(NB - 1)
    THEN /\ ShiftOk(b) /\ SmallVal(b) = s
         /\ ApplyInt("<<", a, b) = IntV(OfInt(Wrap(x * (2^s))))
         /\ ApplyInt(">>", a, b) = IntV(OfInt(MFloorDiv(x, 2^s)))
    ELSE /\ ~ShiftOk(b)
         /\ ApplyInt("<<", a, b) = ErrV("OverflowShift")
         /\ ApplyInt(">>", a, b) = ErrV("OverflowShift")

PowAgree(a) ==
  LET x == ToInt(a) IN
  \A b \in AllWords :
    LET e == ToInt(b) IN
    IF e < 0 THEN ApplyInt("**", a, b) = ErrV("NegativeExponent")
    ELSE ApplyInt("**", a, b) = IntV(OfInt(MPow(x, e)))

\* the table: errors exactly when documented, results of the right kind
TableAgree(a) ==
  \A b \in AllWords : \A op \in IntBinOps :
    LET r == ApplyInt(op, a, b)
        e == ErrorOf(op, a, b) IN
    /\ IF e = "none" THEN ~IsErr(r) ELSE r = ErrV(e)
    /\ ~IsErr(r) => (r.k = (IF op \in CmpOps THEN "bool" ELSE "int"))
    /\ r.k = "int" => IsWord(r.l)
    /\ op \in ArithOps => LET c == AssignInt(op, a, b) IN
                            c.r = r /\ c.cell = (IF IsErr(r) THEN IntV(a) ELSE r)

BoolTables ==
  /\ \A p \in BOOLEAN : \A q \in BOOLEAN :
       /\ ApplyBool("&", p, q).v = (IF p THEN q ELSE FALSE)
       /\ ApplyBool("|", p, q).v = (IF p THEN TRUE ELSE q)
       /\ ApplyBool("^", p, q).v = (IF p THEN ~q ELSE q)
       /\ ApplyBool("==", p, q).v = (p = q)
       /\ ApplyBool("!=", p, q).v = (p # q)
  /\ ApplyBoolUn("not", TRUE).v = FALSE /\ ApplyBoolUn("not", FALSE).v = TRUE

Cur == WordSeq[row]

InvUnary  == row > 0 => UnaryAgree(Cur)
InvBinary == row > 0 => BinaryAgree(Cur)
InvDiv    == row > 0 => DivAgree(Cur)
InvShift  == row > 0 => ShiftAgree(Cur)
InvPow    == row > 0 => PowAgree(Cur)
InvTable  == row > 0 => TableAgree(Cur)
InvBool   == row = 0 => BoolTables /\ Cardinality(AllWords) = Mod2NB
InvConst  == row = 0 => /\ ToInt(Zero) = 0 /\ ToInt(One) = 1 /\ ToInt(MinusOne) = 0 - 1
                        /\ ToInt(MinV) = 0 - HalfRange /\ ToInt(MaxV) = HalfRange - 1

Init == row = 0
Next == \/ row = 0 /\ row' \in {0 - c : c \in 1..Chunks}
        \/ row < 0 /\ row' \in {i \in 1..Mod2NB : i % Chunks = (0 - row) % Chunks}
Spec == Init /\ [][Next]_row

Done == TLCGet("stats").distinct > 0 /\ PrintT(<<"SMALL", N, B, Mod2NB>>)
=============================================================================
