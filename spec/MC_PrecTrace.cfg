SPECIFICATION Spec
CONSTANTS
  Chunks = 8
INVARIANTS
  InvRecordWellFormed
  InvFormulationsAgree
POSTCONDITION Emit
CHECK_DEADLOCK FALSE
