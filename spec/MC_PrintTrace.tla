--------------------------- MODULE MC_PrintTrace ---------------------------
(***************************************************************************)
(* impl -> spec for C15: the harness builds seeded random types beyond the  *)
(* enumerated bound (vh print gentypes), prints each from several           *)
(* independently built instances and records                                 *)
(*    {"t": <wire type>, "toks": [tokens of the printed text], ...}          *)
(* This module validates every record against Print.tla: the token sequence *)
(* must be a member of PrintSet(T) (InPrintSet: it is the print of its own  *)
(* parse tree and that tree is an ordering of T), must parse to T, and T    *)
(* itself must satisfy the laws (when it has at most 24 orderings).  Rows are fanned out as in MC_Types; a     *)
(* rejected record is reported with PrintT(<<"REJECT", index>>) and does    *)
(* not stop the run, the POSTCONDITION checks that every record was seen.   *)
(***************************************************************************)
EXTENDS Print, Json, IOUtils

CONSTANTS Chunks
VARIABLE row

Rec == ndJsonDeserialize(IOEnv.VERIF_IN)
RN == Len(Rec)

RECURSIVE FromWire(_)
FromWire(w) ==
  CASE w.k \in {"array", "mut"} -> [k |-> w.k, e |-> FromWire(w.e)]
    [] w.k = "tuple" -> Tup([i \in 1..Len(w.es) |-> FromWire(w.es[i])])
    [] w.k = "fn" -> Fn([i \in 1..Len(w.ps) |-> FromWire(w.ps[i])], FromWire(w.r))
    [] w.k = "struct" ->
         Struct([n \in {w.fs[i][1] : i \in 1..Len(w.fs)} |->
                   FromWire(w.fs[CHOOSE i \in 1..Len(w.fs) : w.fs[i][1] = n][2])])
    [] w.k = "multi" -> Multi({FromWire(w.ms[i]) : i \in 1..Len(w.ms)})
    [] OTHER -> [k |-> w.k]

Accept(i) ==
  LET T == FromWire(Rec[i].t)
      toks == Rec[i].toks
      p == ParseType(toks)
  IN /\ InPrintSet(toks, T)
     /\ ~IsNone(p) /\ p.t = T /\ p.rest = Len(toks) + 1
     /\ (OrderingCount(T) <= 24 => RoundTrip(T) /\ ParensNeeded(T))

TraceInv == row > 0 => (Accept(row) \/ PrintT(<<"REJECT", row>>))

Init == row = 0
Next == \/ row = 0 /\ row' \in {-c : c \in 1..Chunks}
        \/ row < 0 /\ row' \in {i \in 1..RN : i % Chunks = (-row) % Chunks}
Spec == Init /\ [][Next]_row

AllSeen == /\ TLCGet("stats").distinct = RN + 1 + (IF RN >= Chunks THEN Chunks ELSE RN)
           /\ PrintT(<<"TRACE_RECORDS", RN>>)
=============================================================================
