SPECIFICATION Spec
CONSTANTS
  N = 4
  B = 1
  Chunks = 4
INVARIANTS
  InvConst
  InvBool
  InvUnary
  InvBinary
  InvDiv
  InvShift
  InvPow
  InvTable
POSTCONDITION Done
CHECK_DEADLOCK FALSE
