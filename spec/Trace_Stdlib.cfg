SPECIFICATION Spec
CONSTANTS
  NL = 8
  Chunks = 16
POSTCONDITION Accepted
CHECK_DEADLOCK FALSE
