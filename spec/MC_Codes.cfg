SPECIFICATION Spec
CONSTANTS
  MaxLen = 5
INVARIANTS
  AnswersAreValues
  EmitBehaviours
POSTCONDITION EmitPool
CHECK_DEADLOCK FALSE
