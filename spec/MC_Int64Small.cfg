SPECIFICATION Spec
CONSTANTS
  N = 2
  B = 2
  Chunks = 4
INVARIANTS
  InvConst
  InvBool
  InvUnary
  InvBinary
  InvDiv
  InvShift
  InvPow
  InvTable
POSTCONDITION Done
CHECK_DEADLOCK FALSE
