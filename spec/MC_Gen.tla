------------------------------- MODULE MC_Gen -------------------------------
(***************************************************************************)
(* The specification as executable oracle for programs that were NOT        *)
(* enumerated by TLC: the harness' seeded generator (or any other source)   *)
(* writes ASTs to VERIF_IN; TLC evaluates each with Lang!Run (one state per *)
(* program) and writes the outcome the specification prescribes.  The       *)
(* invariant checked here is about the specification itself: whenever the   *)
(* machine does not go wrong, every cell holds a value of its declared type *)
(* (TypeSound on the model, for the programs at hand).                      *)
(***************************************************************************)
EXTENDS Lang, Json, IOUtils

CONSTANT Chunks
VARIABLE row

Cases == ndJsonDeserialize(IOEnv.VERIF_IN)
N == Len(Cases)
Fuel == 4000
RunOf(i) == Run(Cases[i].prog, Fuel)
Out(i) == Outcome(RunOf(i))

CellTypedUnlessStuck == row > 0 =>
  LET r == RunOf(row) IN
  Cases[row].negative          \* deliberately ill-typed (near-miss) programs are not expected to be sound
     \/ (r.sig = "error" /\ r.v \notin DocErrors) \/ CellsTyped(r.st)
     \/ (PrintT(<<"CELLTYPE", Cases[row].id>>) /\ FALSE)

Init == row = 0
Next == \/ row = 0 /\ row' \in {-c : c \in 1..Chunks}
        \/ row < 0 /\ row' \in {i \in 1..N : i % Chunks = (-row) % Chunks}
Spec == Init /\ [][Next]_row

Emit ==
  /\ TLCGet("stats").distinct > 0
  /\ ndJsonSerialize(IOEnv.VERIF_OUT \o "/gen_cases.ndjson",
        [i \in 1..N |-> [id |-> Cases[i].id, suite |-> "gen", prog |-> Cases[i].prog, negative |-> Cases[i].negative, exp |-> Out(i)]])
  /\ PrintT(<<"CASES", N>>)
=============================================================================
