------------------------------ MODULE Trace_Fs ------------------------------
(***************************************************************************)
(* impl -> spec for the file system: validates seeded random walks recorded *)
(* by `vh stdlibx fswalk' (call sequences LONGER than the bound MC_Fs       *)
(* enumerates, over more paths: p q d, each optionally followed by /x and   *)
(* /x/x).  One ndjson line per event:                                       *)
(*   {"ev":"init", "run", "tree":[entry..]}          a fresh tree            *)
(*   {"ev":"call", "run", "f", "p":[names], "q":[names], "c", "ret", "tree"} *)
(* entry = {"pa":[names], "k":"file"|"dir", "c":content, "ro":bool}; ret is  *)
(* what the real call returned: "void", the file content, or "err".         *)
(* The trace specification takes Fs!Step with the logged call and requires  *)
(* the logged result and the logged tree to be the specification's.  On a   *)
(* disagreement it prints the event and resynchronises on the logged tree,  *)
(* so every disagreement of a run is reported.                              *)
(***************************************************************************)
EXTENDS Fs, Json, IOUtils

VARIABLES l, st
vars == <<l, st>>

Rec == ndJsonDeserialize(IOEnv.VERIF_IN)
N == Len(Rec)

\* nested node from the flat listing (parents precede children)
RECURSIVE ChildrenOf(_, _)
ChildrenOf(flat, prefix) ==
  LET direct == {i \in 1..Len(flat) : Len(flat[i].pa) = Len(prefix) + 1 /\ SubSeq(flat[i].pa, 1, Len(prefix)) = prefix}
  IN [x \in {flat[i].pa[Len(prefix) + 1] : i \in direct} |->
        LET i == CHOOSE j \in direct : flat[j].pa[Len(prefix) + 1] = x IN
        IF flat[i].k = "file" THEN FileN(flat[i].c)
        ELSE DirN(flat[i].ro, ChildrenOf(flat, flat[i].pa))]
FromFlat(flat) == DirN(FALSE, ChildrenOf(flat, <<>>))

RECURSIVE FlattenA(_, _)      \* as Fs!Flatten, with paths as name sequences
FlattenA(n, prefix) ==
  LET RECURSIVE Go(_)
      Go(i) == IF i > Len(NameOrder) THEN <<>>
               ELSE LET x == NameOrder[i] IN
                    IF x \notin DOMAIN n.ch THEN Go(i + 1)
                    ELSE LET c == n.ch[x]
                             path == Append(prefix, x)
                         IN IF c.k = "file" THEN <<[pa |-> path, k |-> "file", c |-> c.c, ro |-> FALSE]>> \o Go(i + 1)
                            ELSE <<[pa |-> path, k |-> "dir", c |-> "", ro |-> c.ro]>> \o FlattenA(c, path) \o Go(i + 1)
  IN Go(1)

Canon(tree) == [i \in 1..Len(tree) |-> [pa |-> tree[i].pa, k |-> tree[i].k, c |-> tree[i].c, ro |-> tree[i].ro]]

Init == l = 0 /\ st = EmptyDir
Next ==
  /\ l < N
  /\ l' = l + 1
  /\ LET e == Rec[l + 1] IN
     IF e.ev = "init" THEN st' = FromFlat(e.tree)
     ELSE LET call == [f |-> e.f, p |-> e.p, q |-> e.q, c |-> e.c]
              r == Step(st, call)
              agrees == r.ret = e.ret /\ FlattenA(r.st, <<>>) = Canon(e.tree)
          IN \* (the report comes after both primed variables are determined: TLC then evaluates it as a
             \*  plain predicate instead of exploring both disjuncts)
             /\ st' = IF agrees THEN r.st ELSE FromFlat(e.tree)
             /\ IF agrees THEN TRUE
                ELSE PrintT(<<"BAD", ToJson([i |-> l + 1, expected_ret |-> r.ret, expected_ok |-> r.ok,
                                              expected_tree |-> FlattenA(r.st, <<>>)])>>)
Spec == Init /\ [][Next]_vars

\* the specification's own trees stay well formed along the recorded runs
InvWellFormed == WellFormedNode(st, 40)

Accepted == /\ TLCGet("stats").diameter = N + 1
            /\ PrintT(<<"TRACE", N>>)
=============================================================================
