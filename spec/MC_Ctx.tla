------------------------------- MODULE MC_Ctx -------------------------------
(***************************************************************************)
(* Context twins.  A program means the same wherever it stands: as the body *)
(* of a function value (made once, called twice), of a declared function,   *)
(* of a function made by a function, of a module member, of a loop / while  *)
(* / for body, of a branch of if / if-set / match (type arm, value arm), as  *)
(* a callback of @ or $ init f, or simply as a block.  The implementation    *)
(* takes a different route for each of these (a fresh layer, a fresh root    *)
(* interpreter, specialisation of the body against the values captured when  *)
(* the function value is made, pruning of branches whose condition folds),   *)
(* so every case of every Lang suite is placed in each context.              *)
(*                                                                          *)
(* Input (VERIF_IN): the cases a suite emitted.  For every case and every    *)
(* context kind selected for it, TLC evaluates the wrapped program with      *)
(* Lang!Run - the specification's own outcome for the wrapped AST is the     *)
(* prediction that is replayed - and checks, as a law of the specification,  *)
(* that the wrapped program's outcome is the one the context-free reading    *)
(* gives (CtxLaw): same status, same value, same log for the contexts that   *)
(* run the program once; value unchanged and log repeated for those that run *)
(* it twice; an array / fold of the value for the iterator callbacks.        *)
(***************************************************************************)
EXTENDS LangAst, Json, IOUtils

CONSTANTS Chunks, PerCase
VARIABLE row

Cases == ndJsonDeserialize(IOEnv.VERIF_IN)
N == Len(Cases)
Fuel == 8000

Has(c, f) == f \in DOMAIN c
Flag(c, f) == Has(c, f) /\ c[f] = TRUE
Eligible(c) == /\ ~Flag(c, "negative")
               /\ ~(Has(c, "group") /\ c.group # "")
               /\ ~Flag(c, "noctx")
               /\ c.exp.status \in {"value", "error"}

Kinds == <<"fn2", "decl", "clo2", "mod", "block", "loop1", "while2", "for2", "ifthen", "ifelse",
           "ifset", "ifsetelse", "matchty", "matchval", "map2", "reduce1">>
NK == Len(Kinds)
Once == {"decl", "clo2", "mod", "block", "loop1", "ifthen", "ifelse", "ifset", "ifsetelse", "matchty", "matchval", "reduce1"}
Twice == {"fn2", "while2", "for2"}

IntOrStr == WMulti(<<WInt, WStr>>)
IntOrVoid == WMulti(<<WInt, WVoid>>)

Wrap(kind, prog) ==
  \* a block is a statement form: it can be bound (t__ := { .. }), returned or be a branch, not an operand
  LET Blk == Block(prog) IN
  CASE kind = "fn2" ->      \* a function value made once and called twice
         <<Set("w__", FnE(<<>>, WAny, <<Ret(Blk)>>)), CallE(V("w__"), <<>>), CallE(V("w__"), <<>>)>>
    [] kind = "decl" ->     \* a declared function with a parameter
         <<FnDecl("w__", <<P("x__", WInt)>>, WAny, <<Ret(Blk)>>), CallE(V("w__"), <<Hide(WInt, I(1))>>)>>
    [] kind = "clo2" ->     \* a function made by a function: the body is specialised twice
         <<Set("mk__", FnE(<<>>, WFn(<<>>, WAny), <<Ret(FnE(<<>>, WAny, <<Ret(Blk)>>))>>)),
           CallE(CallE(V("mk__"), <<>>), <<>>)>>
    [] kind = "mod" ->      \* a function that is a member of a module
         <<Set("m__", ModE(<<FnDecl("run", <<>>, WAny, <<Ret(Blk)>>)>>)), CallE(Field(V("m__"), "run"), <<>>)>>
    [] kind = "block" -> <<Blk>>
    [] kind = "loop1" ->
         <<Set("r__", MutE(WAny, Unit)), Loop(Block(<<Set("t__", Blk), Asg("=", V("r__"), V("t__")), Break>>)), Deref(V("r__"))>>
    [] kind = "while2" ->
         <<Set("n__", MutE(WInt, I(0))), Set("r__", MutE(WAny, Unit)),
           While(Bin("<", Deref(V("n__")), I(2)), Block(<<Asg("+=", V("n__"), I(1)), Set("t__", Blk), Asg("=", V("r__"), V("t__"))>>)),
           Deref(V("r__"))>>
    [] kind = "for2" ->
         <<Set("r__", MutE(WAny, Unit)),
           For("i__", IterE(ArrE(<<I(0), I(1)>>)), Block(<<Set("t__", Blk), Asg("=", V("r__"), V("t__"))>>)), Deref(V("r__"))>>
    [] kind = "ifthen" -> <<If(Hide(WBool, B(TRUE)), Blk, Unit)>>
    [] kind = "ifelse" -> <<If(Hide(WBool, B(FALSE)), Unit, Blk)>>
    [] kind = "ifset" -> <<IfSet("x__", WInt, Hide(IntOrVoid, I(1)), Blk, Unit)>>
    [] kind = "ifsetelse" -> <<IfSet("x__", WStr, Hide(IntOrStr, I(1)), Unit, Blk)>>
    [] kind = "matchty" -> <<Match(Hide(IntOrStr, I(1)), <<ArmTy("x__", WStr, Unit), ArmTy("x__", WInt, Blk)>>)>>
    [] kind = "matchval" -> <<Match(Hide(WInt, I(1)), <<ArmVal(<<I(0)>>, Unit), ArmVal(<<I(2), I(1)>>, Blk), ArmOther(Unit)>>)>>
    [] kind = "map2" ->     \* callback of @, run by the library's map closure, collected
         <<CollectE(MapE(IterE(ArrE(<<I(0), I(1)>>)), FnE(<<P("i__", WInt)>>, WAny, <<Ret(Blk)>>)))>>
    [] kind = "reduce1" ->  \* callback of $ init f
         <<ReduceE(IterE(ArrE(<<I(0)>>)), Unit, FnE(<<P("a__", WAny), P("i__", WInt)>>, WAny, <<Ret(Blk)>>))>>

\* the kinds selected for case i: PerCase consecutive kinds starting at a position that rotates with i
KindsOf(i) == {Kinds[((i + j) % NK) + 1] : j \in 0..(PerCase - 1)}

Out(i, kind) == Outcome(Run(Wrap(kind, Cases[i].prog), Fuel))
Plain(i) == Outcome(Run(Cases[i].prog, Fuel))

\* values up to the identities of cells and function values (allocation order differs between contexts)
RECURSIVE Strip(_)
Strip(v) ==
  CASE v.k \in {"array", "tuple"} -> [v EXCEPT !.es = [i \in 1..Len(v.es) |-> Strip(v.es[i])]]
    [] v.k = "struct" -> [v EXCEPT !.fs = [f \in DOMAIN v.fs |-> Strip(v.fs[f])]]
    [] v.k = "cell" -> [k |-> "cell", ty |-> v.ty, c |-> Strip(v.c)]
    [] v.k = "fnv" -> [k |-> "fnv", sig |-> v.sig]
    [] OTHER -> v

\* the law, for one case and one kind; o = plain outcome, w = wrapped outcome
LawFor(kind, o, w) ==
  IF o.status = "error" THEN w.status = "error" /\ w.v = o.v /\ w.log = o.log     \* the first evaluation ends the run
  ELSE IF kind \in Once THEN w.status = "value" /\ Strip(w.v) = Strip(o.v) /\ w.log = o.log
  ELSE IF kind \in Twice THEN w.status = "value" /\ Strip(w.v) = Strip(o.v) /\ w.log = o.log \o o.log
  ELSE \* map2: the two results collected; element tags are not part of the law
       /\ w.status = "value" /\ w.v.k = "array" /\ Len(w.v.es) = 2
       /\ Strip(w.v.es[1]) = Strip(o.v) /\ Strip(w.v.es[2]) = Strip(o.v)
       /\ w.log = o.log \o o.log

\* programs whose meaning legitimately depends on where they stand are exempt from the law (the prediction replayed
\* is still the specification's evaluation of the wrapped program): an inconclusive run (fuel, values outside the exact
\* range: running twice doubles what is consumed), and a program that reads what an earlier evaluation left in `log'
Exempt(o, w) == o.status \notin {"value", "error"} \/ w.status = "inconclusive"

CtxLaw == row > 0 => LET c == Cases[row] IN
  ~Eligible(c) \/ \A kind \in KindsOf(row) :
     LET o == Plain(row)  w == Out(row, kind) IN
     Exempt(o, w) \/ LawFor(kind, o, w) \/ Flag(c, "ctxdep")
        \/ (PrintT(<<"CTXLAW", c.id, kind, w.status>>) /\ FALSE)

Init == row = 0
Next == \/ row = 0 /\ row' \in {-c : c \in 1..Chunks}
        \/ row < 0 /\ row' \in {i \in 1..N : i % Chunks = (-row) % Chunks}
Spec == Init /\ [][Next]_row

OptF(c, f, d) == IF Has(c, f) THEN c[f] ELSE d
Rows == {<<i, kind>> : i \in {j \in 1..N : Eligible(Cases[j])}, kind \in ToSet(Kinds)}
Selected == {p \in Rows : p[2] \in KindsOf(p[1])}
Emit ==
  /\ TLCGet("stats").distinct > 0
  /\ LET sel == SetToSeq(Selected)
         recs == [n \in 1..Len(sel) |->
                    LET i == sel[n][1]  kind == sel[n][2]  c == Cases[i] IN
                    [id |-> c.id \o "@" \o kind, suite |-> c.suite, ctx |-> kind, prog |-> Wrap(kind, c.prog),
                     exp |-> Out(i, kind), allow_parse |-> OptF(c, "allow_parse", <<>>),
                     allow_exec |-> OptF(c, "allow_exec", <<>>), notwin |-> Flag(c, "notwin"),
                     norepl |-> Flag(c, "norepl"), std |-> Flag(c, "std")]]
         keep == SelectSeq(recs, LAMBDA r : r.exp.status \in {"value", "error", "inconclusive"})
     IN /\ ndJsonSerialize(IOEnv.VERIF_OUT \o "/ctx_cases.ndjson", keep)
        /\ PrintT(<<"CASES", Len(keep)>>)
        /\ PrintT(<<"DROPPED-STUCK", Len(recs) - Len(keep)>>)
=============================================================================
