-------------------------------- MODULE Lang --------------------------------
(***************************************************************************)
(* The abstract machine of SimpleSL: a definitional semantics Ev(e, env,    *)
(* st) with one case per instruction kind, in the same recursive shape as   *)
(* `impl Exec'.  Programs are ASTs of tagged records (wire format: DESIGN   *)
(* appendix A).                                                             *)
(*                                                                           *)
(*   env : sequence of bindings [n |-> name, v |-> value]; lookup takes the  *)
(*         LAST binding of a name; a scope is a suffix that is cut off when  *)
(*         the construct that opened it ends.                               *)
(*   st  : [cells |-> <<[ty, val, int]>>, fns |-> <<closure>>, fuel |-> n]   *)
(*         cell / function identity = index (allocation order).             *)
(*   result of Ev: [sig, v, st];  sig \in ok | break | continue | return |   *)
(*         error;  for error v is the kind: one of the six documented       *)
(*         run-time errors, or a model verdict "stuck:..." (the program     *)
(*         went wrong), "fuel" / "range" / "unspec" (inconclusive: outside   *)
(*         the modelled domain).                                            *)
(*                                                                           *)
(* Closures capture the creator's environment by value (cells by identity); *)
(* a call runs the body in  captured env \o own name \o parameters.         *)
(* Numbers: ints are TLC integers kept small (guards return "range"),       *)
(* floats are half-integers [k |-> "float", v |-> h] meaning h/2.           *)
(* Strings are sequences of scalar values [k |-> "string", cps |-> <<..>>]. *)
(***************************************************************************)
EXTENDS Types, Bitwise

NoneV == [k |-> "none"]
VoidV == [k |-> "void"]
BoolV(b) == [k |-> "bool", v |-> b]
IntV(n) == [k |-> "int", v |-> n]
FloatV(h) == [k |-> "float", v |-> h]
StrV(cps) == [k |-> "string", cps |-> cps]
ArrV(tag, es) == [k |-> "array", tag |-> tag, es |-> es]
TupV(es) == [k |-> "tuple", es |-> es]
StructV(fs) == [k |-> "struct", fs |-> fs]
CellV(id) == [k |-> "cell", id |-> id]
FnV(id) == [k |-> "fnv", id |-> id]
Unspec == [k |-> "unspec"]        \* the value an exhausted iterator carries: unspecified

DocErrors == {"IndexOutOfBounds", "NegativeLength", "NegativeExponent", "ZeroDivision",
              "ZeroModulo", "OverflowShift"}
Inconclusive == {"fuel", "range", "unspec"}

R(sig, v, st) == [sig |-> sig, v |-> v, st |-> st]
OkR(v, st) == R("ok", v, st)
ErrR(kind, st) == R("error", kind, st)
IsOk(r) == r.sig = "ok"

(***************************************************************************)
(* Tags and equality                                                        *)
(***************************************************************************)
RECURSIVE TagS(_, _)
TagS(v, st) ==
  CASE v.k \in {"bool", "int", "float", "string", "void"} -> Base(v.k)
    [] v.k = "array"  -> Arr(v.tag)
    [] v.k = "tuple"  -> Tup([i \in 1..Len(v.es) |-> TagS(v.es[i], st)])
    [] v.k = "struct" -> Struct([f \in DOMAIN v.fs |-> TagS(v.fs[f], st)])
    [] v.k = "cell"   -> MutT(st.cells[v.id].ty)
    [] v.k = "fnv"    -> st.fns[v.id].sig
    [] OTHER          -> TAny     \* unspec

JoinTags(vs, st) == JoinSeq([i \in 1..Len(vs) |-> TagS(vs[i], st)])

RECURSIVE ValEq(_, _)
ValEq(a, b) ==
  IF a.k # b.k THEN FALSE
  ELSE CASE a.k \in {"bool", "int", "float"} -> a.v = b.v
         [] a.k = "string" -> a.cps = b.cps
         [] a.k = "void"   -> TRUE
         [] a.k \in {"array", "tuple"} ->
              Len(a.es) = Len(b.es) /\ \A i \in 1..Len(a.es) : ValEq(a.es[i], b.es[i])
         [] a.k = "struct" -> DOMAIN a.fs = DOMAIN b.fs /\ \A f \in DOMAIN a.fs : ValEq(a.fs[f], b.fs[f])
         [] a.k \in {"cell", "fnv"} -> a.id = b.id
         [] OTHER -> FALSE

RECURSIVE HasUnspec(_)
HasUnspec(v) ==
  CASE v.k = "unspec" -> TRUE
    [] v.k \in {"array", "tuple"} -> \E i \in 1..Len(v.es) : HasUnspec(v.es[i])
    [] v.k = "struct" -> \E f \in DOMAIN v.fs : HasUnspec(v.fs[f])
    [] OTHER -> FALSE

(***************************************************************************)
(* Scalar and sequence operators (small-number domain; see Int64.tla for    *)
(* the 64-bit definitions of the same operators).                           *)
(***************************************************************************)
ErrV(kind) == [k |-> "err", e |-> kind]
Abs(x) == IF x < 0 THEN -x ELSE x
Lim == 1073741824            \* 2^30
Sm(x) == Abs(x) < 32768
Pow2(n) == 2 ^ n
TruncDiv(a, b) == LET q == Abs(a) \div Abs(b) IN IF (a < 0) = (b < 0) THEN q ELSE -q
TruncRem(a, b) == a - b * TruncDiv(a, b)
RECURSIVE IPow(_, _)
IPow(b, e) == IF e = 0 THEN 1 ELSE b * IPow(b, e - 1)

BitAndI(a, b) == IF a = -1 THEN IntV(b) ELSE IF b = -1 THEN IntV(a)
                 ELSE IF a >= 0 /\ b >= 0 THEN IntV(a & b) ELSE ErrV("range")
BitOrI(a, b) == IF a = -1 \/ b = -1 THEN IntV(-1) ELSE IF a >= 0 /\ b >= 0 THEN IntV(a | b) ELSE ErrV("range")
BitXorI(a, b) == IF a >= 0 /\ b >= 0 THEN IntV(a ^^ b) ELSE ErrV("range")

\* Result: a value, or a string naming the error kind
ApplyBin(op, a, b) ==
  IF a.k = "unspec" \/ b.k = "unspec" THEN ErrV("unspec")
  ELSE IF op = "==" THEN (IF HasUnspec(a) \/ HasUnspec(b) THEN ErrV("unspec") ELSE BoolV(ValEq(a, b)))
  ELSE IF op = "!=" THEN (IF HasUnspec(a) \/ HasUnspec(b) THEN ErrV("unspec") ELSE BoolV(~ValEq(a, b)))
  ELSE IF a.k = "int" /\ b.k = "int" THEN
    LET x == a.v  y == b.v IN
    CASE op = "+"  -> IF Abs(x) < Lim \div 2 /\ Abs(y) < Lim \div 2 THEN IntV(x + y) ELSE ErrV("range")
      [] op = "-"  -> IF Abs(x) < Lim \div 2 /\ Abs(y) < Lim \div 2 THEN IntV(x - y) ELSE ErrV("range")
      [] op = "*"  -> IF Sm(x) /\ Sm(y) THEN IntV(x * y) ELSE ErrV("range")
      [] op = "/"  -> IF y = 0 THEN ErrV("ZeroDivision") ELSE IF Abs(x) < Lim /\ Abs(y) < Lim THEN IntV(TruncDiv(x, y)) ELSE ErrV("range")
      [] op = "%"  -> IF y = 0 THEN ErrV("ZeroModulo") ELSE IF Abs(x) < Lim /\ Abs(y) < Lim THEN IntV(TruncRem(x, y)) ELSE ErrV("range")
      [] op = "**" -> IF y < 0 THEN ErrV("NegativeExponent")
                      ELSE IF Abs(x) <= 1 THEN IntV(IF x = -1 /\ y % 2 = 1 THEN -1 ELSE IF x = 0 /\ y > 0 THEN 0 ELSE 1)
                      ELSE IF Abs(x) <= 15 /\ y <= 7 THEN IntV(IPow(x, y)) ELSE ErrV("range")
      [] op = "<<" -> IF y < 0 \/ y > 63 THEN ErrV("OverflowShift")
                      ELSE IF Sm(x) /\ y <= 14 THEN IntV(x * Pow2(y)) ELSE ErrV("range")
      [] op = ">>" -> IF y < 0 \/ y > 63 THEN ErrV("OverflowShift")
                      ELSE IF Abs(x) < Lim THEN (IF y > 30 THEN IntV(IF x < 0 THEN -1 ELSE 0) ELSE IntV(x \div Pow2(y))) ELSE ErrV("range")
      [] op = "&"  -> BitAndI(x, y)
      [] op = "|"  -> BitOrI(x, y)
      [] op = "^"  -> BitXorI(x, y)
      [] op = "<"  -> BoolV(x < y)
      [] op = "<=" -> BoolV(x <= y)
      [] op = ">"  -> BoolV(x > y)
      [] op = ">=" -> BoolV(x >= y)
      [] OTHER -> ErrV("stuck:operator")
  ELSE IF a.k = "float" /\ b.k = "float" /\ ("v" \notin DOMAIN a \/ "v" \notin DOMAIN b) THEN
    ErrV("range")      \* opaque float atoms [k |-> "float", bits |-> "..."]: outside the exact half-integer domain
  ELSE IF a.k = "float" /\ b.k = "float" THEN
    LET x == a.v  y == b.v IN
    CASE op = "+"  -> IF Abs(x) < Lim \div 2 /\ Abs(y) < Lim \div 2 THEN FloatV(x + y) ELSE ErrV("range")
      [] op = "-"  -> IF Abs(x) < Lim \div 2 /\ Abs(y) < Lim \div 2 THEN FloatV(x - y) ELSE ErrV("range")
      [] op = "<"  -> BoolV(x < y)
      [] op = "<=" -> BoolV(x <= y)
      [] op = ">"  -> BoolV(x > y)
      [] op = ">=" -> BoolV(x >= y)
      [] op \in {"*", "/", "**"} -> ErrV("range")
      [] OTHER -> ErrV("stuck:operator")
  ELSE IF a.k = "bool" /\ b.k = "bool" THEN
    CASE op = "&" -> BoolV(a.v /\ b.v)
      [] op = "|" -> BoolV(a.v \/ b.v)
      [] op = "^" -> BoolV(a.v # b.v)
      [] OTHER -> ErrV("stuck:operator")
  ELSE IF a.k = "string" /\ b.k = "string" /\ op = "+" THEN StrV(a.cps \o b.cps)
  ELSE IF a.k = "array" /\ b.k = "array" /\ op = "+" THEN
    IF Len(a.es) = 0 THEN b ELSE IF Len(b.es) = 0 THEN a
    ELSE ArrV(Join(a.tag, b.tag), a.es \o b.es)
  ELSE ErrV("stuck:operator")

ApplyNeg(a) == IF a.k = "unspec" THEN ErrV("unspec")
               ELSE IF a.k = "int" THEN IntV(-a.v)
               ELSE IF a.k = "float" THEN (IF "v" \in DOMAIN a THEN FloatV(-a.v) ELSE ErrV("range"))
               ELSE ErrV("stuck:operator")
ApplyNot(a) == IF a.k = "unspec" THEN ErrV("unspec")
               ELSE IF a.k = "bool" THEN BoolV(~a.v) ELSE IF a.k = "int" THEN IntV(-a.v - 1) ELSE ErrV("stuck:operator")

\* sequences ----------------------------------------------------------------
ItemsOf(v) == IF v.k = "string" THEN v.cps ELSE v.es

AtSeq(v, i) ==
  LET s == ItemsOf(v)  n == Len(s)  j == IF i >= 0 THEN i ELSE n + i IN
  IF j < 0 \/ j >= n THEN ErrV("IndexOutOfBounds")
  ELSE IF v.k = "string" THEN StrV(<<s[j + 1]>>) ELSE s[j + 1]

\* Python's slice.indices; bounds are values or NoneV; step 0 selects nothing
SliceIdx(n, a, b, c) ==
  LET step == IF c = NoneV THEN 1 ELSE c.v IN
  IF step = 0 THEN <<>>
  ELSE
    LET lo == IF step > 0 THEN 0 ELSE -1
        hi == IF step > 0 THEN n ELSE n - 1
        Clamp(x) == IF x < 0 THEN (IF x + n < lo THEN lo ELSE x + n) ELSE (IF x > hi THEN hi ELSE x)
        start == IF a = NoneV THEN (IF step > 0 THEN lo ELSE hi) ELSE Clamp(a.v)
        stop  == IF b = NoneV THEN (IF step > 0 THEN hi ELSE lo) ELSE Clamp(b.v)
        cnt == IF step > 0 THEN (IF stop > start THEN (stop - start + step - 1) \div step ELSE 0)
               ELSE (IF stop < start THEN (start - stop - step - 1) \div (-step) ELSE 0)
    IN [q \in 1..cnt |-> start + (q - 1) * step]

(***************************************************************************)
(* State helpers                                                            *)
(***************************************************************************)
Lookup(env, name) ==
  LET is == {i \in 1..Len(env) : env[i].n = name} IN
  IF is = {} THEN NoneV ELSE env[Max(is)].v

Bind(env, name, v) == Append(env, [n |-> name, v |-> v])

AllocCell(st, ty, val, internal) ==
  [st EXCEPT !.cells = Append(@, [ty |-> ty, val |-> val, int |-> internal])]
NewCellId(st) == Len(st.cells) + 1
AllocFn(st, clo) == [st EXCEPT !.fns = Append(@, clo)]
NewFnId(st) == Len(st.fns) + 1
Burn(st) == [st EXCEPT !.fuel = @ - 1]

ParamTypes(ps) == [i \in 1..Len(ps) |-> ps[i].ty]
IterSig(t) == Fn(<<>>, Tup(<<TBool, t>>))

\* the join of the element tags of a fresh array (Array::from)
FreshArr(es, st) == ArrV(JoinTags(es, st), es)

(***************************************************************************)
(* Types on the wire carry unions as sequences and structs as pair lists;   *)
(* Unwire turns them into the set/function form of Types.tla.               *)
(***************************************************************************)
RECURSIVE Unwire(_)
Unwire(t) ==
  CASE t.k = "array"  -> Arr(Unwire(t.e))
    [] t.k = "mut"    -> MutT(Unwire(t.e))
    [] t.k = "tuple"  -> Tup([i \in 1..Len(t.es) |-> Unwire(t.es[i])])
    [] t.k = "fn"     -> Fn([i \in 1..Len(t.ps) |-> Unwire(t.ps[i])], Unwire(t.r))
    [] t.k = "struct" -> Struct([f \in {t.fs[i][1] : i \in 1..Len(t.fs)} |->
                                   Unwire(t.fs[CHOOSE i \in 1..Len(t.fs) : t.fs[i][1] = f][2])])
    [] t.k = "multi"  -> JoinSeq([i \in 1..Len(t.ms) |-> Unwire(t.ms[i])])
    [] OTHER -> [k |-> t.k]

(***************************************************************************)
(* The evaluator.                                                           *)
(*   Ev(e, env, st)        expressions and statements that bind nothing      *)
(*   EvStmts(ss, env, st)  statement lists: set / destruct / fndecl extend   *)
(*                         env; result record has an extra field env         *)
(*   EvList(es, env, st)   left-to-right evaluation of a list; v is the      *)
(*                         tuple of values                                   *)
(*   Call(f, args, st)     call of a function value                          *)
(***************************************************************************)
RECURSIVE Ev(_, _, _), EvStmts(_, _, _), EvList(_, _, _), Call(_, _, _), LoopR(_, _, _),
          PullAll(_, _, _), FoldR(_, _, _, _), BoolRed(_, _, _), FilterPull(_, _, _),
          TFilterPull(_, _, _), MatchArms(_, _, _, _, _), MatchVals(_, _, _, _, _)

RS(sig, v, env, st) == [sig |-> sig, v |-> v, env |-> env, st |-> st]

EvList(es, env, st) ==
  IF es = <<>> THEN OkR(<<>>, st)
  ELSE LET h == Ev(Head(es), env, st) IN
       IF ~IsOk(h) THEN h
       ELSE LET t == EvList(Tail(es), env, h.st) IN
            IF ~IsOk(t) THEN t ELSE OkR(<<h.v>> \o t.v, t.st)

\* a value or an error-kind string coming out of an operator
Lift(x, st) == IF x.k = "err" THEN ErrR(x.e, st) ELSE OkR(x, st)

EvStmts(ss, env, st) ==
  IF ss = <<>> THEN RS("ok", VoidV, env, st)
  ELSE
    LET s == Head(ss)
        rest == Tail(ss)
        Continue(v, env2, st2) ==
          IF rest = <<>> THEN RS("ok", v, env2, st2) ELSE EvStmts(rest, env2, st2)
    IN
    CASE s.k = "set" ->
           LET r == Ev(s.e, env, st) IN
           IF ~IsOk(r) THEN RS(r.sig, r.v, env, r.st) ELSE Continue(r.v, Bind(env, s.n, r.v), r.st)
      [] s.k = "destruct" ->
           LET r == Ev(s.e, env, st) IN
           IF ~IsOk(r) THEN RS(r.sig, r.v, env, r.st)
           ELSE IF r.v.k # "tuple" \/ Len(r.v.es) # Len(s.ns) THEN RS("error", "stuck:destruct", env, r.st)
           ELSE LET RECURSIVE B(_, _)
                    B(e2, i) == IF i > Len(s.ns) THEN e2 ELSE B(Bind(e2, s.ns[i], r.v.es[i]), i + 1)
                IN Continue(r.v, B(env, 1), r.st)
      [] s.k = "fndecl" ->
           LET id == NewFnId(st)
               clo == [kind |-> "user", params |-> s.ps, ret |-> Unwire(s.r), body |-> s.body,
                       env |-> env, name |-> s.n,
                       sig |-> Fn([i \in 1..Len(s.ps) |-> Unwire(s.ps[i].ty)], Unwire(s.r))]
           IN Continue(FnV(id), Bind(env, s.n, FnV(id)), AllocFn(st, clo))
      [] OTHER ->
           LET r == Ev(s, env, st) IN
           IF ~IsOk(r) THEN RS(r.sig, r.v, env, r.st) ELSE Continue(r.v, env, r.st)

\* run `body` again and again: ok / continue iterate, break ends with (), anything else propagates
LoopR(body, env, st) ==
  IF st.fuel <= 0 THEN ErrR("fuel", st)
  ELSE LET r == Ev(body, env, Burn(st)) IN
       IF r.sig \in {"ok", "continue"} THEN LoopR(body, env, r.st)
       ELSE IF r.sig = "break" THEN OkR(VoidV, r.st)
       ELSE r

\* pull an iterator to exhaustion; v = tuple of the elements
PullAll(f, acc, st) ==
  IF st.fuel <= 0 THEN ErrR("fuel", st)
  ELSE LET r == Call(f, <<>>, Burn(st)) IN
       IF ~IsOk(r) THEN r
       ELSE IF r.v.k # "tuple" \/ Len(r.v.es) # 2 \/ r.v.es[1].k # "bool" THEN ErrR("stuck:iterator", r.st)
       ELSE IF ~r.v.es[1].v THEN OkR(acc, r.st)
       ELSE PullAll(f, Append(acc, r.v.es[2]), r.st)

\* left fold: acc := g(acc, x) for every element
FoldR(f, g, acc, st) ==
  IF st.fuel <= 0 THEN ErrR("fuel", st)
  ELSE LET r == Call(f, <<>>, Burn(st)) IN
       IF ~IsOk(r) THEN r
       ELSE IF r.v.k # "tuple" \/ Len(r.v.es) # 2 \/ r.v.es[1].k # "bool" THEN ErrR("stuck:iterator", r.st)
       ELSE IF ~r.v.es[1].v THEN OkR(acc, r.st)
       ELSE LET a == Call(g, <<acc, r.v.es[2]>>, r.st) IN
            IF ~IsOk(a) THEN a ELSE FoldR(f, g, a.v, a.st)

\* $&& (stopAt = FALSE) and $|| (stopAt = TRUE): stop pulling at the first deciding element
BoolRed(f, stopAt, st) ==
  IF st.fuel <= 0 THEN ErrR("fuel", st)
  ELSE LET r == Call(f, <<>>, Burn(st)) IN
       IF ~IsOk(r) THEN r
       ELSE IF r.v.k # "tuple" \/ Len(r.v.es) # 2 \/ r.v.es[1].k # "bool" THEN ErrR("stuck:iterator", r.st)
       ELSE IF ~r.v.es[1].v THEN OkR(BoolV(~stopAt), r.st)
       ELSE IF r.v.es[2].k # "bool" THEN ErrR("stuck:boolreduce", r.st)
       ELSE IF r.v.es[2].v = stopAt THEN OkR(BoolV(stopAt), r.st)
       ELSE BoolRed(f, stopAt, r.st)

\* `it ? p` pulled once: first element with p, or the exhausted answer
FilterPull(src, p, st) ==
  IF st.fuel <= 0 THEN ErrR("fuel", st)
  ELSE LET r == Call(src, <<>>, Burn(st)) IN
       IF ~IsOk(r) THEN r
       ELSE IF r.v.k # "tuple" \/ Len(r.v.es) # 2 \/ r.v.es[1].k # "bool" THEN ErrR("stuck:iterator", r.st)
       ELSE IF ~r.v.es[1].v THEN OkR(TupV(<<BoolV(FALSE), Unspec>>), r.st)
       ELSE LET c == Call(p, <<r.v.es[2]>>, r.st) IN
            IF ~IsOk(c) THEN c
            ELSE IF c.v.k # "bool" THEN ErrR("stuck:predicate", c.st)
            ELSE IF c.v.v THEN OkR(r.v, c.st) ELSE FilterPull(src, p, c.st)

TFilterPull(src, ty, st) ==
  IF st.fuel <= 0 THEN ErrR("fuel", st)
  ELSE LET r == Call(src, <<>>, Burn(st)) IN
       IF ~IsOk(r) THEN r
       ELSE IF r.v.k # "tuple" \/ Len(r.v.es) # 2 \/ r.v.es[1].k # "bool" THEN ErrR("stuck:iterator", r.st)
       ELSE IF ~r.v.es[1].v THEN OkR(TupV(<<BoolV(FALSE), Unspec>>), r.st)
       ELSE IF r.v.es[2].k = "unspec" THEN ErrR("unspec", r.st)
       ELSE IF Matches(TagS(r.v.es[2], r.st), ty) THEN OkR(r.v, r.st)
       ELSE TFilterPull(src, ty, r.st)

Call(f, args, st) ==
  IF f.k # "fnv" THEN ErrR("stuck:call-non-function", st)
  ELSE IF st.fuel <= 0 THEN ErrR("fuel", st)
  ELSE
    LET c == st.fns[f.id]  st1 == Burn(st) IN
    CASE c.kind = "user" ->
           IF Len(args) # Len(c.params) THEN ErrR("stuck:arity", st1)
           ELSE
             LET e0 == IF c.name = "" THEN c.env ELSE Bind(c.env, c.name, f)
                 RECURSIVE B(_, _)
                 B(e2, i) == IF i > Len(args) THEN e2 ELSE B(Bind(e2, c.params[i].n, args[i]), i + 1)
                 r == EvStmts(c.body, B(e0, 1), st1)
             IN IF r.sig = "return" THEN OkR(r.v, r.st)
                ELSE IF r.sig = "ok" THEN OkR(VoidV, r.st)   \* falls off the end: ()
                ELSE IF r.sig = "error" THEN ErrR(r.v, r.st)
                ELSE ErrR("stuck:" \o r.sig \o "-escapes-function", r.st)
      [] c.kind = "iter" ->      \* a~ : position kept in an internal cell
           LET pos == st1.cells[c.pos].val.v + 1
               st2 == [st1 EXCEPT !.cells[c.pos].val = IntV(pos)] IN
           IF pos < Len(c.arr.es) THEN OkR(TupV(<<BoolV(TRUE), c.arr.es[pos + 1]>>), st2)
           ELSE OkR(TupV(<<BoolV(FALSE), Unspec>>), st2)
      [] c.kind = "map" ->
           LET r == Call(c.src, <<>>, st1) IN
           IF ~IsOk(r) THEN r
           ELSE IF r.v.k # "tuple" \/ Len(r.v.es) # 2 \/ r.v.es[1].k # "bool" THEN ErrR("stuck:iterator", r.st)
           ELSE IF ~r.v.es[1].v THEN OkR(TupV(<<BoolV(FALSE), Unspec>>), r.st)
           ELSE LET m == Call(c.f, <<r.v.es[2]>>, r.st) IN
                IF ~IsOk(m) THEN m ELSE OkR(TupV(<<BoolV(TRUE), m.v>>), m.st)
      [] c.kind = "filter"  -> FilterPull(c.src, c.f, st1)
      [] c.kind = "tfilter" -> TFilterPull(c.src, c.ty, st1)
      [] OTHER -> ErrR("stuck:closure-kind", st1)

\* arms of a match, top to bottom
MatchVals(vs, scrut, env, st, i) ==   \* result v: TRUE / FALSE
  IF i > Len(vs) THEN OkR(FALSE, st)
  ELSE LET r == Ev(vs[i], env, st) IN
       IF ~IsOk(r) THEN r
       ELSE IF HasUnspec(r.v) \/ HasUnspec(scrut) THEN ErrR("unspec", r.st)
       ELSE IF ValEq(r.v, scrut) THEN OkR(TRUE, r.st) ELSE MatchVals(vs, scrut, env, r.st, i + 1)

MatchArms(arms, scrut, env, st, i) ==
  IF i > Len(arms) THEN ErrR("stuck:match-not-covered", st)
  ELSE
    LET a == arms[i] IN
    CASE a.k = "other" -> Ev(a.b, env, st)
      [] a.k = "ty" ->
           IF scrut.k = "unspec" THEN ErrR("unspec", st)
           ELSE IF Matches(TagS(scrut, st), Unwire(a.ty)) THEN Ev(a.b, Bind(env, a.n, scrut), st)
           ELSE MatchArms(arms, scrut, env, st, i + 1)
      [] a.k = "val" ->
           LET m == MatchVals(a.vs, scrut, env, st, 1) IN
           IF ~IsOk(m) THEN m
           ELSE IF m.v THEN Ev(a.b, env, m.st) ELSE MatchArms(arms, scrut, env, m.st, i + 1)

Ev(e, env, st) ==
  CASE e.k = "lit" -> OkR(e.v, st)
    [] e.k = "var" ->
         LET v == Lookup(env, e.n) IN IF v = NoneV THEN ErrR("stuck:unbound-" \o e.n, st) ELSE OkR(v, st)
    [] e.k = "block" ->
         LET r == EvStmts(e.body, env, st) IN R(r.sig, r.v, r.st)
    [] e.k \in {"mod", "import"} ->      \* an imported file is a module whose text lives in another file
         LET r == EvStmts(e.body, env, st) IN
         IF r.sig # "ok" THEN R(r.sig, r.v, r.st)
         ELSE LET own == SubSeq(r.env, Len(env) + 1, Len(r.env))
                  names == {own[i].n : i \in 1..Len(own)} IN
              OkR(StructV([n \in names |-> Lookup(own, n)]), r.st)
    [] e.k \in {"tup", "arr"} ->
         LET r == EvList(e.es, env, st) IN
         IF ~IsOk(r) THEN r
         ELSE IF e.k = "tup" THEN OkR(TupV(r.v), r.st) ELSE OkR(FreshArr(r.v, r.st), r.st)
    [] e.k = "rep" ->
         LET r == EvList(<<e.v, e.len>>, env, st) IN
         IF ~IsOk(r) THEN r
         ELSE IF r.v[2].k # "int" THEN ErrR("stuck:length", r.st)
         ELSE IF r.v[2].v < 0 THEN ErrR("NegativeLength", r.st)
         ELSE IF r.v[2].v > 64 THEN ErrR("range", r.st)
         ELSE OkR(ArrV(TagS(r.v[1], r.st), [i \in 1..r.v[2].v |-> r.v[1]]), r.st)
    [] e.k = "struct" ->
         LET r == EvList([i \in 1..Len(e.fs) |-> e.fs[i][2]], env, st) IN
         IF ~IsOk(r) THEN r
         ELSE LET names == {e.fs[i][1] : i \in 1..Len(e.fs)} IN
              OkR(StructV([n \in names |-> r.v[Max({i \in 1..Len(e.fs) : e.fs[i][1] = n})]]), r.st)
    [] e.k = "field" ->
         LET r == Ev(e.e, env, st) IN
         IF ~IsOk(r) THEN r
         ELSE IF r.v.k # "struct" \/ e.n \notin DOMAIN r.v.fs THEN ErrR("stuck:field", r.st)
         ELSE OkR(r.v.fs[e.n], r.st)
    [] e.k = "tupat" ->
         LET r == Ev(e.e, env, st) IN
         IF ~IsOk(r) THEN r
         ELSE IF r.v.k # "tuple" \/ e.i + 1 > Len(r.v.es) THEN ErrR("stuck:tuple-access", r.st)
         ELSE OkR(r.v.es[e.i + 1], r.st)
    [] e.k = "at" ->
         LET r == EvList(<<e.e, e.i>>, env, st) IN
         IF ~IsOk(r) THEN r
         ELSE IF r.v[1].k \notin {"array", "string"} \/ r.v[2].k # "int" THEN ErrR("stuck:index", r.st)
         ELSE Lift(AtSeq(r.v[1], r.v[2].v), r.st)
    [] e.k = "slice" ->
         LET parts == <<e.e>> \o (IF e.a = NoneV THEN <<>> ELSE <<e.a>>)
                             \o (IF e.b = NoneV THEN <<>> ELSE <<e.b>>)
                             \o (IF e.c = NoneV THEN <<>> ELSE <<e.c>>)
             r == EvList(parts, env, st) IN
         IF ~IsOk(r) THEN r
         ELSE
           LET ia == 2
               ib == ia + (IF e.a = NoneV THEN 0 ELSE 1)
               ic == ib + (IF e.b = NoneV THEN 0 ELSE 1)
               a == IF e.a = NoneV THEN NoneV ELSE r.v[ia]
               b == IF e.b = NoneV THEN NoneV ELSE r.v[ib]
               c == IF e.c = NoneV THEN NoneV ELSE r.v[ic]
               s == r.v[1] IN
           IF s.k \notin {"array", "string"} THEN ErrR("stuck:slice", r.st)
           ELSE IF e.a = NoneV /\ e.b = NoneV /\ e.c = NoneV THEN OkR(s, r.st)    \* s[:] is s itself (tag kept)
           ELSE LET idx == SliceIdx(Len(ItemsOf(s)), a, b, c)
                    sel == [q \in 1..Len(idx) |-> ItemsOf(s)[idx[q] + 1]] IN
                IF s.k = "string" THEN OkR(StrV(sel), r.st) ELSE OkR(FreshArr(sel, r.st), r.st)
    [] e.k = "neg" -> LET r == Ev(e.e, env, st) IN IF ~IsOk(r) THEN r ELSE Lift(ApplyNeg(r.v), r.st)
    [] e.k = "not" -> LET r == Ev(e.e, env, st) IN IF ~IsOk(r) THEN r ELSE Lift(ApplyNot(r.v), r.st)
    [] e.k = "deref" ->
         LET r == Ev(e.e, env, st) IN
         IF ~IsOk(r) THEN r
         ELSE IF r.v.k # "cell" THEN ErrR("stuck:deref", r.st) ELSE OkR(r.st.cells[r.v.id].val, r.st)
    [] e.k = "bin" ->
         LET r == EvList(<<e.l, e.r>>, env, st) IN
         IF ~IsOk(r) THEN r ELSE Lift(ApplyBin(e.op, r.v[1], r.v[2]), r.st)
    [] e.k = "and" ->
         LET l == Ev(e.l, env, st) IN
         IF ~IsOk(l) THEN l
         ELSE IF l.v.k # "bool" THEN ErrR(IF l.v.k = "unspec" THEN "unspec" ELSE "stuck:condition", l.st)
         ELSE IF ~l.v.v THEN OkR(BoolV(FALSE), l.st) ELSE Ev(e.r, env, l.st)
    [] e.k = "or" ->
         LET l == Ev(e.l, env, st) IN
         IF ~IsOk(l) THEN l
         ELSE IF l.v.k # "bool" THEN ErrR(IF l.v.k = "unspec" THEN "unspec" ELSE "stuck:condition", l.st)
         ELSE IF l.v.v THEN OkR(BoolV(TRUE), l.st) ELSE Ev(e.r, env, l.st)
    [] e.k = "mut" ->
         LET r == Ev(e.e, env, st) IN
         IF ~IsOk(r) THEN r
         ELSE OkR(CellV(NewCellId(r.st)), AllocCell(r.st, Unwire(e.ty), r.v, FALSE))
    [] e.k = "asg" ->
         LET r == EvList(<<e.l, e.r>>, env, st) IN
         IF ~IsOk(r) THEN r
         ELSE IF r.v[1].k # "cell" THEN ErrR("stuck:assign-target", r.st)
         ELSE LET id == r.v[1].id
                  old == r.st.cells[id].val      \* content at the moment of the update
                  new == IF e.op = "=" THEN r.v[2]
                         ELSE ApplyBin(SubSeq(e.op, 1, Len(e.op) - 1), old, r.v[2]) IN
              IF new.k = "err" THEN ErrR(new.e, r.st)     \* failed: cell unchanged
              ELSE OkR(new, [r.st EXCEPT !.cells[id].val = new])
    [] e.k = "if" ->
         LET c == Ev(e.c, env, st) IN
         IF ~IsOk(c) THEN c
         ELSE IF c.v.k # "bool" THEN ErrR(IF c.v.k = "unspec" THEN "unspec" ELSE "stuck:condition", c.st)
         ELSE IF c.v.v THEN Ev(e.t, env, c.st)
         ELSE IF e.f = NoneV THEN OkR(VoidV, c.st) ELSE Ev(e.f, env, c.st)
    [] e.k = "ifset" ->
         LET x == Ev(e.e, env, st) IN
         IF ~IsOk(x) THEN x
         ELSE IF x.v.k = "unspec" THEN ErrR("unspec", x.st)
         ELSE IF Matches(TagS(x.v, x.st), Unwire(e.ty)) THEN Ev(e.t, Bind(env, e.n, x.v), x.st)
         ELSE IF e.f = NoneV THEN OkR(VoidV, x.st) ELSE Ev(e.f, env, x.st)
    [] e.k = "match" ->
         LET x == Ev(e.e, env, st) IN
         IF ~IsOk(x) THEN x ELSE MatchArms(e.arms, x.v, env, x.st, 1)
    [] e.k = "loop" -> LoopR(e.b, env, st)
    [] e.k = "while" ->
         LoopR([k |-> "if", c |-> e.c, t |-> e.b, f |-> [k |-> "break"]], env, st)
    [] e.k = "whileset" ->
         LoopR([k |-> "ifset", n |-> e.n, ty |-> e.ty, e |-> e.e, t |-> e.b, f |-> [k |-> "break"]], env, st)
    [] e.k = "for" ->
         LET it == Ev(e.e, env, st) IN
         IF ~IsOk(it) THEN it
         ELSE LET body == [k |-> "block", body |-> <<
                            [k |-> "destruct", ns |-> <<"$con", e.n>>,
                             e |-> [k |-> "call", f |-> [k |-> "var", n |-> "$iter"], args |-> <<>>]],
                            [k |-> "if", c |-> [k |-> "var", n |-> "$con"], t |-> e.b, f |-> [k |-> "break"]]>>]
              IN LoopR(body, Bind(env, "$iter", it.v), it.st)
    [] e.k = "break" -> R("break", VoidV, st)
    [] e.k = "continue" -> R("continue", VoidV, st)
    [] e.k = "ret" ->
         IF e.e = NoneV THEN R("return", VoidV, st)
         ELSE LET r == Ev(e.e, env, st) IN IF ~IsOk(r) THEN r ELSE R("return", r.v, r.st)
    [] e.k = "fn" ->
         LET id == NewFnId(st)
             clo == [kind |-> "user", params |-> e.ps, ret |-> Unwire(e.r), body |-> e.body,
                     env |-> env, name |-> "",
                     sig |-> Fn([i \in 1..Len(e.ps) |-> Unwire(e.ps[i].ty)], Unwire(e.r))]
         IN OkR(FnV(id), AllocFn(st, clo))
    [] e.k = "call" ->
         LET f == Ev(e.f, env, st) IN
         IF ~IsOk(f) THEN f
         ELSE LET a == EvList(e.args, env, f.st) IN
              IF ~IsOk(a) THEN a ELSE Call(f.v, a.v, a.st)
    [] e.k = "iter" ->
         LET a == Ev(e.e, env, st) IN
         IF ~IsOk(a) THEN a
         ELSE IF a.v.k # "array" THEN ErrR("stuck:iter", a.st)
         ELSE LET pos == NewCellId(a.st)
                  st1 == AllocCell(a.st, TInt, IntV(-1), TRUE)
                  clo == [kind |-> "iter", arr |-> a.v, pos |-> pos, sig |-> IterSig(a.v.tag)]
              IN OkR(FnV(NewFnId(st1)), AllocFn(st1, clo))
    [] e.k \in {"map", "filter"} ->
         LET r == EvList(<<e.it, e.f>>, env, st) IN
         IF ~IsOk(r) THEN r
         ELSE IF r.v[1].k # "fnv" \/ r.v[2].k # "fnv" THEN ErrR("stuck:" \o e.k, r.st)
         ELSE LET sig == IF e.k = "map" THEN IterSig(r.st.fns[r.v[2].id].sig.r)
                         ELSE Fn(<<>>, r.st.fns[r.v[1].id].sig.r)
                  clo == [kind |-> e.k, src |-> r.v[1], f |-> r.v[2], sig |-> sig]
              IN OkR(FnV(NewFnId(r.st)), AllocFn(r.st, clo))
    [] e.k = "tfilter" ->
         LET r == Ev(e.it, env, st) IN
         IF ~IsOk(r) THEN r
         ELSE IF r.v.k # "fnv" THEN ErrR("stuck:tfilter", r.st)
         ELSE LET clo == [kind |-> "tfilter", src |-> r.v, ty |-> Unwire(e.ty), sig |-> IterSig(Unwire(e.ty))]
              IN OkR(FnV(NewFnId(r.st)), AllocFn(r.st, clo))
    [] e.k = "collect" ->
         LET r == Ev(e.it, env, st) IN
         IF ~IsOk(r) THEN r
         ELSE LET p == PullAll(r.v, <<>>, r.st) IN
              IF ~IsOk(p) THEN p ELSE OkR(FreshArr(p.v, p.st), p.st)
    [] e.k = "part" ->
         LET r == EvList(<<e.it, e.f>>, env, st) IN
         IF ~IsOk(r) THEN r
         ELSE LET p == PullAll(r.v[1], <<>>, r.st) IN
              \* the code applies the predicate right after each pull; the predicate calls are
              \* interleaved with the pulls, which PartR models
              LET RECURSIVE PartR(_, _, _)
                  PartR(l, rr, s2) ==
                    IF s2.fuel <= 0 THEN ErrR("fuel", s2)
                    ELSE LET x == Call(r.v[1], <<>>, Burn(s2)) IN
                         IF ~IsOk(x) THEN x
                         ELSE IF x.v.k # "tuple" \/ Len(x.v.es) # 2 \/ x.v.es[1].k # "bool" THEN ErrR("stuck:iterator", x.st)
                         ELSE IF ~x.v.es[1].v THEN
                                LET et == QIterElement(x.st.fns[r.v[1].id].sig) IN
                                OkR(TupV(<<ArrV(et, l), ArrV(et, rr)>>), x.st)
                         ELSE LET c == Call(r.v[2], <<x.v.es[2]>>, x.st) IN
                              IF ~IsOk(c) THEN c
                              ELSE IF c.v = BoolV(TRUE) THEN PartR(Append(l, x.v.es[2]), rr, c.st)
                              ELSE PartR(l, Append(rr, x.v.es[2]), c.st)
              IN PartR(<<>>, <<>>, r.st)
    [] e.k = "reduce" ->
         LET r == EvList(<<e.it, e.init, e.f>>, env, st) IN
         IF ~IsOk(r) THEN r ELSE FoldR(r.v[1], r.v[3], r.v[2], r.st)
    [] e.k = "red" ->
         LET r == Ev(e.it, env, st) IN
         IF ~IsOk(r) THEN r
         ELSE IF e.op = "$&&" THEN BoolRed(r.v, FALSE, r.st)
         ELSE IF e.op = "$||" THEN BoolRed(r.v, TRUE, r.st)
         ELSE
           LET p == PullAll(r.v, <<>>, r.st)
               \* ek = "dyn": the static type of the iterator is a union of iterator types; the neutral element is that of
               \* ... the element type the iterator VALUE declares (its signature () -> (bool, T)); an iterator over `!'
               \* (the empty array literal) sums to the int 0
               dty == IF r.v.k = "fnv" /\ r.st.fns[r.v.id].sig.r.k = "tuple" /\ Len(r.st.fns[r.v.id].sig.r.es) = 2
                      THEN r.st.fns[r.v.id].sig.r.es[2].k ELSE "never"
               ek == IF e.ek = "dyn" THEN (IF dty \in {"int", "float", "string"} THEN dty
                                           ELSE IF IsOk(p) /\ Len(p.v) > 0 /\ p.v[1].k \in {"int", "float", "string"} THEN p.v[1].k ELSE "int")
                     ELSE e.ek
               zero == CASE e.op = "$+" -> (CASE ek = "int" -> IntV(0) [] ek = "float" -> FloatV(0) [] OTHER -> StrV(<<>>))
                         [] e.op = "$*" -> (IF ek = "int" THEN IntV(1) ELSE FloatV(2))
                         [] e.op = "$&" -> IntV(-1)
                         [] e.op = "$|" -> IntV(0)
               bop == CASE e.op = "$+" -> "+" [] e.op = "$*" -> "*" [] e.op = "$&" -> "&" [] e.op = "$|" -> "|"
               RECURSIVE F(_, _)
               F(acc, i) == IF i > Len(p.v) THEN acc
                            ELSE IF acc.k = "err" THEN acc
                            ELSE F(ApplyBin(bop, acc, p.v[i]), i + 1)
           IN IF ~IsOk(p) THEN p ELSE Lift(F(zero, 1), p.st)
    [] e.k = "hide" -> Ev(e.e, env, st)       \* h(e): identity the optimiser cannot see through
    [] e.k = "tick" ->         \* t(i, e): evaluates e, then appends i to the log cell, yields e's value
         LET r == Ev(e.e, env, st) IN
         IF ~IsOk(r) THEN r
         ELSE LET lg == Lookup(env, "log") IN
              IF lg = NoneV \/ lg.k # "cell" THEN ErrR("stuck:no-log", r.st)
              ELSE LET old == r.st.cells[lg.id].val IN
                   OkR(r.v, [r.st EXCEPT !.cells[lg.id].val = ArrV(TInt, old.es \o <<IntV(e.i)>>)])
    [] e.k = "mark" ->         \* log += [i]
         LET lg == Lookup(env, "log") IN
         IF lg = NoneV \/ lg.k # "cell" THEN ErrR("stuck:no-log", st)
         ELSE LET old == st.cells[lg.id].val
                  new == ArrV(TInt, old.es \o <<IntV(e.i)>>) IN
              OkR(new, [st EXCEPT !.cells[lg.id].val = new])
    [] OTHER -> ErrR("stuck:unknown-node-" \o e.k, st)

(***************************************************************************)
(* Static name resolution: every use of a name has an enclosing declaration *)
(* that textually precedes it (the checker rejects a program otherwise).    *)
(***************************************************************************)
RECURSIVE Scoped(_, _), ScopedSeq(_, _), ScopedAll(_, _)
ScopedAll(es, bound) == \A i \in 1..Len(es) : Scoped(es[i], bound)
\* statement list: declarations extend the bound set for what follows
ScopedSeq(ss, bound) ==
  IF ss = <<>> THEN TRUE
  ELSE LET s == Head(ss) IN
       CASE s.k = "set" -> Scoped(s.e, bound) /\ ScopedSeq(Tail(ss), bound \cup {s.n})
         [] s.k = "destruct" -> Scoped(s.e, bound) /\ ScopedSeq(Tail(ss), bound \cup {s.ns[i] : i \in 1..Len(s.ns)})
         [] s.k = "fndecl" -> /\ ScopedSeq(s.body, bound \cup {s.n} \cup {s.ps[i].n : i \in 1..Len(s.ps)})
                              /\ ScopedSeq(Tail(ss), bound \cup {s.n})
         [] OTHER -> Scoped(s, bound) /\ ScopedSeq(Tail(ss), bound)
Opt(e, bound) == e = NoneV \/ Scoped(e, bound)
Scoped(e, bound) ==
  CASE e.k \in {"lit", "break", "continue", "mark"} -> TRUE
    [] e.k = "var" -> e.n \in bound
    [] e.k \in {"block", "mod", "import"} -> ScopedSeq(e.body, bound)
    [] e.k \in {"tup", "arr"} -> ScopedAll(e.es, bound)
    [] e.k = "rep" -> Scoped(e.v, bound) /\ Scoped(e.len, bound)
    [] e.k = "struct" -> \A i \in 1..Len(e.fs) : Scoped(e.fs[i][2], bound)
    [] e.k \in {"field", "tupat", "neg", "not", "deref", "iter", "hide", "tick"} -> Scoped(e.e, bound)
    [] e.k = "at" -> Scoped(e.e, bound) /\ Scoped(e.i, bound)
    [] e.k = "slice" -> Scoped(e.e, bound) /\ Opt(e.a, bound) /\ Opt(e.b, bound) /\ Opt(e.c, bound)
    [] e.k \in {"bin", "and", "or", "asg"} -> Scoped(e.l, bound) /\ Scoped(e.r, bound)
    [] e.k = "mut" -> Scoped(e.e, bound)
    [] e.k = "if" -> Scoped(e.c, bound) /\ Scoped(e.t, bound) /\ Opt(e.f, bound)
    [] e.k = "ifset" -> Scoped(e.e, bound) /\ Scoped(e.t, bound \cup {e.n}) /\ Opt(e.f, bound)
    [] e.k = "match" -> Scoped(e.e, bound) /\ \A i \in 1..Len(e.arms) :
                          LET a == e.arms[i] IN
                          CASE a.k = "val" -> ScopedAll(a.vs, bound) /\ Scoped(a.b, bound)
                            [] a.k = "ty" -> Scoped(a.b, bound \cup {a.n})
                            [] OTHER -> Scoped(a.b, bound)
    [] e.k = "loop" -> Scoped(e.b, bound)
    [] e.k = "while" -> Scoped(e.c, bound) /\ Scoped(e.b, bound)
    [] e.k = "whileset" -> Scoped(e.e, bound) /\ Scoped(e.b, bound \cup {e.n})
    [] e.k = "for" -> Scoped(e.e, bound) /\ Scoped(e.b, bound \cup {e.n})
    [] e.k = "ret" -> Opt(e.e, bound)
    [] e.k = "fn" -> ScopedSeq(e.body, bound \cup {e.ps[i].n : i \in 1..Len(e.ps)})
    [] e.k = "call" -> Scoped(e.f, bound) /\ ScopedAll(e.args, bound)
    [] e.k \in {"map", "filter", "part"} -> Scoped(e.it, bound) /\ Scoped(e.f, bound)
    [] e.k \in {"tfilter", "collect", "red"} -> Scoped(e.it, bound)
    [] e.k = "reduce" -> Scoped(e.it, bound) /\ Scoped(e.init, bound) /\ Scoped(e.f, bound)
    [] OTHER -> FALSE
WellScoped(prog) == ScopedSeq(prog, {"log"})

(***************************************************************************)
(* Running a program: a statement list with a log cell `log' pre-bound.     *)
(***************************************************************************)
InitSt(fuel) == [cells |-> <<[ty |-> Arr(TInt), val |-> ArrV(TNever, <<>>), int |-> FALSE]>>,
                 fns |-> <<>>, fuel |-> fuel]
InitEnv == <<[n |-> "log", v |-> CellV(1)]>>

Run(prog, fuel) == EvStmts(prog, InitEnv, InitSt(fuel))

\* replace cell and function references by their content / signature (bounded depth)
RECURSIVE Resolve(_, _, _)
Resolve(v, st, d) ==
  IF d = 0 THEN Unspec
  ELSE CASE v.k \in {"array"} -> [v EXCEPT !.es = [i \in 1..Len(v.es) |-> Resolve(v.es[i], st, d - 1)]]
         [] v.k = "tuple"  -> [v EXCEPT !.es = [i \in 1..Len(v.es) |-> Resolve(v.es[i], st, d - 1)]]
         [] v.k = "struct" -> [v EXCEPT !.fs = [f \in DOMAIN v.fs |-> Resolve(v.fs[f], st, d - 1)]]
         [] v.k = "cell"   -> [k |-> "cell", id |-> v.id, ty |-> st.cells[v.id].ty,
                               c |-> Resolve(st.cells[v.id].val, st, d - 1)]
         [] v.k = "fnv"    -> [k |-> "fnv", id |-> v.id, sig |-> st.fns[v.id].sig]
         [] OTHER -> v

\* machine value -> self-contained value of Types.tla (for Member); depth-bounded
RECURSIVE TV(_, _, _)
TV(v, st, d) ==
  IF d = 0 THEN [k |-> "void"]
  ELSE CASE v.k = "array"  -> [v EXCEPT !.es = [i \in 1..Len(v.es) |-> TV(v.es[i], st, d - 1)]]
         [] v.k = "tuple"  -> [v EXCEPT !.es = [i \in 1..Len(v.es) |-> TV(v.es[i], st, d - 1)]]
         [] v.k = "struct" -> [v EXCEPT !.fs = [f \in DOMAIN v.fs |-> TV(v.fs[f], st, d - 1)]]
         [] v.k = "cell"   -> [k |-> "cell", ty |-> st.cells[v.id].ty, c |-> TV(st.cells[v.id].val, st, d - 1)]
         [] v.k = "fnv"    -> [k |-> "fnv", sig |-> st.fns[v.id].sig]
         [] OTHER -> v
RECURSIVE HasUnspecT(_)
HasUnspecT(v) ==
  CASE v.k = "unspec" -> TRUE
    [] v.k \in {"array", "tuple"} -> \E i \in 1..Len(v.es) : HasUnspecT(v.es[i])
    [] v.k = "struct" -> \E f \in DOMAIN v.fs : HasUnspecT(v.fs[f])
    [] v.k = "cell" -> HasUnspecT(v.c)
    [] OTHER -> FALSE
\* a value that contains the unspecified value of an exhausted iterator is not judged
MemberS(v, ty, st) == LET tv == TV(v, st, 6) IN HasUnspecT(tv) \/ Member(tv, ty)
CellsTyped(st) == \A i \in 1..Len(st.cells) : MemberS(st.cells[i].val, st.cells[i].ty, st)

\* what an observer sees of a finished run
Outcome(r) ==
  [status |-> IF r.sig = "ok" THEN "value"
              ELSE IF r.sig = "error" /\ r.v \in DocErrors THEN "error"
              ELSE IF r.sig = "error" /\ r.v \in Inconclusive THEN "inconclusive"
              ELSE "stuck",
   v |-> IF r.sig = "ok" THEN Resolve(r.v, r.st, 6) ELSE r.v,
   log |-> [i \in 1..Len(r.st.cells[1].val.es) |-> r.st.cells[1].val.es[i].v]]

\* the values of the given top-level names when the run ended (also after an error)
Watch(r, names) == [i \in 1..Len(names) |->
                      LET v == Lookup(r.env, names[i]) IN
                      [n |-> names[i], v |-> IF v = NoneV THEN NoneV ELSE Resolve(v, r.st, 6)]]
=============================================================================
