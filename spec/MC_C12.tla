------------------------------ MODULE MC_C12 ------------------------------
(***************************************************************************)
(* C12 — control flow selects and exits exactly the documented construct.   *)
(* All nestings up to depth D of {if ==, if-set, match (value, type, type,  *)
(* default arms), block, module, loop, while, while-set, for} inside a       *)
(* function g(x: int|float|string) -> int, with break / continue / return    *)
(* at every leaf position the grammar allows and a marker in every branch,   *)
(* at every iteration start and after every loop.  g is called with a value  *)
(* of every member type of the union (1, 2, 1.5, "s").  At depth >= 2 one    *)
(* of the two sub-positions of every construct is a leaf (mark / return).    *)
(*                                                                           *)
(* Laws checked on the specification by TLC: NoStuck (no signal escapes its *)
(* construct, the run ends with a value), DeadNeverLogged (a marker that    *)
(* textually follows a return / break / continue in the same statement list *)
(* is never logged), ReturnWins (the call's result is the number of the     *)
(* return that fired, or 0 when the body ran to its end, in which case the  *)
(* end marker 999 is the last thing logged by that call).                   *)
(***************************************************************************)
EXTENDS LangAst, Json, IOUtils

CONSTANTS Chunks, D, SampleMod
VARIABLE row

XTy == WMulti(<<WInt, WFloat, WStr>>)
Nm(p, id) == p \o ToString(id)

Small(id) == {Mark(id), Ret(I(id))}
Leaves(inLoop, id) == Small(id) \cup (IF inLoop THEN {Break, ContinueS} ELSE {})

RECURSIVE Stm(_, _, _)
Pairs(d, inLoop, id) ==
  {<<a, b>> : a \in Stm(d - 1, inLoop, 4 * id + 1), b \in Small(4 * id + 2)}
  \cup {<<a, b>> : a \in Small(4 * id + 1), b \in Stm(d - 1, inLoop, 4 * id + 2)}

IfEq(p)     == If(Bin("==", V("x"), I(1)), p[1], p[2])
IfSetInt(p) == IfSet("y", WInt, V("x"), p[1], p[2])
MatchX(p, id) == Match(V("x"), <<ArmVal(<<I(1)>>, p[1]), ArmTy("y", WFloat, p[2]),
                                ArmTy("y", WInt, Mark(4 * id + 3)), ArmOther(Mark(4 * id))>>)
BlockOf(p)  == Block(<<p[1], p[2]>>)
ModOf(p)    == ModE(<<p[1], p[2]>>)

LoopOf(q, id) ==
  Block(<<Set(Nm("k", id), MutE(WInt, I(0))),
          Loop(Block(<<Asg("+=", V(Nm("k", id)), I(1)),
                       If1(Bin(">", Deref(V(Nm("k", id))), I(2)), Break),
                       Mark(4 * id + 3), q[1], q[2]>>)),
          Mark(4 * id)>>)
\* a loop whose body ends in an unconditional `break' (it runs at most once unless a `continue' fires earlier);
\* the other exits inside still belong to THIS loop
LoopOnceOf(q, id) ==
  Block(<<Set(Nm("k", id), MutE(WInt, I(0))),
          Loop(Block(<<Asg("+=", V(Nm("k", id)), I(1)),
                       If1(Bin(">", Deref(V(Nm("k", id))), I(2)), Break),
                       Mark(4 * id + 3), q[1], q[2], Break>>)),
          Mark(4 * id)>>)
WhileOf(q, id) ==
  Block(<<Set(Nm("k", id), MutE(WInt, I(0))),
          While(Bin("<", Deref(V(Nm("k", id))), I(2)),
                Block(<<Asg("+=", V(Nm("k", id)), I(1)), Mark(4 * id + 3), q[1], q[2]>>)),
          Mark(4 * id)>>)
ForOf(q, id) ==
  Block(<<For(Nm("e", id), IterE(ArrE(<<I(7), I(8)>>)), Block(<<Mark(4 * id + 3), q[1], q[2]>>)),
          Mark(4 * id)>>)
WhileSetOf(q, id) ==
  Block(<<Set(Nm("s", id), MutE(WInt, I(0))),
          FnDecl(Nm("n", id), <<>>, WMulti(<<WInt, WVoid>>),
                 <<Asg("+=", V(Nm("s", id)), I(1)),
                   If1(Bin(">", Deref(V(Nm("s", id))), I(2)), Ret0),
                   Ret(Deref(V(Nm("s", id))))>>),
          WhileSet("y", WInt, CallE(V(Nm("n", id)), <<>>), Block(<<Mark(4 * id + 3), q[1], q[2]>>)),
          Mark(4 * id)>>)

Stm(d, inLoop, id) ==
  Leaves(inLoop, id) \cup
  (IF d = 0 THEN {}
   ELSE UNION {{IfEq(p), IfSetInt(p), MatchX(p, id), BlockOf(p), ModOf(p)} : p \in Pairs(d, inLoop, id)}
        \cup UNION {{LoopOf(q, id), WhileOf(q, id), ForOf(q, id), WhileSetOf(q, id)} : q \in Pairs(d, TRUE, id)}
        \* (the run-once loop only below the root of the deepest bound: the enumeration of depth 3 is kept affordable)
        \cup (IF d <= 2 THEN UNION {{LoopOnceOf(q, id)} : q \in Pairs(d, TRUE, id)} ELSE {}))

\* depth 3 is sampled BELOW the root (every SampleMod-th body of depth 2 in each sub-position) instead of building the
\* whole depth-3 set first and sampling it afterwards: the complete set has some 200 000 deep records, which costs TLC an
\* hour to normalise; the sampled one is built in seconds
Samp(st) == LET q == SetToSeq(st) IN {q[i] : i \in {j \in 1..Len(q) : j % SampleMod = 0}}
SamplePairs(inLoop) ==
  {<<a, b>> : a \in Samp(Stm(2, inLoop, 5)), b \in Small(6)} \cup {<<a, b>> : a \in Small(5), b \in Samp(Stm(2, inLoop, 6))}
Bodies == IF D = 3
          THEN UNION {{IfEq(p), IfSetInt(p), MatchX(p, 1), BlockOf(p), ModOf(p)} : p \in SamplePairs(FALSE)}
               \cup UNION {{LoopOf(q, 1), WhileOf(q, 1), ForOf(q, 1), WhileSetOf(q, 1)} : q \in SamplePairs(TRUE)}
          ELSE Stm(D, FALSE, 1)

Prog(body) ==
  <<FnDecl("g", <<P("x", XTy)>>, WInt, <<body, Mark(999), Ret(I(0))>>),
    Set("r1", CallE(V("g"), <<I(1)>>)), Mark(1001),
    Set("r2", CallE(V("g"), <<I(2)>>)), Mark(1002),
    Set("r3", CallE(V("g"), <<F(3)>>)), Mark(1003),
    Set("r4", CallE(V("g"), <<S(<<115>>)>>)), Mark(1004),
    TupE(<<V("r1"), V("r2"), V("r3"), V("r4")>>)>>

\* keep every SampleMod-th body (1 = all) so that deeper suites stay affordable
BodySeq == LET all == SetToSeq(Bodies) IN
           IF D = 3 THEN all
           ELSE SelectSeq([i \in 1..Len(all) |-> IF i % SampleMod = 0 THEN all[i] ELSE NoneV], LAMBDA b : b # NoneV)
N == Len(BodySeq)
Fuel == 5000
Out(i) == Outcome(Run(Prog(BodySeq[i]), Fuel))

\* markers that textually follow an unconditional exit in the same statement list
RECURSIVE Dead(_), DeadList(_, _), AllMarks(_), SubTerms(_)
Exits(s) == s.k \in {"ret", "break", "continue"}
DeadList(ss, i) ==
  IF i > Len(ss) THEN {}
  ELSE Dead(ss[i]) \cup (IF Exits(ss[i]) THEN UNION {AllMarks(ss[j]) : j \in (i + 1)..Len(ss)} ELSE DeadList(ss, i + 1))
AllMarks(s) ==
  CASE s.k = "mark" -> {s.i}
    [] s.k \in {"block", "mod"} -> UNION {AllMarks(s.body[j]) : j \in 1..Len(s.body)}
    [] s.k = "if" -> AllMarks(s.t) \cup (IF s.f = NoneV THEN {} ELSE AllMarks(s.f))
    [] s.k = "ifset" -> AllMarks(s.t) \cup (IF s.f = NoneV THEN {} ELSE AllMarks(s.f))
    [] s.k = "match" -> UNION {AllMarks(s.arms[j].b) : j \in 1..Len(s.arms)}
    [] s.k \in {"loop", "while", "whileset", "for"} -> AllMarks(s.b)
    [] OTHER -> {}
Dead(s) ==
  CASE s.k \in {"block", "mod"} -> DeadList(s.body, 1)
    [] s.k = "if" -> Dead(s.t) \cup (IF s.f = NoneV THEN {} ELSE Dead(s.f))
    [] s.k = "ifset" -> Dead(s.t) \cup (IF s.f = NoneV THEN {} ELSE Dead(s.f))
    [] s.k = "match" -> UNION {Dead(s.arms[j].b) : j \in 1..Len(s.arms)}
    [] s.k \in {"loop", "while", "whileset", "for"} -> Dead(s.b)
    [] OTHER -> {}

SubTerms(s) ==
  {s} \cup
  CASE s.k \in {"block", "mod"} -> UNION {SubTerms(s.body[j]) : j \in 1..Len(s.body)}
    [] s.k = "if" -> SubTerms(s.t) \cup (IF s.f = NoneV THEN {} ELSE SubTerms(s.f))
    [] s.k = "ifset" -> SubTerms(s.t) \cup (IF s.f = NoneV THEN {} ELSE SubTerms(s.f))
    [] s.k = "match" -> UNION {SubTerms(s.arms[j].b) : j \in 1..Len(s.arms)}
    [] s.k \in {"loop", "while", "whileset", "for"} -> SubTerms(s.b)
    [] OTHER -> {}

RetNumbers(s) == {0} \cup {n \in 1..1000 : Ret(I(n)) \in SubTerms(s)}

\* the part of the log produced by call number c (between markers 1000+c-1 and 1000+c)
CallLog(log, c) ==
  LET pos(m) == CHOOSE i \in 1..Len(log) : log[i] = m
      from == IF c = 1 THEN 1 ELSE pos(1000 + c - 1) + 1
  IN SubSeq(log, from, pos(1000 + c) - 1)

NoStuck == row > 0 => Out(row).status = "value"
DeadNeverLogged == row > 0 =>
  LET o == Out(row) IN \A i \in 1..Len(o.log) : o.log[i] \notin Dead(BodySeq[row])
ReturnWins == row > 0 =>
  LET o == Out(row) IN
  \A c \in 1..4 :
    LET r == o.v.es[c].v   cl == CallLog(o.log, c) IN
    /\ r \in RetNumbers(BodySeq[row])
    /\ (r = 0) = (Len(cl) > 0 /\ cl[Len(cl)] = 999)
    /\ (r # 0) => 999 \notin {cl[i] : i \in 1..Len(cl)}

Init == row = 0
Next == \/ row = 0 /\ row' \in {-c : c \in 1..Chunks}
        \/ row < 0 /\ row' \in {i \in 1..N : i % Chunks = (-row) % Chunks}
Spec == Init /\ [][Next]_row

Emit ==
  /\ TLCGet("stats").distinct > 0
  /\ ndJsonSerialize(IOEnv.VERIF_OUT \o "/c12_cases.ndjson",
        [i \in 1..N |-> [id |-> "c12-" \o ToString(i), suite |-> "c12", prog |-> Prog(BodySeq[i]), exp |-> Out(i)]])
  /\ PrintT(<<"CASES", N, Cardinality(Bodies)>>)
=============================================================================
