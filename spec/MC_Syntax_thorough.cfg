SPECIFICATION Spec
CONSTANTS
  Thorough = TRUE
  Den3 = 8
INVARIANTS
  TokInv
  AstInv
  FoldInv
  OutcomeInv
  ContextInv
POSTCONDITION Emit
CHECK_DEADLOCK FALSE
