SPECIFICATION Spec
CONSTANTS
  Thorough = TRUE
  Den3 = 8
  DenA = 1
INVARIANTS
  TokInv
  AstInv
  FoldInv
  OutcomeInv
  ContextInv
  EmitInv
POSTCONDITION Emit
CHECK_DEADLOCK FALSE
