SPECIFICATION Spec
CONSTANTS
  N = 8
  B = 8
  Chunks = 14
  Thorough = TRUE
INVARIANTS
  InvGrid
  InvFloat
  InvAlgebra
  InvDistrib
  InvOrder
  InvDivision
  InvShifts
  InvPowers
  InvTable
  InvEmitRow
POSTCONDITION Emit
CHECK_DEADLOCK FALSE
