------------------------------- MODULE Print -------------------------------
(***************************************************************************)
(* Text forms of SimpleSL types (C15) and of first-order values (C20).      *)
(*                                                                           *)
(* Part 1 - types.  The text of a type is a TOKEN SEQUENCE (strings):        *)
(*   "bool" "int" "float" "string" "any" "!" "mut" "struct" "(" ")" "[" "]"  *)
(*   "{" "}" "," "|" "->" ":" and field names.  `()' is "(" ")".             *)
(* A union is a set and a struct is a map, so one type has several texts:   *)
(* an ORDERING of T is a syntax tree (an ordered type: "multi" carries a    *)
(* sequence of members, "struct" a sequence of [n, t] fields) that denotes  *)
(* T.  PrintType(T, o) is the text the grammar prescribes for T under the   *)
(* ordering o; PrintSet(T) collects all orderings.  ParseTree transcribes   *)
(* the PEG rules type / multi / standard_types / return_type / mut_type /   *)
(* function_type / tuple_type / array_type / struct_type of simplesl.pest   *)
(* (ordered choice, greedy repetition, no back-tracking into a repetition); *)
(* Denote is what `Type::from(pair)' does with the tree (unions folded with *)
(* Join, fields collected into a map).  The property:                       *)
(*    ParseType(PrintType(T, o)) = T   for every T and every ordering o     *)
(* and its corollary Unambiguous (distinct types have disjoint PrintSets).  *)
(*                                                                           *)
(* Part 2 - values.  See below.                                              *)
(***************************************************************************)
EXTENDS Types

(***************************************************************************)
(* Small helpers.                                                           *)
(***************************************************************************)
RECURSIVE SepBy(_, _)
SepBy(parts, sep) ==     \* parts: sequence of token sequences
  IF Len(parts) = 0 THEN <<>>
  ELSE IF Len(parts) = 1 THEN parts[1]
  ELSE parts[1] \o sep \o SepBy(Tail(parts), sep)

RECURSIVE SeqProd(_)
SeqProd(SS) ==           \* SS: sequence of sets; all sequences choosing one element of each
  IF Len(SS) = 0 THEN {<<>>}
  ELSE {<<h>> \o t : h \in Head(SS), t \in SeqProd(Tail(SS))}

\* Type::concat folded from the left, as `reduce(Type::concat)' does
RECURSIVE JoinLeftFrom(_, _, _)
JoinLeftFrom(acc, ts, i) == IF i > Len(ts) THEN acc ELSE JoinLeftFrom(Join(acc, ts[i]), ts, i + 1)
JoinLeft(ts) == IF Len(ts) = 0 THEN TNever ELSE JoinLeftFrom(ts[1], ts, 2)

(***************************************************************************)
(* Ordered types (syntax trees).                                            *)
(***************************************************************************)
OMulti(ms)  == [k |-> "multi", ms |-> ms]        \* ms: sequence, length >= 2
OStruct(fs) == [k |-> "struct", fs |-> fs]       \* fs: sequence of [n |-> name, t |-> tree]
OField(n, t) == [n |-> n, t |-> t]

RECURSIVE Orderings(_)
Orderings(t) ==
  CASE t.k \in {"array", "mut"} -> {[k |-> t.k, e |-> o] : o \in Orderings(t.e)}
    [] t.k = "tuple" -> {Tup(es) : es \in SeqProd([i \in 1..Len(t.es) |-> Orderings(t.es[i])])}
    [] t.k = "fn" -> {Fn(ps, r) : ps \in SeqProd([i \in 1..Len(t.ps) |-> Orderings(t.ps[i])]),
                                   r \in Orderings(t.r)}
    [] t.k = "struct" ->
         UNION {{OStruct([i \in 1..Len(p) |-> OField(p[i], ts[i])]) :
                    ts \in SeqProd([i \in 1..Len(p) |-> Orderings(t.fs[p[i]])])} :
                p \in Perms(DOMAIN t.fs)}
    [] t.k = "multi" ->
         UNION {{OMulti(ms) : ms \in SeqProd([i \in 1..Len(p) |-> Orderings(p[i])])} :
                p \in Perms(t.ms)}
    [] OTHER -> {t}

\* the number of orderings, computed without enumerating them (saturating at OCap)
OCap == 10000
SatMul(a, b) == IF a >= OCap \/ b >= OCap THEN OCap ELSE IF a * b > OCap THEN OCap ELSE a * b
RECURSIVE Factorial(_)
Factorial(n) == IF n <= 1 THEN 1 ELSE SatMul(n, Factorial(n - 1))
RECURSIVE OrderingCount(_)
OrderingCount(t) ==
  LET RECURSIVE Prod(_, _)
      Prod(ts, i) == IF i > Len(ts) THEN 1 ELSE SatMul(OrderingCount(ts[i]), Prod(ts, i + 1))
  IN CASE t.k \in {"array", "mut"} -> OrderingCount(t.e)
       [] t.k = "tuple" -> Prod(t.es, 1)
       [] t.k = "fn" -> SatMul(Prod(t.ps, 1), OrderingCount(t.r))
       [] t.k = "struct" -> SatMul(Factorial(Cardinality(DOMAIN t.fs)),
                                   LET ns == SetToSeq(DOMAIN t.fs) IN
                                   Prod([i \in 1..Len(ns) |-> t.fs[ns[i]]], 1))
       [] t.k = "multi" -> SatMul(Factorial(Cardinality(t.ms)), Prod(SetToSeq(t.ms), 1))
       [] OTHER -> 1

\* what Type::from(pair) builds from a syntax tree
RECURSIVE Denote(_)
Denote(o) ==
  CASE o.k \in {"array", "mut"} -> [k |-> o.k, e |-> Denote(o.e)]
    [] o.k = "tuple" -> Tup([i \in 1..Len(o.es) |-> Denote(o.es[i])])
    [] o.k = "fn" -> Fn([i \in 1..Len(o.ps) |-> Denote(o.ps[i])], Denote(o.r))
    [] o.k = "struct" ->      \* collected into a HashMap: a later field of the same name wins
         LET names == {o.fs[i].n : i \in 1..Len(o.fs)}
             last(n) == CHOOSE i \in 1..Len(o.fs) :
                           o.fs[i].n = n /\ \A j \in (i + 1)..Len(o.fs) : o.fs[j].n # n
         IN Struct([n \in names |-> Denote(o.fs[last(n)].t)])
    [] o.k = "multi" -> JoinLeft([i \in 1..Len(o.ms) |-> Denote(o.ms[i])])
    [] OTHER -> o

(***************************************************************************)
(* The printer.  par = TRUE is the grammar's text: a union is put in         *)
(* parentheses inside a function result and inside `mut' (the two places    *)
(* where the grammar asks for return_type), nowhere else; [!] is `[]'.       *)
(* par = FALSE leaves the parentheses out (used to state that they matter). *)
(***************************************************************************)
RECURSIVE PrintOT(_, _)
PrintOT(o, par) ==
  LET P(x) == PrintOT(x, par)
      Guard(x) == IF x.k = "multi" /\ par THEN <<"(">> \o P(x) \o <<")">> ELSE P(x)
      List(xs) == SepBy([i \in 1..Len(xs) |-> P(xs[i])], <<",">>)
  IN CASE o.k \in {"bool", "int", "float", "string", "any"} -> <<o.k>>
       [] o.k = "void"   -> <<"(", ")">>
       [] o.k = "never"  -> <<"!">>
       [] o.k = "array"  -> IF o.e.k = "never" THEN <<"[", "]">> ELSE <<"[">> \o P(o.e) \o <<"]">>
       [] o.k = "mut"    -> <<"mut">> \o Guard(o.e)
       [] o.k = "tuple"  -> <<"(">> \o List(o.es) \o <<")">>
       [] o.k = "fn"     -> <<"(">> \o List(o.ps) \o <<")", "->">> \o Guard(o.r)
       [] o.k = "struct" -> <<"struct", "{">>
                            \o SepBy([i \in 1..Len(o.fs) |-> <<o.fs[i].n, ":">> \o P(o.fs[i].t)], <<",">>)
                            \o <<"}">>
       [] o.k = "multi"  -> SepBy([i \in 1..Len(o.ms) |-> P(o.ms[i])], <<"|">>)

IsOrderingOf(o, T) == o \in Orderings(T)
PrintType(T, o) == PrintOT(o, TRUE)              \* defined for IsOrderingOf(o, T)
PrintSet(T) == {PrintOT(o, TRUE) : o \in Orderings(T)}

(***************************************************************************)
(* The parser: PEG rules over token sequences.  Results are                 *)
(* [ok |-> FALSE] or [ok |-> TRUE, t |-> tree, i |-> index of next token].  *)
(* `type = multi | standard_types' with `multi = std ("|" std)+' is written *)
(* as std followed by the greedy tail ("|" std)* - the same language and    *)
(* the same tree, because the first std is parsed identically by both       *)
(* alternatives.                                                            *)
(***************************************************************************)
Reserved == {"bool", "int", "float", "string", "any", "!", "mut", "struct", "(", ")", "[", "]",
             "{", "}", ",", "|", "->", ":", "$"}
IsIdent(tok) == tok \notin Reserved
Tok(s, i) == IF i <= Len(s) THEN s[i] ELSE "$"
Fail == [ok |-> FALSE]
Ok(t, i) == [ok |-> TRUE, t |-> t, i |-> i]

RECURSIVE PType(_, _), PStd(_, _), PRet(_, _), PMore(_, _, _, _), PFnType(_, _), PTupleType(_, _),
          PArrayType(_, _), PStructType(_, _), PField(_, _), PFieldsMore(_, _, _)

\* greedy (sep x)* ; x = standard_types after "|", type after ","
PMore(s, i, sep, acc) ==
  IF Tok(s, i) # sep THEN [ts |-> acc, i |-> i]
  ELSE LET r == IF sep = "|" THEN PStd(s, i + 1) ELSE PType(s, i + 1) IN
       IF r.ok THEN PMore(s, r.i, sep, Append(acc, r.t)) ELSE [ts |-> acc, i |-> i]

PType(s, i) ==
  LET a == PStd(s, i) IN
  IF ~a.ok THEN Fail
  ELSE LET m == PMore(s, a.i, "|", <<a.t>>) IN
       IF Len(m.ts) = 1 THEN a ELSE Ok(OMulti(m.ts), m.i)

\* return_type = standard_types | "(" multi ")"
PRet(s, i) ==
  LET a == PStd(s, i) IN
  IF a.ok THEN a
  ELSE IF Tok(s, i) # "(" THEN Fail
  ELSE LET b == PStd(s, i + 1) IN
       IF ~b.ok THEN Fail
       ELSE LET m == PMore(s, b.i, "|", <<b.t>>) IN
            IF Len(m.ts) >= 2 /\ Tok(s, m.i) = ")" THEN Ok(OMulti(m.ts), m.i + 1) ELSE Fail

\* function_type = "(" (type ("," type)*)? ")" "->" return_type
PFnType(s, i) ==
  LET first == PType(s, i + 1)
      ps == IF first.ok THEN PMore(s, first.i, ",", <<first.t>>) ELSE [ts |-> <<>>, i |-> i + 1]
  IN IF Tok(s, ps.i) = ")" /\ Tok(s, ps.i + 1) = "->"
     THEN LET r == PRet(s, ps.i + 2) IN IF r.ok THEN Ok(Fn(ps.ts, r.t), r.i) ELSE Fail
     ELSE Fail

\* tuple_type = "(" type ("," type)+ ")"
PTupleType(s, i) ==
  LET first == PType(s, i + 1) IN
  IF ~first.ok THEN Fail
  ELSE LET m == PMore(s, first.i, ",", <<first.t>>) IN
       IF Len(m.ts) >= 2 /\ Tok(s, m.i) = ")" THEN Ok(Tup(m.ts), m.i + 1) ELSE Fail

\* array_type = "[" type? "]"
PArrayType(s, i) ==
  LET e == PType(s, i + 1) IN
  IF e.ok THEN (IF Tok(s, e.i) = "]" THEN Ok(Arr(e.t), e.i + 1) ELSE Fail)
  ELSE IF Tok(s, i + 1) = "]" THEN Ok(Arr(TNever), i + 2) ELSE Fail

\* ident ":" type
PField(s, i) ==
  IF IsIdent(Tok(s, i)) /\ Tok(s, i + 1) = ":"
  THEN LET r == PType(s, i + 2) IN IF r.ok THEN Ok(OField(s[i], r.t), r.i) ELSE Fail
  ELSE Fail

PFieldsMore(s, i, acc) ==
  IF Tok(s, i) # "," THEN [ts |-> acc, i |-> i]
  ELSE LET r == PField(s, i + 1) IN
       IF r.ok THEN PFieldsMore(s, r.i, Append(acc, r.t)) ELSE [ts |-> acc, i |-> i]

\* struct_type = "struct" "{" (ident_type ("," ident_type)*)? "}"
PStructType(s, i) ==
  IF Tok(s, i + 1) # "{" THEN Fail
  ELSE LET f == PField(s, i + 2)
           fs == IF f.ok THEN PFieldsMore(s, f.i, <<f.t>>) ELSE [ts |-> <<>>, i |-> i + 2]
       IN IF Tok(s, fs.i) = "}" THEN Ok(OStruct(fs.ts), fs.i + 1) ELSE Fail

\* standard_types: bool | int | float | string | function_type | void | array_type | tuple_type
\*                 | any | never | mut_type | struct_type      (ordered; only the three
\*                 alternatives that start with "(" overlap, and they are tried in this order)
PStd(s, i) ==
  LET t == Tok(s, i) IN
  IF t \in {"bool", "int", "float", "string"} THEN Ok(Base(t), i + 1)
  ELSE IF t = "(" THEN
         LET f == PFnType(s, i) IN
         IF f.ok THEN f
         ELSE IF Tok(s, i + 1) = ")" THEN Ok(TVoid, i + 2)
         ELSE PTupleType(s, i)
  ELSE IF t = "[" THEN PArrayType(s, i)
  ELSE IF t = "any" THEN Ok(TAny, i + 1)
  ELSE IF t = "!" THEN Ok(TNever, i + 1)
  ELSE IF t = "mut" THEN LET r == PRet(s, i + 1) IN IF r.ok THEN Ok(MutT(r.t), r.i) ELSE Fail
  ELSE IF t = "struct" THEN PStructType(s, i)
  ELSE Fail

ParseTree(toks) == PType(toks, 1)
ParsesWhole(toks) == LET r == ParseTree(toks) IN r.ok /\ r.i = Len(toks) + 1
\* Type::from_str: the type of the longest prefix the grammar accepts
ParseType(toks) == LET r == ParseTree(toks) IN
                   IF r.ok THEN [k |-> "some", t |-> Denote(r.t), rest |-> r.i] ELSE None

(***************************************************************************)
(* Laws (C15).                                                              *)
(***************************************************************************)
\* the whole text is consumed, the tree is the ordering that was printed, and it denotes T
RoundTrip(T) ==
  \A o \in Orderings(T) :
     LET s == PrintType(T, o)
         r == ParseTree(s)
     IN r.ok /\ r.i = Len(s) + 1 /\ r.t = o /\ Denote(r.t) = T /\ ParseType(s).t = T

\* the design-level statement that the text determines the type
Disjoint(T1, T2) == PrintSet(T1) \cap PrintSet(T2) = {}
Unambiguous(S) == \A T1, T2 \in S : T1 # T2 => Disjoint(T1, T2)

\* the parentheses are needed: wherever the printer adds them, the text without them is not a text of T
ParensNeeded(T) ==
  \A o \in Orderings(T) :
     LET s0 == PrintOT(o, FALSE) IN
     s0 # PrintOT(o, TRUE) =>
        LET r == ParseTree(s0) IN ~(r.ok /\ r.i = Len(s0) + 1 /\ Denote(r.t) = T)

\* type_filter.rs pastes the text into `() -> (bool, T) {' and `value: T = value'
FilterContext(T) ==
  \A o \in Orderings(T) :
     LET s == <<"(", ")", "->", "(", "bool", ",">> \o PrintType(T, o) \o <<")", "{">>
         r == ParseTree(s)
         v == PField(<<"value", ":">> \o PrintType(T, o) \o <<"=", "value">>, 1)
     IN /\ r.ok /\ Denote(r.t) = Fn(<<>>, Tup(<<TBool, T>>)) /\ Tok(s, r.i) = "{"
        /\ v.ok /\ Denote(v.t.t) = T /\ v.i = Len(PrintType(T, o)) + 3

\* membership of a text in PrintSet(T) without enumerating the orderings: the text must be
\* the print of its own parse tree, and that tree must be an ordering of T
RECURSIVE NoRepeats(_)
NoRepeats(o) ==
  CASE o.k \in {"array", "mut"} -> NoRepeats(o.e)
    [] o.k = "tuple" -> \A i \in 1..Len(o.es) : NoRepeats(o.es[i])
    [] o.k = "fn" -> NoRepeats(o.r) /\ \A i \in 1..Len(o.ps) : NoRepeats(o.ps[i])
    [] o.k = "struct" -> /\ \A i, j \in 1..Len(o.fs) : i # j => o.fs[i].n # o.fs[j].n
                         /\ \A i \in 1..Len(o.fs) : NoRepeats(o.fs[i].t)
    [] o.k = "multi" -> /\ \A i \in 1..Len(o.ms) : NoRepeats(o.ms[i]) /\ o.ms[i].k \notin {"any", "never"}
                        /\ \A i, j \in 1..Len(o.ms) : i # j => Denote(o.ms[i]) # Denote(o.ms[j])
    [] OTHER -> TRUE
InPrintSet(toks, T) ==
  LET r == ParseTree(toks) IN
  r.ok /\ r.i = Len(toks) + 1 /\ PrintOT(r.t, TRUE) = toks /\ NoRepeats(r.t) /\ Denote(r.t) = T
MembershipAgrees(T) == \A o \in Orderings(T) : InPrintSet(PrintType(T, o), T)

\* a type for which Variable::of_type has an answer (type_filter.rs unwraps it; `it ? !' is a known
\* C02 finding, not C15's business)
RECURSIVE HasDefault(_)
HasDefault(t) ==
  CASE t.k = "never" -> FALSE
    [] t.k = "mut" -> HasDefault(t.e)
    [] t.k = "fn" -> HasDefault(t.r)       \* Function::of_type needs a value to return
    [] t.k = "tuple" -> \A i \in 1..Len(t.es) : HasDefault(t.es[i])
    [] t.k = "struct" -> \A f \in DOMAIN t.fs : HasDefault(t.fs[f])
    [] t.k = "multi" -> \A m \in t.ms : HasDefault(m)
    [] OTHER -> TRUE

=============================================================================
