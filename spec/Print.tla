------------------------------- MODULE Print -------------------------------
(***************************************************************************)
(* Text forms of SimpleSL types (C15) and of first-order values (C20).      *)
(*                                                                           *)
(* Part 1 - types.  The text of a type is a TOKEN SEQUENCE (strings):        *)
(*   "bool" "int" "float" "string" "any" "!" "mut" "struct" "(" ")" "[" "]"  *)
(*   "{" "}" "," "|" "->" ":" and field names.  `()' is "(" ")".             *)
(* A union is a set and a struct is a map, so one type has several texts:   *)
(* an ORDERING of T is a syntax tree (an ordered type: "multi" carries a    *)
(* sequence of members, "struct" a sequence of [n, t] fields) that denotes  *)
(* T.  PrintType(T, o) is the text the grammar prescribes for T under the   *)
(* ordering o; PrintSet(T) collects all orderings.  ParseTree transcribes   *)
(* the PEG rules type / multi / standard_types / return_type / mut_type /   *)
(* function_type / tuple_type / array_type / struct_type of simplesl.pest   *)
(* (ordered choice, greedy repetition, no back-tracking into a repetition); *)
(* Denote is what `Type::from(pair)' does with the tree (unions folded with *)
(* Join, fields collected into a map).  The property:                       *)
(*    ParseType(PrintType(T, o)) = T   for every T and every ordering o     *)
(* and its corollary Unambiguous (distinct types have disjoint PrintSets).  *)
(*                                                                           *)
(* Part 2 - values.  See below.                                              *)
(***************************************************************************)
EXTENDS Types

(***************************************************************************)
(* Small helpers.                                                           *)
(***************************************************************************)
RECURSIVE SepBy(_, _)
SepBy(parts, sep) ==     \* parts: sequence of token sequences
  IF Len(parts) = 0 THEN <<>>
  ELSE IF Len(parts) = 1 THEN parts[1]
  ELSE parts[1] \o sep \o SepBy(Tail(parts), sep)

RECURSIVE SeqProd(_)
SeqProd(SS) ==           \* SS: sequence of sets; all sequences choosing one element of each
  IF Len(SS) = 0 THEN {<<>>}
  ELSE {<<h>> \o t : h \in Head(SS), t \in SeqProd(Tail(SS))}

\* Type::concat folded from the left, as `reduce(Type::concat)' does
RECURSIVE JoinLeftFrom(_, _, _)
JoinLeftFrom(acc, ts, i) == IF i > Len(ts) THEN acc ELSE JoinLeftFrom(Join(acc, ts[i]), ts, i + 1)
JoinLeft(ts) == IF Len(ts) = 0 THEN TNever ELSE JoinLeftFrom(ts[1], ts, 2)

(***************************************************************************)
(* Ordered types (syntax trees).                                            *)
(***************************************************************************)
OMulti(ms)  == [k |-> "multi", ms |-> ms]        \* ms: sequence, length >= 2
OStruct(fs) == [k |-> "struct", fs |-> fs]       \* fs: sequence of [n |-> name, t |-> tree]
OField(n, t) == [n |-> n, t |-> t]

RECURSIVE Orderings(_)
Orderings(t) ==
  CASE t.k \in {"array", "mut"} -> {[k |-> t.k, e |-> o] : o \in Orderings(t.e)}
    [] t.k = "tuple" -> {Tup(es) : es \in SeqProd([i \in 1..Len(t.es) |-> Orderings(t.es[i])])}
    [] t.k = "fn" -> {Fn(ps, r) : ps \in SeqProd([i \in 1..Len(t.ps) |-> Orderings(t.ps[i])]),
                                   r \in Orderings(t.r)}
    [] t.k = "struct" ->
         UNION {{OStruct([i \in 1..Len(p) |-> OField(p[i], ts[i])]) :
                    ts \in SeqProd([i \in 1..Len(p) |-> Orderings(t.fs[p[i]])])} :
                p \in Perms(DOMAIN t.fs)}
    [] t.k = "multi" ->
         UNION {{OMulti(ms) : ms \in SeqProd([i \in 1..Len(p) |-> Orderings(p[i])])} :
                p \in Perms(t.ms)}
    [] OTHER -> {t}

\* the number of orderings, computed without enumerating them (saturating at OCap)
OCap == 10000
SatMul(a, b) == IF a >= OCap \/ b >= OCap THEN OCap ELSE IF a * b > OCap THEN OCap ELSE a * b
RECURSIVE Factorial(_)
Factorial(n) == IF n <= 1 THEN 1 ELSE SatMul(n, Factorial(n - 1))
RECURSIVE OrderingCount(_)
OrderingCount(t) ==
  LET RECURSIVE Prod(_, _)
      Prod(ts, i) == IF i > Len(ts) THEN 1 ELSE SatMul(OrderingCount(ts[i]), Prod(ts, i + 1))
  IN CASE t.k \in {"array", "mut"} -> OrderingCount(t.e)
       [] t.k = "tuple" -> Prod(t.es, 1)
       [] t.k = "fn" -> SatMul(Prod(t.ps, 1), OrderingCount(t.r))
       [] t.k = "struct" -> SatMul(Factorial(Cardinality(DOMAIN t.fs)),
                                   LET ns == SetToSeq(DOMAIN t.fs) IN
                                   Prod([i \in 1..Len(ns) |-> t.fs[ns[i]]], 1))
       [] t.k = "multi" -> SatMul(Factorial(Cardinality(t.ms)), Prod(SetToSeq(t.ms), 1))
       [] OTHER -> 1

\* what Type::from(pair) builds from a syntax tree
RECURSIVE Denote(_)
Denote(o) ==
  CASE o.k \in {"array", "mut"} -> [k |-> o.k, e |-> Denote(o.e)]
    [] o.k = "tuple" -> Tup([i \in 1..Len(o.es) |-> Denote(o.es[i])])
    [] o.k = "fn" -> Fn([i \in 1..Len(o.ps) |-> Denote(o.ps[i])], Denote(o.r))
    [] o.k = "struct" ->      \* collected into a HashMap: a later field of the same name wins
         LET names == {o.fs[i].n : i \in 1..Len(o.fs)}
             last(n) == CHOOSE i \in 1..Len(o.fs) :
                           o.fs[i].n = n /\ \A j \in (i + 1)..Len(o.fs) : o.fs[j].n # n
         IN Struct([n \in names |-> Denote(o.fs[last(n)].t)])
    [] o.k = "multi" -> JoinLeft([i \in 1..Len(o.ms) |-> Denote(o.ms[i])])
    [] OTHER -> o

(***************************************************************************)
(* The printer.  par = TRUE is the grammar's text: a union is put in         *)
(* parentheses inside a function result and inside `mut' (the two places    *)
(* where the grammar asks for return_type), nowhere else; [!] is `[]'.       *)
(* par = FALSE leaves the parentheses out (used to state that they matter). *)
(***************************************************************************)
RECURSIVE PrintOT(_, _)
PrintOT(o, par) ==
  LET P(x) == PrintOT(x, par)
      Guard(x) == IF x.k = "multi" /\ par THEN <<"(">> \o P(x) \o <<")">> ELSE P(x)
      List(xs) == SepBy([i \in 1..Len(xs) |-> P(xs[i])], <<",">>)
  IN CASE o.k \in {"bool", "int", "float", "string", "any"} -> <<o.k>>
       [] o.k = "void"   -> <<"(", ")">>
       [] o.k = "never"  -> <<"!">>
       [] o.k = "array"  -> IF o.e.k = "never" THEN <<"[", "]">> ELSE <<"[">> \o P(o.e) \o <<"]">>
       [] o.k = "mut"    -> <<"mut">> \o Guard(o.e)
       [] o.k = "tuple"  -> <<"(">> \o List(o.es) \o <<")">>
       [] o.k = "fn"     -> <<"(">> \o List(o.ps) \o <<")", "->">> \o Guard(o.r)
       [] o.k = "struct" -> <<"struct", "{">>
                            \o SepBy([i \in 1..Len(o.fs) |-> <<o.fs[i].n, ":">> \o P(o.fs[i].t)], <<",">>)
                            \o <<"}">>
       [] o.k = "multi"  -> SepBy([i \in 1..Len(o.ms) |-> P(o.ms[i])], <<"|">>)

IsOrderingOf(o, T) == o \in Orderings(T)
PrintType(T, o) == PrintOT(o, TRUE)              \* defined for IsOrderingOf(o, T)
PrintSet(T) == {PrintOT(o, TRUE) : o \in Orderings(T)}

(***************************************************************************)
(* The parser: PEG rules over token sequences.  Results are                 *)
(* [ok |-> FALSE] or [ok |-> TRUE, t |-> tree, i |-> index of next token].  *)
(* `type = multi | standard_types' with `multi = std ("|" std)+' is written *)
(* as std followed by the greedy tail ("|" std)* - the same language and    *)
(* the same tree, because the first std is parsed identically by both       *)
(* alternatives.                                                            *)
(***************************************************************************)
Reserved == {"bool", "int", "float", "string", "any", "!", "mut", "struct", "(", ")", "[", "]",
             "{", "}", ",", "|", "->", ":", "$"}
IsIdent(tok) == tok \notin Reserved
Tok(s, i) == IF i <= Len(s) THEN s[i] ELSE "$"
Fail == [ok |-> FALSE]
Ok(t, i) == [ok |-> TRUE, t |-> t, i |-> i]

RECURSIVE PType(_, _), PStd(_, _), PRet(_, _), PMore(_, _, _, _), PFnType(_, _), PTupleType(_, _),
          PArrayType(_, _), PStructType(_, _), PField(_, _), PFieldsMore(_, _, _)

\* greedy (sep x)* ; x = standard_types after "|", type after ","
PMore(s, i, sep, acc) ==
  IF Tok(s, i) # sep THEN [ts |-> acc, i |-> i]
  ELSE LET r == IF sep = "|" THEN PStd(s, i + 1) ELSE PType(s, i + 1) IN
       IF r.ok THEN PMore(s, r.i, sep, Append(acc, r.t)) ELSE [ts |-> acc, i |-> i]

PType(s, i) ==
  LET a == PStd(s, i) IN
  IF ~a.ok THEN Fail
  ELSE LET m == PMore(s, a.i, "|", <<a.t>>) IN
       IF Len(m.ts) = 1 THEN a ELSE Ok(OMulti(m.ts), m.i)

\* return_type = standard_types | "(" multi ")"
PRet(s, i) ==
  LET a == PStd(s, i) IN
  IF a.ok THEN a
  ELSE IF Tok(s, i) # "(" THEN Fail
  ELSE LET b == PStd(s, i + 1) IN
       IF ~b.ok THEN Fail
       ELSE LET m == PMore(s, b.i, "|", <<b.t>>) IN
            IF Len(m.ts) >= 2 /\ Tok(s, m.i) = ")" THEN Ok(OMulti(m.ts), m.i + 1) ELSE Fail

\* function_type = "(" (type ("," type)*)? ")" "->" return_type
PFnType(s, i) ==
  LET first == PType(s, i + 1)
      ps == IF first.ok THEN PMore(s, first.i, ",", <<first.t>>) ELSE [ts |-> <<>>, i |-> i + 1]
  IN IF Tok(s, ps.i) = ")" /\ Tok(s, ps.i + 1) = "->"
     THEN LET r == PRet(s, ps.i + 2) IN IF r.ok THEN Ok(Fn(ps.ts, r.t), r.i) ELSE Fail
     ELSE Fail

\* tuple_type = "(" type ("," type)+ ")"
PTupleType(s, i) ==
  LET first == PType(s, i + 1) IN
  IF ~first.ok THEN Fail
  ELSE LET m == PMore(s, first.i, ",", <<first.t>>) IN
       IF Len(m.ts) >= 2 /\ Tok(s, m.i) = ")" THEN Ok(Tup(m.ts), m.i + 1) ELSE Fail

\* array_type = "[" type? "]"
PArrayType(s, i) ==
  LET e == PType(s, i + 1) IN
  IF e.ok THEN (IF Tok(s, e.i) = "]" THEN Ok(Arr(e.t), e.i + 1) ELSE Fail)
  ELSE IF Tok(s, i + 1) = "]" THEN Ok(Arr(TNever), i + 2) ELSE Fail

\* ident ":" type
PField(s, i) ==
  IF IsIdent(Tok(s, i)) /\ Tok(s, i + 1) = ":"
  THEN LET r == PType(s, i + 2) IN IF r.ok THEN Ok(OField(s[i], r.t), r.i) ELSE Fail
  ELSE Fail

PFieldsMore(s, i, acc) ==
  IF Tok(s, i) # "," THEN [ts |-> acc, i |-> i]
  ELSE LET r == PField(s, i + 1) IN
       IF r.ok THEN PFieldsMore(s, r.i, Append(acc, r.t)) ELSE [ts |-> acc, i |-> i]

\* struct_type = "struct" "{" (ident_type ("," ident_type)*)? "}"
PStructType(s, i) ==
  IF Tok(s, i + 1) # "{" THEN Fail
  ELSE LET f == PField(s, i + 2)
           fs == IF f.ok THEN PFieldsMore(s, f.i, <<f.t>>) ELSE [ts |-> <<>>, i |-> i + 2]
       IN IF Tok(s, fs.i) = "}" THEN Ok(OStruct(fs.ts), fs.i + 1) ELSE Fail

\* standard_types: bool | int | float | string | function_type | void | array_type | tuple_type
\*                 | any | never | mut_type | struct_type      (ordered; only the three
\*                 alternatives that start with "(" overlap, and they are tried in this order)
PStd(s, i) ==
  LET t == Tok(s, i) IN
  IF t \in {"bool", "int", "float", "string"} THEN Ok(Base(t), i + 1)
  ELSE IF t = "(" THEN
         LET f == PFnType(s, i) IN
         IF f.ok THEN f
         ELSE IF Tok(s, i + 1) = ")" THEN Ok(TVoid, i + 2)
         ELSE PTupleType(s, i)
  ELSE IF t = "[" THEN PArrayType(s, i)
  ELSE IF t = "any" THEN Ok(TAny, i + 1)
  ELSE IF t = "!" THEN Ok(TNever, i + 1)
  ELSE IF t = "mut" THEN LET r == PRet(s, i + 1) IN IF r.ok THEN Ok(MutT(r.t), r.i) ELSE Fail
  ELSE IF t = "struct" THEN PStructType(s, i)
  ELSE Fail

ParseTree(toks) == PType(toks, 1)
ParsesWhole(toks) == LET r == ParseTree(toks) IN r.ok /\ r.i = Len(toks) + 1
\* Type::from_str: the type of the longest prefix the grammar accepts
ParseType(toks) == LET r == ParseTree(toks) IN
                   IF r.ok THEN [k |-> "some", t |-> Denote(r.t), rest |-> r.i] ELSE None

(***************************************************************************)
(* Laws (C15).                                                              *)
(***************************************************************************)
\* the whole text is consumed, the tree is the ordering that was printed, and it denotes T
RoundTrip(T) ==
  \A o \in Orderings(T) :
     LET s == PrintType(T, o)
         r == ParseTree(s)
     IN r.ok /\ r.i = Len(s) + 1 /\ r.t = o /\ Denote(r.t) = T /\ ParseType(s).t = T

\* the design-level statement that the text determines the type
Disjoint(T1, T2) == PrintSet(T1) \cap PrintSet(T2) = {}
Unambiguous(S) == \A T1, T2 \in S : T1 # T2 => Disjoint(T1, T2)

\* the parentheses are needed: wherever the printer adds them, the text without them is not a text of T
ParensNeeded(T) ==
  \A o \in Orderings(T) :
     LET s0 == PrintOT(o, FALSE) IN
     s0 # PrintOT(o, TRUE) =>
        LET r == ParseTree(s0) IN ~(r.ok /\ r.i = Len(s0) + 1 /\ Denote(r.t) = T)

\* type_filter.rs pastes the text into `() -> (bool, T) {' and `value: T = value'
FilterContext(T) ==
  \A o \in Orderings(T) :
     LET s == <<"(", ")", "->", "(", "bool", ",">> \o PrintType(T, o) \o <<")", "{">>
         r == ParseTree(s)
         v == PField(<<"value", ":">> \o PrintType(T, o) \o <<"=", "value">>, 1)
     IN /\ r.ok /\ Denote(r.t) = Fn(<<>>, Tup(<<TBool, T>>)) /\ Tok(s, r.i) = "{"
        /\ v.ok /\ Denote(v.t.t) = T /\ v.i = Len(PrintType(T, o)) + 3

\* membership of a text in PrintSet(T) without enumerating the orderings: the text must be
\* the print of its own parse tree, and that tree must be an ordering of T
RECURSIVE NoRepeats(_)
NoRepeats(o) ==
  CASE o.k \in {"array", "mut"} -> NoRepeats(o.e)
    [] o.k = "tuple" -> \A i \in 1..Len(o.es) : NoRepeats(o.es[i])
    [] o.k = "fn" -> NoRepeats(o.r) /\ \A i \in 1..Len(o.ps) : NoRepeats(o.ps[i])
    [] o.k = "struct" -> /\ \A i, j \in 1..Len(o.fs) : i # j => o.fs[i].n # o.fs[j].n
                         /\ \A i \in 1..Len(o.fs) : NoRepeats(o.fs[i].t)
    [] o.k = "multi" -> /\ \A i \in 1..Len(o.ms) : NoRepeats(o.ms[i]) /\ o.ms[i].k \notin {"any", "never"}
                        /\ \A i, j \in 1..Len(o.ms) : i # j => Denote(o.ms[i]) # Denote(o.ms[j])
    [] OTHER -> TRUE
InPrintSet(toks, T) ==
  LET r == ParseTree(toks) IN
  r.ok /\ r.i = Len(toks) + 1 /\ PrintOT(r.t, TRUE) = toks /\ NoRepeats(r.t) /\ Denote(r.t) = T
MembershipAgrees(T) == \A o \in Orderings(T) : InPrintSet(PrintType(T, o), T)

\* Near misses: a text of the universe with one token removed (or replaced).  The parser model
\* must agree with the implementation on these too (accept / reject, the type denoted, how much
\* of the text is consumed); and whatever it accepts prints back to exactly the consumed prefix,
\* unless `!' was written inside array brackets (`[!]' is printed `[]').
DropTok(s, p) == SubSeq(s, 1, p - 1) \o SubSeq(s, p + 1, Len(s))
ReplaceTok(s, p, t) == SubSeq(s, 1, p - 1) \o <<t>> \o SubSeq(s, p + 1, Len(s))
HasExplicitNever(s) == \E i \in 1..(Len(s) - 2) : s[i] = "[" /\ s[i + 1] = "!" /\ s[i + 2] = "]"
ParsePrintsBack(toks) ==
  LET r == ParseTree(toks) IN
  r.ok => /\ r.i <= Len(toks) + 1
          /\ (HasExplicitNever(toks) \/ PrintOT(r.t, TRUE) = SubSeq(toks, 1, r.i - 1))

\* a type for which Variable::of_type has an answer (type_filter.rs unwraps it; `it ? !' is a known
\* C02 finding, not C15's business)
RECURSIVE HasDefault(_)
HasDefault(t) ==
  CASE t.k = "never" -> FALSE
    [] t.k = "mut" -> HasDefault(t.e)
    [] t.k = "fn" -> HasDefault(t.r)       \* Function::of_type needs a value to return
    [] t.k = "tuple" -> \A i \in 1..Len(t.es) : HasDefault(t.es[i])
    [] t.k = "struct" -> \A f \in DOMAIN t.fs : HasDefault(t.fs[f])
    [] t.k = "multi" -> \A m \in t.ms : HasDefault(m)
    [] OTHER -> TRUE


(***************************************************************************)
(* Part 2 - first-order values (C20).                                        *)
(*                                                                           *)
(* Values (field names carry one kind of value each, so that TLC can sort   *)
(* sets of them whatever order it gives the fields):                         *)
(*   [k |-> "bool", b |-> TRUE]                                              *)
(*   [k |-> "int", neg |-> FALSE, mag |-> <<4, 2>>]   decimal digits of the  *)
(*        magnitude, no leading zero; zero is <<0>> with neg = FALSE         *)
(*   [k |-> "float", neg |-> TRUE, fid |-> "zero"]    sign and the NAME of   *)
(*        the magnitude in the model's leaf table (-0.0 here)                *)
(*   [k |-> "string", sid |-> "nul_digit"]            NAME in the leaf table *)
(*   [k |-> "void"]  [k |-> "array", es |-> <<...>>]  [k |-> "tuple", es]    *)
(* The text of a value is a sequence of token RECORDS: punctuation           *)
(* [a |-> "p", c |-> "["], and atoms [a |-> "int", mag], [a |-> "float",     *)
(* fid], [a |-> "str", sid], [a |-> "bool", b].  PrintVal fixes brackets,    *)
(* separators and where the minus sign goes; the digits of a float and the   *)
(* escapes of a string are NOT modelled (TLA+ has neither IEEE-754 nor       *)
(* characters): an atom stands for "the literal of that leaf", and the       *)
(* oracle for a leaf's text is the round-trip equation itself, evaluated by  *)
(* the harness.  Integer literals are modelled to the digit: FromDigits      *)
(* gives the value of every literal form in 8 limbs of 8 bits with overflow  *)
(* detection (TLC's own integers are 32-bit).                                *)
(***************************************************************************)
LBool(b)       == [k |-> "bool", b |-> b]
LInt(neg, mag) == [k |-> "int", neg |-> neg, mag |-> mag]
LFloat(neg, f) == [k |-> "float", neg |-> neg, fid |-> f]
LStr(sid)      == [k |-> "string", sid |-> sid]
LVoid          == [k |-> "void"]
LArr(es)       == [k |-> "array", es |-> es]
LTup(es)       == [k |-> "tuple", es |-> es]
NormInt(neg, mag) == IF mag = <<0>> THEN LInt(FALSE, mag) ELSE LInt(neg, mag)

RECURSIVE WellFormedVal(_)
WellFormedVal(v) ==
  CASE v.k = "int" -> /\ Len(v.mag) >= 1 /\ \A i \in 1..Len(v.mag) : v.mag[i] \in 0..9
                      /\ (Len(v.mag) > 1 => v.mag[1] # 0) /\ (v.mag = <<0>> => ~v.neg)
    [] v.k = "array" -> \A i \in 1..Len(v.es) : WellFormedVal(v.es[i])
    [] v.k = "tuple" -> Len(v.es) >= 2 /\ \A i \in 1..Len(v.es) : WellFormedVal(v.es[i])
    [] OTHER -> TRUE

\* run-time tag of a literal value: an array's hidden element type is the join of its elements'
RECURSIVE VTag(_)
VTag(v) ==
  CASE v.k = "array" -> Arr(JoinLeft([i \in 1..Len(v.es) |-> VTag(v.es[i])]))
    [] v.k = "tuple" -> Tup([i \in 1..Len(v.es) |-> VTag(v.es[i])])
    [] OTHER -> Base(v.k)

Pn(c) == [a |-> "p", c |-> c]
AtomInt(mag) == [a |-> "int", mag |-> mag]
AtomFloat(f) == [a |-> "float", fid |-> f]
AtomStr(sid) == [a |-> "str", sid |-> sid]
AtomBool(b)  == [a |-> "bool", b |-> b]

RECURSIVE PrintVal(_)
PrintVal(v) ==
  LET List(es) == SepBy([i \in 1..Len(es) |-> PrintVal(es[i])], <<Pn(",")>>)
      Sign == IF v.neg THEN <<Pn("-")>> ELSE <<>>
  IN CASE v.k = "bool"   -> <<AtomBool(v.b)>>
       [] v.k = "int"    -> Sign \o <<AtomInt(v.mag)>>
       [] v.k = "float"  -> Sign \o <<AtomFloat(v.fid)>>
       [] v.k = "string" -> <<AtomStr(v.sid)>>
       [] v.k = "void"   -> <<Pn("("), Pn(")")>>
       [] v.k = "array"  -> <<Pn("[")>> \o List(v.es) \o <<Pn("]")>>
       [] v.k = "tuple"  -> <<Pn("(")>> \o List(v.es) \o <<Pn(")")>>

(***************************************************************************)
(* Integer magnitudes: 8 little-endian limbs of 8 bits.                      *)
(***************************************************************************)
Limbs0 == <<0, 0, 0, 0, 0, 0, 0, 0>>
MulAdd(l, radix, d) ==       \* l * radix + d; c = carry out of the 64 bits
  LET RECURSIVE Go(_, _, _)
      Go(i, carry, acc) == IF i > 8 THEN [l |-> acc, c |-> carry]
                           ELSE LET x == l[i] * radix + carry IN Go(i + 1, x \div 256, Append(acc, x % 256))
  IN Go(1, d, <<>>)
RECURSIVE FromDigitsFrom(_, _, _, _)
FromDigitsFrom(ds, radix, i, acc) ==
  IF i > Len(ds) THEN [ok |-> TRUE, l |-> acc]
  ELSE LET r == MulAdd(acc, radix, ds[i]) IN
       IF r.c # 0 THEN [ok |-> FALSE] ELSE FromDigitsFrom(ds, radix, i + 1, r.l)
\* the mathematical value of a digit sequence as an unsigned 64-bit magnitude, or not ok
FromDigits(ds, radix) == FromDigitsFrom(ds, radix, 1, Limbs0)
MinMagLimbs == <<0, 0, 0, 0, 0, 0, 0, 128>>                  \* 2^63
FitsPos(m) == m.ok /\ m.l[8] < 128                            \* 0 .. 2^63 - 1
FitsNeg(m) == m.ok /\ (m.l[8] < 128 \/ m.l = MinMagLimbs)     \* magnitude of MIN .. 0
TwosNeg(l) ==
  LET RECURSIVE Go(_, _, _)
      Go(i, carry, acc) == IF i > 8 THEN acc
                           ELSE LET x == (255 - l[i]) + carry IN Go(i + 1, x \div 256, Append(acc, x % 256))
  IN Go(1, 1, <<>>)
SignedLimbs(neg, l) == IF neg THEN TwosNeg(l) ELSE l
\* for validating the limb algorithm against TLC's integers on small values
LimbsToNat(l) == l[1] + 256 * l[2] + 65536 * l[3] + 16777216 * l[4]
RECURSIVE Horner(_, _, _, _)
Horner(ds, radix, i, acc) == IF i > Len(ds) THEN acc ELSE Horner(ds, radix, i + 1, acc * radix + ds[i])

\* what an int leaf denotes on each route
IntOkSigned(v) == IF v.neg THEN FitsNeg(FromDigits(v.mag, 10)) ELSE FitsPos(FromDigits(v.mag, 10))
IntOkMagnitude(v) == FitsPos(FromDigits(v.mag, 10))
RECURSIVE AllIntsSigned(_), AllIntsMagnitude(_)
AllIntsSigned(v) ==
  CASE v.k = "int" -> IntOkSigned(v)
    [] v.k \in {"array", "tuple"} -> \A i \in 1..Len(v.es) : AllIntsSigned(v.es[i])
    [] OTHER -> TRUE
AllIntsMagnitude(v) ==
  CASE v.k = "int" -> IntOkMagnitude(v)
    [] v.k \in {"array", "tuple"} -> \A i \in 1..Len(v.es) : AllIntsMagnitude(v.es[i])
    [] OTHER -> TRUE

(***************************************************************************)
(* The two readers.  Results: [ok |-> FALSE] or [ok |-> TRUE, v, i].         *)
(*  - LitAt: the rule var_from_str of simplesl.pest (Variable::from_str):    *)
(*    bool | minus_float | float | minus_int | int | array_from_str |        *)
(*    array_repeat_from_str | string | void | tuple_from_str | struct...     *)
(*  - ProgAt: the expression grammar restricted to what a printed value can  *)
(*    contain: atom = prefix_op? primary, primary = literal | array | tuple  *)
(*    | "(" expr ")"; unary minus negates the value of its operand.          *)
(* Both parse first and convert integers afterwards, so "too big for int"    *)
(* is decided on the parsed value: with its sign by from_str (minus_int is   *)
(* part of the literal), on the bare magnitude by a program (the literal is  *)
(* the operand of a unary minus).                                            *)
(***************************************************************************)
IsP(s, i, c) == i <= Len(s) /\ s[i].a = "p" /\ s[i].c = c
IsA(s, i, a) == i <= Len(s) /\ s[i].a = a
FailV == [ok |-> FALSE]
OkV(v, i) == [ok |-> TRUE, v |-> v, i |-> i]

RECURSIVE LitAt(_, _), LitMore(_, _, _)
LitMore(s, i, acc) ==           \* greedy ("," var_from_str)*
  IF ~IsP(s, i, ",") THEN [vs |-> acc, i |-> i]
  ELSE LET r == LitAt(s, i + 1) IN
       IF r.ok THEN LitMore(s, r.i, Append(acc, r.v)) ELSE [vs |-> acc, i |-> i]
LitAt(s, i) ==
  IF IsA(s, i, "bool") THEN OkV(LBool(s[i].b), i + 1)
  ELSE IF IsP(s, i, "-") /\ IsA(s, i + 1, "float") THEN OkV(LFloat(TRUE, s[i + 1].fid), i + 2)
  ELSE IF IsA(s, i, "float") THEN OkV(LFloat(FALSE, s[i].fid), i + 1)
  ELSE IF IsP(s, i, "-") /\ IsA(s, i + 1, "int") THEN OkV(NormInt(TRUE, s[i + 1].mag), i + 2)
  ELSE IF IsA(s, i, "int") THEN OkV(LInt(FALSE, s[i].mag), i + 1)
  ELSE IF IsP(s, i, "[") THEN        \* "[" var_list? "]"   ("[v; n]" is never printed)
         LET first == LitAt(s, i + 1)
             l == IF first.ok THEN LitMore(s, first.i, <<first.v>>) ELSE [vs |-> <<>>, i |-> i + 1]
         IN IF IsP(s, l.i, "]") THEN OkV(LArr(l.vs), l.i + 1) ELSE FailV
  ELSE IF IsA(s, i, "str") THEN OkV(LStr(s[i].sid), i + 1)
  ELSE IF IsP(s, i, "(") /\ IsP(s, i + 1, ")") THEN OkV(LVoid, i + 2)
  ELSE IF IsP(s, i, "(") THEN        \* "(" var "," var_list ")"
         LET first == LitAt(s, i + 1) IN
         IF ~first.ok THEN FailV
         ELSE LET l == LitMore(s, first.i, <<first.v>>) IN
              IF Len(l.vs) >= 2 /\ IsP(s, l.i, ")") THEN OkV(LTup(l.vs), l.i + 1) ELSE FailV
  ELSE FailV

Negate(v) == IF v.k = "int" THEN NormInt(~v.neg, v.mag) ELSE LFloat(~v.neg, v.fid)
RECURSIVE ProgAt(_, _), PrimaryAt(_, _), ProgMore(_, _, _)
ProgMore(s, i, acc) ==
  IF ~IsP(s, i, ",") THEN [vs |-> acc, i |-> i]
  ELSE LET r == ProgAt(s, i + 1) IN
       IF r.ok THEN ProgMore(s, r.i, Append(acc, r.v)) ELSE [vs |-> acc, i |-> i]
ProgAt(s, i) ==
  IF IsP(s, i, "-") THEN
       LET r == PrimaryAt(s, i + 1) IN
       IF r.ok /\ r.v.k \in {"int", "float"} THEN OkV(Negate(r.v), r.i) ELSE FailV
  ELSE PrimaryAt(s, i)
PrimaryAt(s, i) ==                  \* var = bool | float | int | array | ... | string | ... | void | tuple
  IF IsA(s, i, "bool") THEN OkV(LBool(s[i].b), i + 1)
  ELSE IF IsA(s, i, "float") THEN OkV(LFloat(FALSE, s[i].fid), i + 1)
  ELSE IF IsA(s, i, "int") THEN OkV(LInt(FALSE, s[i].mag), i + 1)
  ELSE IF IsP(s, i, "[") THEN
         LET first == ProgAt(s, i + 1)
             l == IF first.ok THEN ProgMore(s, first.i, <<first.v>>) ELSE [vs |-> <<>>, i |-> i + 1]
         IN IF IsP(s, l.i, "]") THEN OkV(LArr(l.vs), l.i + 1) ELSE FailV
  ELSE IF IsA(s, i, "str") THEN OkV(LStr(s[i].sid), i + 1)
  ELSE IF IsP(s, i, "(") /\ IsP(s, i + 1, ")") THEN OkV(LVoid, i + 2)
  ELSE IF IsP(s, i, "(") THEN
         LET first == ProgAt(s, i + 1) IN
         IF ~first.ok THEN FailV
         ELSE LET l == ProgMore(s, first.i, <<first.v>>) IN
              IF ~IsP(s, l.i, ")") THEN FailV
              ELSE IF Len(l.vs) >= 2 THEN OkV(LTup(l.vs), l.i + 1)
              ELSE OkV(first.v, l.i + 1)                      \* expr_in_brackets
  ELSE FailV

Syntax == [st |-> "syntax"]
Overflow == [st |-> "overflow"]
Denotes(v) == [st |-> "ok", v |-> v]
FromStrOutcome(toks) ==
  LET r == LitAt(toks, 1) IN
  IF ~(r.ok /\ r.i = Len(toks) + 1) THEN Syntax
  ELSE IF ~AllIntsSigned(r.v) THEN Overflow ELSE Denotes(r.v)
\* in a program the magnitudes are literals of their own: judged before the minus is applied
ProgOutcome(toks) ==
  LET r == ProgAt(toks, 1) IN
  IF ~(r.ok /\ r.i = Len(toks) + 1) THEN Syntax
  ELSE IF ~AllIntsMagnitude(r.v) THEN Overflow ELSE Denotes(r.v)

(***************************************************************************)
(* Laws (C20).                                                              *)
(***************************************************************************)
MinMag == <<9, 2, 2, 3, 3, 7, 2, 0, 3, 6, 8, 5, 4, 7, 7, 5, 8, 0, 8>>
IsMinInt(v) == v.k = "int" /\ v.neg /\ v.mag = MinMag
RECURSIVE ContainsMinInt(_)
ContainsMinInt(v) == CASE v.k = "int" -> IsMinInt(v)
                       [] v.k \in {"array", "tuple"} -> \E i \in 1..Len(v.es) : ContainsMinInt(v.es[i])
                       [] OTHER -> FALSE
\* an int of the language: representable with its sign
IsI64(v) == IntOkSigned(v)
\* the text parses back, as a literal, to the value (hence to the same tag)
LitRoundTrip(v) == FromStrOutcome(PrintVal(v)) = Denotes(v)
\* ... and as a program, except that MIN_INT's magnitude is not an int: then the program is rejected
ProgRoundTrip(v) == ProgOutcome(PrintVal(v)) = IF ContainsMinInt(v) THEN Overflow ELSE Denotes(v)
\* MIN_INT is the only int whose magnitude is not an int
MinIntOnly(v) == (v.k = "int" /\ IsI64(v)) => (IsMinInt(v) <=> ~IntOkMagnitude(v))

\* near misses for the literal reader: whatever it accepts prints back to the text it was given
\* (a minus in front of 0 excepted: -0 is 0)
HasMinusZero(s) == \E i \in 1..(Len(s) - 1) : s[i] = Pn("-") /\ s[i + 1] = AtomInt(<<0>>)
LitPrintsBack(toks) ==
  LET o == FromStrOutcome(toks) IN
  o.st = "ok" => (HasMinusZero(toks) \/ PrintVal(o.v) = toks)

(***************************************************************************)
(* Integer literal forms: prefix, digits, underscores.                       *)
(*   binary = "_"* BIN (BIN | "_")*  (same for octal, hexadecimal)           *)
(*   decimal = DIGIT (DIGIT | "_")*                                          *)
(***************************************************************************)
DigitChars == <<"0", "1", "2", "3", "4", "5", "6", "7", "8", "9", "a", "b", "c", "d", "e", "f">>
UpperChars == <<"0", "1", "2", "3", "4", "5", "6", "7", "8", "9", "A", "B", "C", "D", "E", "F">>
DigitVal(ch) == IF \E d \in 1..16 : DigitChars[d] = ch THEN (CHOOSE d \in 1..16 : DigitChars[d] = ch) - 1
                ELSE IF \E d \in 1..16 : UpperChars[d] = ch THEN (CHOOSE d \in 1..16 : UpperChars[d] = ch) - 1
                ELSE -1
IsDigitIn(ch, radix) == DigitVal(ch) >= 0 /\ DigitVal(ch) < radix
LitPrefix(radix) == CASE radix = 2 -> <<"0", "b">> [] radix = 8 -> <<"0", "o">>
                      [] radix = 16 -> <<"0", "x">> [] radix = 10 -> <<>>
WellFormedBody(cs, radix) ==
  /\ Len(cs) >= 1
  /\ \A j \in 1..Len(cs) : cs[j] = "_" \/ IsDigitIn(cs[j], radix)
  /\ \E j \in 1..Len(cs) : cs[j] # "_"
  /\ (radix = 10 => cs[1] # "_")
BodyDigits(cs) == LET ds == SelectSeq(cs, LAMBDA c : c # "_") IN [i \in 1..Len(ds) |-> DigitVal(ds[i])]
\* [k |-> "int", l |-> two's complement limbs] or [k |-> "overflow"]
LitInt(l) == [k |-> "int", l |-> l]
LitOverflow == [k |-> "overflow"]
\* Variable::from_str: the sign is part of the literal (minus_int)
LitFromStr(neg, radix, body) ==
  LET m == FromDigits(BodyDigits(body), radix) IN
  IF (IF neg THEN FitsNeg(m) ELSE FitsPos(m)) THEN LitInt(SignedLimbs(neg, m.l)) ELSE LitOverflow
\* in a program the literal is the magnitude; a minus in front is an operator
LitInProgram(neg, radix, body) ==
  LET m == FromDigits(BodyDigits(body), radix) IN
  IF FitsPos(m) THEN LitInt(SignedLimbs(neg, m.l)) ELSE LitOverflow

\* digits of a 64-bit magnitude in radix 2, 8, 16 (most significant first, no leading zeros)
BitOf(l, j) == (l[(j \div 8) + 1] \div (2 ^ (j % 8))) % 2            \* j = 0 .. 63
ToRadix(l, radix) ==
  LET w == CASE radix = 2 -> 1 [] radix = 8 -> 3 [] radix = 16 -> 4
      n == (63 \div w) + 1
      dig(g) == LET RECURSIVE S(_) S(b) == IF b = w THEN 0
                                            ELSE (IF g * w + b <= 63 THEN BitOf(l, g * w + b) * (2 ^ b) ELSE 0) + S(b + 1)
                IN S(0)                                               \* digit number g, least significant = 0
      all == [i \in 1..n |-> dig(n - i)]
      first == IF \E i \in 1..n : all[i] # 0 THEN CHOOSE i \in 1..n : all[i] # 0 /\ \A j \in 1..(i - 1) : all[j] = 0 ELSE n
  IN SubSeq(all, first, n)
CharsOf(ds, upper) == [i \in 1..Len(ds) |-> IF upper THEN UpperChars[ds[i] + 1] ELSE DigitChars[ds[i] + 1]]

=============================================================================
