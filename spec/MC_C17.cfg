SPECIFICATION Spec
CONSTANTS
  MaxLen = 3
  Chunks = 8
INVARIANTS
  ReplEqualsBatch
  FailuresAgree
POSTCONDITION Emit
CHECK_DEADLOCK FALSE
