SPECIFICATION Spec
CONSTANTS
  Thorough = TRUE
  SamplePermille = 1000
INVARIANTS
  InvDomain
  InvTokensOnce
  InvUnique
  InvConserve
  InvAgree
  InvProgress
  InvLex
  InvTable
POSTCONDITION Emit
CHECK_DEADLOCK FALSE
