SPECIFICATION Spec
CONSTANTS
  N = 1
  B = 4
  Chunks = 4
INVARIANTS
  InvConst
  InvBool
  InvUnary
  InvBinary
  InvDiv
  InvShift
  InvPow
  InvTable
POSTCONDITION Done
CHECK_DEADLOCK FALSE
