SPECIFICATION TraceSpec
CONSTANTS
  Threads <- TrThreads
  Cells <- TrCells
  CellType <- TrCellType
  ProgSpace <- TrEmpty
  InitSpace <- TrEmpty
  RenderDepth = 6
  NestedRead = FALSE
  WriterPreferring = TRUE
  SplitGuards = FALSE
POSTCONDITION TraceAccepted
CHECK_DEADLOCK TRUE
