SPECIFICATION LinSpec
CONSTANTS
  Threads <- LnThreads
  Cells <- LnCells
  CellType <- LnCellType
  ProgSpace <- LnEmpty
  InitSpace <- LnEmpty
  RenderDepth = 6
  NestedRead = FALSE
  WriterPreferring = TRUE
  SplitGuards = FALSE
POSTCONDITION LinAccepted
CHECK_DEADLOCK FALSE
