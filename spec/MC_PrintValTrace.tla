-------------------------- MODULE MC_PrintValTrace --------------------------
(***************************************************************************)
(* impl -> spec for C20: the harness builds seeded random nested values      *)
(* beyond the enumerated bound (vh print genvals: random 64-bit ints, random *)
(* finite floats, strings over quotes, backslashes, NUL, digits, controls,   *)
(* combining marks, BMP and astral characters), prints each with {:?}, reads *)
(* the text back on both routes and records                                   *)
(*   {"v": value, "toks": tokens of the text, "from_str": .., "prog": ..}    *)
(* where v and the tokens use this module's records (ints as sign + decimal  *)
(* digits; float and string leaves as the opaque atoms "r": their text is    *)
(* judged by the round trip itself, which the harness evaluated: "ok" means  *)
(* parsed, bit-for-bit equal and of equal tag).  Every record is validated:  *)
(* the tokens are PrintVal(v), and each route answered what the              *)
(* specification says (value, or overflow where MIN_INT is inside).          *)
(***************************************************************************)
EXTENDS Print, Json, IOUtils

CONSTANTS Chunks
VARIABLE row

Rec == ndJsonDeserialize(IOEnv.VERIF_IN)
RN == Len(Rec)

Accept(i) ==
  LET v == Rec[i].v
      toks == Rec[i].toks
  IN /\ WellFormedVal(v) /\ AllIntsSigned(v)
     /\ PrintVal(v) = toks
     /\ LitRoundTrip(v) /\ ProgRoundTrip(v)
     /\ FromStrOutcome(toks).st = Rec[i].from_str
     /\ ProgOutcome(toks).st = Rec[i].prog

TraceInv == row > 0 => (Accept(row) \/ PrintT(<<"REJECT", row>>))

Init == row = 0
Next == \/ row = 0 /\ row' \in {-c : c \in 1..Chunks}
        \/ row < 0 /\ row' \in {i \in 1..RN : i % Chunks = (-row) % Chunks}
Spec == Init /\ [][Next]_row

AllSeen == /\ TLCGet("stats").distinct = RN + 1 + (IF RN >= Chunks THEN Chunks ELSE RN)
           /\ PrintT(<<"TRACE_RECORDS", RN>>)
=============================================================================
