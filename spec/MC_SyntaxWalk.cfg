SPECIFICATION WalkSpec
CONSTANTS
  Thorough = TRUE
  Den3 = 8
INVARIANTS
  WalkInv
  WalkEmitInv
  OutcomeInv
CHECK_DEADLOCK FALSE
