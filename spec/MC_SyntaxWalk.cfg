SPECIFICATION WalkSpec
CONSTANTS
  Thorough = TRUE
  Den3 = 8
  DenA = 1
INVARIANTS
  WalkInv
  WalkEmitInv
  OutcomeInv
CHECK_DEADLOCK FALSE
