SPECIFICATION Spec
CONSTANTS
  Config = "chain"
  T = 2
  K = 1
  Thorough = FALSE
  RenderDepth = 6
  NestedRead = FALSE
  WriterPreferring = TRUE
  SplitGuards = FALSE
  Threads <- MCThreads
  Cells <- MCCells
  CellType <- MCCellType
  ProgSpace <- MCProgSpace
  InitSpace <- MCInitSpace
INVARIANTS
  TypeOK
  MutualExclusion
  Linearizable
  ReturnsOwnUpdate
  NoLostUpdate
  IncrementsPermutation
  OutcomeIsSerial
  OutcomeInSerialSet
  IndependentRunsEqualSequential
  FailureLeavesContent
  QuiescentAtEnd
  NoOod
PROPERTIES
  LinearizableStep
  WritesOnlyUnderLock
POSTCONDITION Emit
CHECK_DEADLOCK TRUE
