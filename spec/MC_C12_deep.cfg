SPECIFICATION Spec
CONSTANTS
  Chunks = 8
  D = 3
  SampleMod = 37
INVARIANTS
  NoStuck
  DeadNeverLogged
  ReturnWins
POSTCONDITION Emit
CHECK_DEADLOCK FALSE
