SPECIFICATION Spec
CONSTANTS
  Thorough = FALSE
  Den3 = 32
  DenA = 16
INVARIANTS
  TokInv
  AstInv
  FoldInv
  OutcomeInv
  ContextInv
  EmitInv
POSTCONDITION Emit
CHECK_DEADLOCK FALSE
