SPECIFICATION Spec
CONSTANTS
  Thorough = FALSE
  Den3 = 48
  DenA = 24
INVARIANTS
  TokInv
  AstInv
  FoldInv
  OutcomeInv
  ContextInv
  EmitInv
POSTCONDITION Emit
CHECK_DEADLOCK FALSE
