SPECIFICATION Spec
CONSTANTS
  Thorough = FALSE
  Den3 = 16
INVARIANTS
  TokInv
  AstInv
  FoldInv
  OutcomeInv
  ContextInv
POSTCONDITION Emit
CHECK_DEADLOCK FALSE
