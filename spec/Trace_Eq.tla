------------------------------ MODULE Trace_Eq ------------------------------
(***************************************************************************)
(* Trace validation for C19 (implementation -> specification).  The harness *)
(* (`vh eqv record') generates seeded random contents (nesting up to 3,      *)
(* arrays up to length 4, tuples, structs over {a,b,c,d}, cells, functions),*)
(* builds x and y along random producer paths (y is the same content or a   *)
(* small mutation of it), and records the two VALUES THE IMPLEMENTATION     *)
(* PRODUCED (described by content; cells and functions numbered by          *)
(* identity) together with what it answered for x == y, x != y,             *)
(* match x { y => 1, => 0, } and y == x.  A record is accepted only if the  *)
(* four answers are the ones ValEq gives for the two observed values.       *)
(***************************************************************************)
EXTENDS Seqs, Json, IOUtils

Rec == ndJsonDeserialize(IOEnv.VERIF_IN)

VARIABLE l

Cur == Rec[l + 1]

StepEqual ==
  /\ l < Len(Rec) /\ Cur.op = "cmp"
  /\ ValEq(Cur.x, Cur.y)
  /\ Cur.eq = TRUE /\ Cur.ne = FALSE /\ Cur.arm = 1 /\ Cur.sym = TRUE
  /\ l' = l + 1

StepUnequal ==
  /\ l < Len(Rec) /\ Cur.op = "cmp"
  /\ ValNe(Cur.x, Cur.y)
  /\ Cur.eq = FALSE /\ Cur.ne = TRUE /\ Cur.arm = 0 /\ Cur.sym = FALSE
  /\ l' = l + 1

Init == l = 0
Next == StepEqual \/ StepUnequal
TraceSpec == Init /\ [][Next]_l

TraceAccepted ==
  LET d == TLCGet("stats").diameter IN
  IF d - 1 = Len(Rec) THEN PrintT(<<"ACCEPTED", Len(Rec)>>)
  ELSE PrintT(<<"REJECTED", d>>) /\ FALSE
=============================================================================
