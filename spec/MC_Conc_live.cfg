SPECIFICATION FairSpec
CONSTANTS
  Config = "live"
  T = 2
  K = 1
  Thorough = FALSE
  RenderDepth = 3
  NestedRead = FALSE
  WriterPreferring = TRUE
  SplitGuards = FALSE
  Threads <- MCThreads
  Cells <- MCCells
  CellType <- MCCellType
  ProgSpace <- MCProgSpace
  InitSpace <- MCInitSpace
INVARIANTS
  TypeOK
  MutualExclusion
  Linearizable
  ReturnsOwnUpdate
  NoLostUpdate
  IncrementsPermutation
  OutcomeIsSerial
  OutcomeInSerialSet
  IndependentRunsEqualSequential
  FailureLeavesContent
  QuiescentAtEnd
  NoOod
PROPERTIES
  LinearizableStep
  WritesOnlyUnderLock
  DeadlockFree
POSTCONDITION NoEmit
CHECK_DEADLOCK TRUE
