SPECIFICATION Spec
CONSTANTS
  Names = {"a", "b"}
  Vals = {1, 2}
  MaxDepth = 3
  MaxSteps = 6
INVARIANTS
  NearestWins
  DropRestores
  Emit
VIEW View
CHECK_DEADLOCK FALSE
