--------------------------- MODULE Trace_Stdlib ---------------------------
(***************************************************************************)
(* impl -> spec: validates observations recorded by `vh stdlibx ...'.       *)
(* One ndjson line per observation:                                         *)
(*   {"ev":"call", "name", "route", "args":[V..], "out":{"k":"value","v":V} *)
(*                  | {"k":"panic"|"error"|"rejected","msg":..}}            *)
(*   {"ev":"decl", "name", "kind":"fn"|"const", "t":T}   as_type() of a leaf *)
(*   {"ev":"stdin", "stdin":[bytes], "i", "n", "out":..}  i-th cgetline call *)
(* Each is judged by Stdlib!Judge (member of the declared result type by    *)
(* tag and content, equal to the documented result for the pure helpers -   *)
(* the prediction is RECOMPUTED here from the recorded arguments, so seeded *)
(* random arguments beyond TLC's enumerated bound are judged by the same    *)
(* definitions).  Rejected observations are printed, all of them.           *)
(*                                                                           *)
(* Two-level fan-out state machine (row 0 -> chunk -> record i) so that the *)
(* workers share the records.                                               *)
(***************************************************************************)
EXTENDS Stdlib, Json, IOUtils

CONSTANTS Chunks

VARIABLE row

Rec == ndJsonDeserialize(IOEnv.VERIF_IN)
CheckDecls == IOEnv.VERIF_DECLS = "1"    \* the input contains the complete `decl' listing
N == Len(Rec)

OutV(o) == IF o.k = "value" THEN [k |-> "value", v |-> ValOfWire(o.v)] ELSE [k |-> o.k]

Verdict(r) ==
  CASE r.ev = "call" ->
         IF r.name \notin ExportNames THEN Bad("not an export of the table")
         ELSE LET args == [j \in 1..Len(r.args) |-> ValOfWire(r.args[j])] IN
              IF ~ArgsAdmitted(r.name, args) THEN Bad("GENERATOR: arguments are not admitted by the declared parameter types")
              ELSE LET j == Judge(r.name, args, OutV(r.out)) IN
                   \* ... and the run-time type the implementation itself reports for the result (Variable::as_type) is a
                   \* subtype of the declared result type
                   IF j.ok /\ r.out.k = "value" /\ "tag" \in DOMAIN r.out /\ ~Matches(TypeOfWire(r.out.tag), Export(r.name).r)
                   THEN Bad("the run-time type of the result is not a subtype of the declared result type")
                   ELSE j
    [] r.ev = "decl" ->
         IF r.name \notin ExportNames THEN Bad("exported but not in the table of docs/stdlib.md")
         ELSE LET e == Export(r.name)
                  t == IF e.kind = "fn" THEN Fn(e.ps, e.r) ELSE e.r
              IN IF r.kind # e.kind THEN Bad("kind differs (function / constant)")
                 ELSE IF TypeOfWire(r.t) = t THEN Ok ELSE Bad("declared type differs from the table")
    [] r.ev = "stdin" ->
         LET o == OutV(r.out)
             exp == ReadLines(r.stdin, r.n)[r.i]
         IN IF o.k # "value" THEN Bad(o.k)
            ELSE IF ~Member(o.v, Export("std.io.cgetline").r) THEN Bad("not a member of the declared result type")
            ELSE IF exp.k = "exact" THEN (IF Strip(o.v) = Strip(exp.v) THEN Ok ELSE Bad("differs from the documented line"))
            ELSE IF o.v.k = "struct" THEN Ok ELSE Bad("a line that is not UTF-8 must give the error struct")

Report(i) ==
  LET v == Verdict(Rec[i]) IN
  v.ok \/ PrintT(<<"BAD", ToJson(IF "expected" \in DOMAIN v THEN [i |-> i, why |-> v.why, expected |-> v.expected]
                                  ELSE [i |-> i, why |-> v.why])>>)

DeclNames == {Rec[i].name : i \in {j \in 1..N : Rec[j].ev = "decl"}}
MissingDecls == ExportNames \ DeclNames

Init == row = 0
Next == \/ row = 0 /\ row' \in {-c : c \in 1..Chunks}
        \/ row < 0 /\ row' \in {i \in 1..N : i % Chunks = (-row) % Chunks} /\ Report(row')
Spec == Init /\ [][Next]_row

Accepted ==
  /\ TLCGet("stats").distinct > 0
  /\ (CheckDecls => \A n \in MissingDecls : PrintT(<<"BAD", ToJson([i |-> 0, why |-> "documented export missing from std: " \o n])>>))
  \* distinct (export, arguments) pairs for which the documentation fixes the result
  /\ PrintT(<<"NONTRIVIAL", ToJson([n |-> Cardinality(
        {ToJson(<<Rec[i].name, Rec[i].args>>) :
           i \in {j \in 1..N : /\ Rec[j].ev = "call" /\ Rec[j].name \in ExportNames
                                /\ Pred(Rec[j].name, [a \in 1..Len(Rec[j].args) |-> ValOfWire(Rec[j].args[a])]).k # "type"}})])>>)
  /\ PrintT(<<"TRACE", N>>)
=============================================================================
