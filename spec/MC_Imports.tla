----------------------------- MODULE MC_Imports -----------------------------
(***************************************************************************)
(* Imports over a changing file tree (C03: parsing a text that imports      *)
(* files yields a program or an error whatever the files are and whatever    *)
(* was parsed before; C05: the outcome is a function of the text and of the  *)
(* files as they are NOW).                                                   *)
(*                                                                          *)
(* State: the contents of two files - `outer', which may import `inner' -   *)
(* and the history of steps.  Actions: write a version of a file (also the   *)
(* same version again, which only changes its time stamp), delete it, parse  *)
(* and run `o := import "outer"; o.w' or `i := import "inner"; i.v'.  The     *)
(* specification's answer for a parse is a function of the CURRENT files     *)
(* only (Expected); nothing an earlier parse saw may be remembered.  TLC     *)
(* enumerates every behaviour of MaxLen steps; each one that ends in a parse *)
(* is emitted and replayed in ONE process, one thread, so that any state     *)
(* the implementation keeps between parses (a cache of file texts, of parsed *)
(* modules) meets every order of changes.                                    *)
(***************************************************************************)
EXTENDS Integers, Sequences, TLC, Json

CONSTANT MaxLen
VARIABLES inner, outer, hist

InnerVersions == {"absent", "i1", "i2", "ibad"}
OuterVersions == {"absent", "o10", "o20", "oplain", "obad"}

InnerVal(v) == IF v = "i1" THEN 1 ELSE 2
\* what parsing and running the main text must give, from the files as they are now
Expected(which, o, i) ==
  IF which = "inner"
  THEN IF i \in {"absent", "ibad"} THEN [k |-> "error"] ELSE [k |-> "value", v |-> InnerVal(i)]
  ELSE IF o \in {"absent", "obad"} THEN [k |-> "error"]
       ELSE IF o = "oplain" THEN [k |-> "value", v |-> 5]
       ELSE IF i \in {"absent", "ibad"} THEN [k |-> "error"]
       ELSE [k |-> "value", v |-> InnerVal(i) + (IF o = "o10" THEN 10 ELSE 20)]

Init == inner = "absent" /\ outer = "absent" /\ hist = <<>>

WriteInner(v) == /\ inner' = v /\ UNCHANGED outer
                 /\ hist' = Append(hist, [a |-> "write", f |-> "inner", v |-> v])
WriteOuter(v) == /\ outer' = v /\ UNCHANGED inner
                 /\ hist' = Append(hist, [a |-> "write", f |-> "outer", v |-> v])
Parse(which) == /\ UNCHANGED <<inner, outer>>
                /\ hist' = Append(hist, [a |-> "parse", which |-> which, exp |-> Expected(which, outer, inner)])

Next == /\ Len(hist) < MaxLen
        /\ \/ \E v \in InnerVersions : WriteInner(v)
           \/ \E v \in OuterVersions : WriteOuter(v)
           \/ \E w \in {"outer", "inner"} : Parse(w)
Spec == Init /\ [][Next]_<<inner, outer, hist>>

\* the answer of every parse in the history is the one the files of that moment determine: replaying the history's
\* writes up to the parse and asking Expected again gives the recorded answer (a check of the specification itself)
RECURSIVE FilesAt(_, _, _, _)
FilesAt(h, n, o, i) == IF n = 0 THEN <<o, i>>
                       ELSE LET s == h[Len(h) - n + 1] IN
                            IF s.a = "write" /\ s.f = "inner" THEN FilesAt(h, n - 1, o, s.v)
                            ELSE IF s.a = "write" THEN FilesAt(h, n - 1, s.v, i)
                            ELSE FilesAt(h, n - 1, o, i)
ParseIsAFunctionOfTheFiles ==
  \A p \in 1..Len(hist) : hist[p].a = "parse" =>
     LET fs == FilesAt(SubSeq(hist, 1, p - 1), p - 1, "absent", "absent") IN
     hist[p].exp = Expected(hist[p].which, fs[1], fs[2])

\* one line per complete behaviour that ends in a parse
EmitBehaviours ==
  (Len(hist) = MaxLen /\ hist[MaxLen].a = "parse") => PrintT(<<"REPLAY", ToJson(hist)>>)
=============================================================================
