----------------------------- MODULE MC_Print -----------------------------
(***************************************************************************)
(* Bounded model for C15 (types survive printing and re-parsing).           *)
(*                                                                           *)
(* Universe PU = the universe of MC_Types (closed under every constructor   *)
(* up to depth 2) + hand-picked look-alikes + the closure of a seed set      *)
(* under every one-hole constructor context, applied Depth times (so that   *)
(* e.g. "union inside function result inside union inside mut inside array" *)
(* and all its siblings occur).                                             *)
(*                                                                           *)
(* State machine (as MC_Types): row 0 -> chunk -c -> row i; the laws are    *)
(* invariants evaluated in the row states, Unambiguous in the start state.  *)
(* POSTCONDITION PEmit writes, for every type, all its texts and the        *)
(* membership of the value pool (type filter `it ? T').                     *)
(***************************************************************************)
EXTENDS Print, MC_Types

\* TLC orders record fields by the order in which their names were first read in the ROOT module
\* and compares records field by field in that order.  MC_Types' value pool has records whose
\* `v' fields hold values of different kinds ([k |-> "int", v |-> 1], [k |-> "string", v |-> "s"]);
\* sorting it is only possible when `k' is compared before `v', i.e. when `k' is met first here.
FieldOrder == [k |-> 0, v |-> 0]

CONSTANTS Depth          \* how often the contexts are applied to the seeds (2 quick, 3 thorough)

Seeds == {TInt, TVoid, TNever, TAny, IntFloat,
          Fn(<<>>, TInt), Fn(<<>>, IntFloat), Fn(<<IntFloat>>, TInt), MutT(IntFloat),
          Tup(<<TInt, TInt>>), Arr(TNever), Struct("a" :> TInt @@ "b" :> TFloat),
          Multi({Fn(<<>>, TInt), TFloat}), Struct(<<>>)}

Ctx(x) == {Arr(x), MutT(x), Fn(<<>>, x), Fn(<<x>>, TInt), Fn(<<TInt, x>>, TVoid),
           Tup(<<x, TInt>>), Tup(<<TVoid, x>>), Struct("a" :> x), Struct("a" :> TInt @@ "b" :> x),
           Join(x, TString), Join(x, Fn(<<>>, TInt))}

RECURSIVE Closure(_, _)
Closure(S, d) == IF d = 0 THEN S ELSE S \cup Closure(UNION {Ctx(x) : x \in S}, d - 1)

LookAlikes == {
  \* union inside function result inside union inside mut inside array
  Arr(MutT(Multi({TInt, Fn(<<>>, IntFloat)}))),
  Arr(MutT(Multi({TString, Fn(<<IntFloat>>, Multi({TInt, Fn(<<>>, IntFloat)}))}))),
  \* function type as a union member
  Multi({Fn(<<>>, TInt), TFloat}), Multi({Fn(<<TInt>>, IntFloat), TString}),
  Multi({Fn(<<>>, TInt), Fn(<<>>, TFloat), TInt}), Multi({TInt, Fn(<<>>, TInt), MutT(TInt)}),
  Multi({Fn(<<>>, Fn(<<>>, TInt)), TInt}), Multi({Fn(<<>>, Multi({Fn(<<>>, TInt), TFloat})), TString}),
  \* function returning function
  Fn(<<>>, Fn(<<>>, TInt)), Fn(<<>>, Fn(<<>>, IntFloat)), Fn(<<>>, Multi({Fn(<<>>, TInt), TFloat})),
  Fn(<<>>, Fn(<<>>, Fn(<<>>, IntFloat))), Fn(<<Fn(<<>>, IntFloat)>>, Fn(<<IntFloat>>, IntFloat)),
  \* tuple vs parameter list
  Tup(<<TInt, TInt>>), Fn(<<TInt, TInt>>, TInt), Fn(<<Tup(<<TInt, TInt>>)>>, TInt),
  Fn(<<>>, Tup(<<TInt, TInt>>)), Tup(<<Fn(<<TInt, TInt>>, TInt), TInt>>),
  Fn(<<TInt, TInt>>, Tup(<<TInt, TInt>>)), Tup(<<Tup(<<TInt, TInt>>), TInt>>),
  Multi({Tup(<<TInt, TInt>>), Fn(<<TInt, TInt>>, TInt)}),
  Fn(<<IntFloat, IntFloat>>, IntFloat), Tup(<<IntFloat, IntFloat>>), Tup(<<IntFloat, IntFloat, IntFloat>>),
  \* () vs ()->()
  TVoid, Fn(<<>>, TVoid), Fn(<<TVoid>>, TVoid), Tup(<<TVoid, TVoid>>), Arr(TVoid), MutT(TVoid),
  MutT(Fn(<<>>, TVoid)), Multi({TVoid, Fn(<<>>, TVoid)}), Fn(<<>>, Multi({TVoid, Fn(<<>>, TVoid)})),
  Fn(<<>>, Fn(<<>>, TVoid)), Fn(<<Fn(<<>>, TVoid)>>, TVoid), Multi({TVoid, TInt}),
  \* mut with a parenthesised union vs mut of a function with a union parameter
  MutT(IntFloat), MutT(Fn(<<IntFloat>>, TInt)), MutT(Multi({Fn(<<IntFloat>>, TInt), TString})),
  MutT(Multi({MutT(IntFloat), TString})), Multi({MutT(IntFloat), TString}), Multi({MutT(TInt), TFloat}),
  MutT(MutT(IntFloat)), MutT(Fn(<<>>, IntFloat)), MutT(Tup(<<IntFloat, TInt>>)),
  \* [] and !
  Arr(TNever), Arr(Arr(TNever)), MutT(Arr(TNever)), Multi({Arr(TNever), TInt}),
  Fn(<<Arr(TNever)>>, Arr(TNever)), MutT(TNever), Fn(<<>>, TNever), Fn(<<TNever>>, TNever),
  Tup(<<TNever, TNever>>), Struct("a" :> TNever), Arr(Multi({Arr(TNever), Arr(TInt)})),
  \* structs: unions in fields, structs in unions, three fields, three members
  Struct("a" :> Fn(<<>>, IntFloat) @@ "b" :> MutT(IntFloat)), Multi({Struct("a" :> IntFloat), TInt}),
  Struct("a" :> IntFloat @@ "b" :> IntFloat @@ "c" :> IntFloat),
  Multi({Struct("a" :> TInt @@ "b" :> TFloat), Struct("b" :> TInt @@ "c" :> TFloat), TInt}),
  Struct("a" :> Struct("a" :> TInt @@ "b" :> TInt) @@ "b" :> Struct(<<>>)),
  Multi({TInt, TFloat, TString}), Multi({TBool, TInt, TFloat, TString}),
  Fn(<<>>, Multi({TInt, TFloat, TString})), MutT(Multi({TInt, TFloat, TString})),
  \* wide unions (five and six alternatives; a printer that abbreviates long lists loses members), also nested
  Multi({TBool, TInt, TFloat, TString, TVoid}), Multi({TBool, TInt, TFloat, TString, TVoid, Arr(TInt)}),
  Arr(Multi({TBool, TInt, TFloat, TString, MutT(TInt)})),
  \* the type filter's own context
  Fn(<<>>, Tup(<<TBool, IntFloat>>)), Fn(<<>>, Tup(<<TBool, Fn(<<>>, IntFloat)>>))
}

PU == U \cup LookAlikes \cup Closure(Seeds, Depth)
PSeq == SetToSeq(PU)
PN == Len(PSeq)
PCur == PSeq[row]

(***************************************************************************)
(* Invariants.                                                              *)
(***************************************************************************)
PInvRoundTrip   == row > 0 => RoundTrip(PCur)
PInvParens      == row > 0 => ParensNeeded(PCur)
PInvContext     == row > 0 => FilterContext(PCur)
PInvMembership  == row > 0 => MembershipAgrees(PCur)
PInvCount       == row > 0 => /\ Cardinality(PrintSet(PCur)) = Cardinality(Orderings(PCur))
                              /\ Cardinality(Orderings(PCur)) = OrderingCount(PCur)

\* Unambiguous, stated globally over the depth-2 universe UU (in both tiers): the PrintSets are
\* pairwise disjoint iff their union has as many elements as they have together.  (For the
\* types beyond UU it follows from RoundTrip: a text shared by two types would have to parse to
\* both.  TLC's UNION is quadratic, so the literal check stops at UU.)
UU == U \cup LookAlikes \cup Closure(Seeds, 2)
UUSeq == SetToSeq(UU)
AllTexts == UNION {PrintSet(T) : T \in UU}
\* (no recursive sum: this is evaluated in TLC's main thread, whose stack is small)
TextCount == Cardinality(UNION {{<<i, s>> : s \in PrintSet(UUSeq[i])} : i \in 1..Len(UUSeq)})
Clash(S) == CHOOSE p \in S \X S : p[1] # p[2] /\ ~Disjoint(p[1], p[2])
PInvUnambiguous ==
  row = 0 => IF Cardinality(AllTexts) = TextCount THEN TRUE
             ELSE PrintT(<<"AMBIGUOUS", Clash(UU)>>) /\ FALSE

\* the pairwise form, on the look-alikes and the seeds' first closure (cheap enough pair by pair)
Small == LookAlikes \cup Closure(Seeds, 1)
PInvUnambiguousPairs == (row > 0 /\ PCur \in Small) => \A T2 \in Small : T2 # PCur => Disjoint(PCur, T2)

\* and literally the definition, on the look-alikes
PInvUnambiguousLookAlikes == row = 0 => Unambiguous(LookAlikes)

\* near misses (see Print!ParsePrintsBack): every text of the small universe with one token
\* dropped, and (thorough) with one token replaced by a delimiter
Replacements == IF Depth >= 3 THEN {"|", ",", ")", "(", "->"} ELSE {}
\* (the wide unions have 120 and 720 orderings each: their texts get the dropped-token near misses in both tiers, the
\* replaced-token ones are left to the other types - five replacements per position of every ordering took the thorough
\* tier's emission past its time limit)
WideTypes == {Multi({TBool, TInt, TFloat, TString, TVoid}), Multi({TBool, TInt, TFloat, TString, TVoid, Arr(TInt)}),
              Arr(Multi({TBool, TInt, TFloat, TString, MutT(TInt)}))}
NearMisses(T, s) == {DropTok(s, p) : p \in 1..Len(s)}
                    \cup (IF T \in WideTypes THEN {} ELSE {ReplaceTok(s, p, t) : p \in 1..Len(s), t \in Replacements})
PInvNearMisses == (row > 0 /\ PCur \in Small) =>
                     \A s \in PrintSet(PCur) : \A x \in NearMisses(PCur, s) : ParsePrintsBack(x)
NegTexts == UNION {UNION {NearMisses(T, s) : s \in PrintSet(T)} : T \in Small} \ UNION {PrintSet(T) : T \in Small}
NegSeq == SetToSeq(NegTexts)

PInit == row = 0
PNext == \/ row = 0 /\ row' \in {-c : c \in 1..Chunks}
         \/ row < 0 /\ row' \in {i \in 1..PN : i % Chunks = (-row) % Chunks}
PSpec == PInit /\ [][PNext]_row

(***************************************************************************)
(* Emission.                                                                *)
(***************************************************************************)
RECURSIVE JoinStr(_)
JoinStr(toks) == IF Len(toks) = 0 THEN "" ELSE IF Len(toks) = 1 THEN toks[1]
                 ELSE toks[1] \o " " \o JoinStr(Tail(toks))

PEmit ==
  /\ TLCGet("stats").distinct > 0
  /\ ndJsonSerialize(Out \o "/print_types.ndjson",
        [i \in 1..PN |->
           LET T == PSeq[i] IN
           [i |-> i, t |-> Wire(T), filt |-> B(HasDefault(T)),
            texts |-> SetToSeq({JoinStr(s) : s \in PrintSet(T)}),
            sel |-> [j \in 1..Len(VSeq) |-> B(Matches(TagOf(VSeq[j]), T))]]])
  /\ ndJsonSerialize(Out \o "/print_pool.ndjson", [j \in 1..Len(VSeq) |-> [j |-> j, v |-> WireV(VSeq[j])]])
  /\ ndJsonSerialize(Out \o "/print_neg.ndjson",
        [i \in 1..Len(NegSeq) |->
           LET r == ParseType(NegSeq[i]) IN
           [text |-> JoinStr(NegSeq[i]), ok |-> B(~IsNone(r)),
            t |-> IF IsNone(r) THEN None ELSE Wire(r.t), rest |-> IF IsNone(r) THEN 0 ELSE r.rest]])
  /\ PrintT(<<"PRINT_UNIVERSE", PN, Len(UUSeq), TextCount, Len(VSeq), Len(NegSeq)>>)
=============================================================================
