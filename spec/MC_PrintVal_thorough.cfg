SPECIFICATION Spec
CONSTANTS
  Chunks = 16
  Thorough = TRUE
INVARIANTS
  InvWellFormed
  InvLitRoundTrip
  InvProgRoundTrip
  InvRoutesAgree
  InvMinIntOnly
  InvDecimalTable
  InvRadixAgree
  InvLeafTables
  InvFormWellFormed
  InvFormSmall
  InvFormRoutes
  InvNearMisses
  InvBrackets
POSTCONDITION Emit
CHECK_DEADLOCK FALSE
