SPECIFICATION Spec
CONSTANTS
  Chunks = 8
INVARIANTS
  LeftToRightOnce
  NoStuck
POSTCONDITION Emit
CHECK_DEADLOCK FALSE
