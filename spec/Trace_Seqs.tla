----------------------------- MODULE Trace_Seqs -----------------------------
(***************************************************************************)
(* Trace validation for C09 (implementation -> specification).  The harness *)
(* (`vh seqs record') drives the implementation with seeded random          *)
(* sequences (length 0..12, a wider pool of scalar values and elements) and *)
(* operands beyond the bound that MC_Seqs enumerates (up to +-10^6, around  *)
(* +-2^29 and at the i64 extremes) and records what happened.  Every record *)
(* is one step here: the step is enabled only when the recorded outcome is  *)
(* the one Seqs demands, so the trace is accepted iff TLC can walk through   *)
(* all of it.                                                                *)
(***************************************************************************)
EXTENDS Seqs, Json, IOUtils

Rec == ndJsonDeserialize(IOEnv.VERIF_IN)

VARIABLE l          \* number of records accepted so far

Cur == Rec[l + 1]
IsOp(op) == l < Len(Rec) /\ Cur.op = op

StepLen ==
  /\ IsOp("len")
  /\ Cur.got = Ok(VInt(SeqLen(Cur.s)))
  /\ l' = l + 1

StepAt ==
  /\ IsOp("at")
  /\ Cur.got = At(Cur.s, Cur.i)
  /\ l' = l + 1

StepSlice ==
  /\ IsOp("slice")
  /\ LET r == PySlice(Cur.s, Cur.a, Cur.b, Cur.c)
     IN /\ Cur.got = Ok(VTup(<<r, VInt(SliceLen(SeqLen(Cur.s), Cur.a, Cur.b, Cur.c))>>))
        /\ r.k = Cur.s.k
  /\ l' = l + 1

Init == l = 0
Next == StepLen \/ StepAt \/ StepSlice
TraceSpec == Init /\ [][Next]_l

\* the walk reached the end of the trace; otherwise name the first record that was not accepted
TraceAccepted ==
  LET d == TLCGet("stats").diameter IN
  IF d - 1 = Len(Rec) THEN PrintT(<<"ACCEPTED", Len(Rec)>>)
  ELSE PrintT(<<"REJECTED", d>>) /\ FALSE
=============================================================================
