SPECIFICATION Spec
CONSTANTS
  Chunks = 8
  Full = TRUE
INVARIANTS
  NoStuck
  AliasesAgree
  CellTyped
  AssignYieldsStored
  FailureLeavesContent
POSTCONDITION Emit
CHECK_DEADLOCK FALSE
