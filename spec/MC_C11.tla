------------------------------ MODULE MC_C11 ------------------------------
(***************************************************************************)
(* C11 — iterator operators equal their sequence definitions.              *)
(* Element sequences (ints, bools, mixed int/float/string) x source         *)
(* (array-derived a~, user-written closure over a counter cell that logs    *)
(* every pull) x pipelines of <= 2 lazy stages from {@ f, ? p, ? T} x one   *)
(* consumer from {$], \ p, $ init g, $+, $*, $&, $|, $&&, $||, for, manual  *)
(* calls past exhaustion}; f, p, g and the source log every application.    *)
(*                                                                           *)
(* Two formulations inside the specification: the machine (Lang!Ev: closures*)
(* calling closures through the iterator protocol) and the list-level       *)
(* definitions below (what the documentation says in terms of x1..xn).      *)
(* IterLaws: they agree on the result and on the log of pulls/applications  *)
(* (each element pulled exactly once and in order, lazily; callbacks once    *)
(* per element they must examine; $&& / $|| stop at the deciding element).   *)
(***************************************************************************)
EXTENDS LangAst, Json, IOUtils

CONSTANTS Chunks, SampleMod
VARIABLE row

MixTy == WMulti(<<WInt, WFloat, WStr>>)
VA == IntV(1)

\* ------------------------------------------------------------------ callbacks (with logging)
LogPlus(base, e) == Asg("+=", V("log"), ArrE(<<Bin("+", I(base), e)>>))
FnF  == FnDecl("f", <<P("x", WInt)>>, WInt, <<LogPlus(100, V("x")), Ret(Bin("*", V("x"), I(2)))>>)
FnP  == FnDecl("p", <<P("x", WInt)>>, WBool, <<LogPlus(200, V("x")), Ret(Bin(">", V("x"), I(1)))>>)
FnP2 == FnDecl("p2", <<P("x", WInt)>>, WBool, <<LogPlus(400, V("x")), Ret(Bin("==", Bin("%", V("x"), I(2)), I(0)))>>)
FnG  == FnDecl("g", <<P("a", WInt), P("x", WInt)>>, WInt, <<LogPlus(500, V("x")), Ret(Bin("-", Bin("*", V("a"), I(2)), V("x")))>>)
FnNot == FnDecl("nt", <<P("x", WBool)>>, WBool, <<Mark(100), Ret(NotE(V("x")))>>)
\* a reducer whose accumulator may still be the sentinel initial value (a string): `it $"e" gs'
FnGS == FnDecl("gs", <<P("a", WMulti(<<WInt, WStr>>)), P("x", WInt)>>, WInt,
               <<LogPlus(500, V("x")), IfSet("n", WInt, V("a"), Block(<<Ret(Bin("-", Bin("*", V("n"), I(2)), V("x")))>>), NoneV), Ret(V("x"))>>)
Prelude == <<FnF, FnP, FnP2, FnG, FnGS, FnNot>>

\* list-level meaning of the callbacks
Ff(x) == 2 * x
Pp(x) == x > 1
Pp2(x) == x % 2 = 0
Gg(a, x) == a * 2 - x

\* ------------------------------------------------------------------ sources
ElemLit(v) == Lit(v)
\* array-derived
ArrSrc(vs, ety) == Set("it0", IterE(Hide(WArr(ety), ArrE([i \in 1..Len(vs) |-> ElemLit(vs[i])]))))
\* user-written: logs 10 + (number of the pull)
UserSrc(vs, ety) ==
  Block(<<>>)   \* placeholder, see UserSrcStmts
UserSrcStmts(vs, ety) == <<
  Set("data", Hide(WArr(ety), ArrE([i \in 1..Len(vs) |-> ElemLit(vs[i])]))),
  Set("src", MutE(WInt, I(0))),
  FnDecl("it0", <<>>, WTup(<<WBool, ety>>),
    <<Asg("+=", V("src"), I(1)),
      LogPlus(10, Deref(V("src"))),
      If1(Bin(">", Deref(V("src")), I(Len(vs))), Ret(TupE(<<B(FALSE), At(V("data"), I(0))>>))),
      Ret(TupE(<<B(TRUE), At(V("data"), Bin("-", Deref(V("src")), I(1)))>>))>>)>>
\* an exhausted user source must still yield a value of the element type; with no element it cannot
UserOk(vs) == Len(vs) > 0

SrcStmts(kind, vs, ety) == IF kind = "arr" THEN <<ArrSrc(vs, ety)>> ELSE UserSrcStmts(vs, ety)

\* ------------------------------------------------------------------ stages
\* stage: [k |-> "map"] | [k |-> "filter"] | [k |-> "tfilter", ty |-> wire type] | [k |-> "not"]
ApplyStage(st, it) ==
  CASE st.k = "map" -> MapE(it, V("f"))
    [] st.k = "filter" -> FilterE(it, V("p"))
    [] st.k = "tfilter" -> TFilterE(it, st.ty)
    [] st.k = "not" -> MapE(it, V("nt"))
RECURSIVE Pipe(_, _)
Pipe(stages, it) == IF stages = <<>> THEN it ELSE Pipe(Tail(stages), ApplyStage(Head(stages), it))

\* list level: one element through the stages: [alive, v, log]
TagOfLit(v) == Base(v.k)
RECURSIVE Through(_, _, _)
Through(stages, v, lg) ==
  IF stages = <<>> THEN [alive |-> TRUE, v |-> v, log |-> lg]
  ELSE LET st == Head(stages) IN
       CASE st.k = "map" -> Through(Tail(stages), IntV(Ff(v.v)), lg \o <<100 + v.v>>)
         [] st.k = "not" -> Through(Tail(stages), BoolV(~v.v), lg \o <<100>>)
         [] st.k = "filter" -> IF Pp(v.v) THEN Through(Tail(stages), v, lg \o <<200 + v.v>>)
                               ELSE [alive |-> FALSE, v |-> v, log |-> lg \o <<200 + v.v>>]
         [] st.k = "tfilter" -> IF Matches(TagOfLit(v), Unwire(st.ty)) THEN Through(Tail(stages), v, lg)
                                ELSE [alive |-> FALSE, v |-> v, log |-> lg]

\* ------------------------------------------------------------------ consumers
\* list level: fold over the elements in order; state [acc, log, stop]
PullLog(kind, i) == IF kind = "user" THEN <<10 + i>> ELSE <<>>

RECURSIVE Walk(_, _, _, _, _, _)
\* returns [items (survivors in order), log, pulled (number of source pulls)]; `limit' = stop after that many survivors were
\* delivered AND the deciding condition holds (used by $&& / $||): stopWhen(v) decides
Walk(kind, vs, stages, i, acc, mode) ==
  IF i > Len(vs) THEN [items |-> acc.items, log |-> acc.log \o PullLog(kind, i), stopped |-> FALSE]
  ELSE LET t == Through(stages, vs[i], acc.log \o PullLog(kind, i)) IN
       IF ~t.alive THEN Walk(kind, vs, stages, i + 1, [items |-> acc.items, log |-> t.log], mode)
       ELSE IF (mode = "false" /\ ~t.v.v) \/ (mode = "true" /\ t.v.v) THEN [items |-> Append(acc.items, t.v), log |-> t.log, stopped |-> TRUE]
       ELSE Walk(kind, vs, stages, i + 1, [items |-> Append(acc.items, t.v), log |-> t.log], mode)

All(kind, vs, stages) == Walk(kind, vs, stages, 1, [items |-> <<>>, log |-> <<>>], "never")

\* consumer programs and their list-level meaning.  Each returns [prog (statements after `it := ...'), v, log]
IntsOf(items) == [i \in 1..Len(items) |-> items[i].v]
RECURSIVE FoldL(_, _, _)
FoldL(op, acc, xs) ==
  IF xs = <<>> THEN acc
  ELSE FoldL(op, CASE op = "+" -> acc + Head(xs) [] op = "*" -> acc * Head(xs)
                      [] op = "&" -> acc & Head(xs) [] op = "|" -> acc | Head(xs), Tail(xs))
ArrOf(items) == ArrV(TAny, items)      \* tags are not compared by IterLaws (ValEq ignores them)

Consume(c, kind, vs, stages) ==
  LET a == All(kind, vs, stages)  xs == IntsOf(a.items) IN
  CASE c = "collect" -> [prog |-> <<CollectE(V("it"))>>, v |-> ArrOf(a.items), log |-> a.log]
    [] c = "part" ->
         \* the predicate is applied right after each survivor is delivered: interleave
         LET RECURSIVE W(_, _)
             W(i, st) ==
               IF i > Len(vs) THEN [st EXCEPT !.log = @ \o PullLog(kind, i)]
               ELSE LET t == Through(stages, vs[i], st.log \o PullLog(kind, i)) IN
                    IF ~t.alive THEN W(i + 1, [st EXCEPT !.log = t.log])
                    ELSE W(i + 1, [l |-> IF Pp2(t.v.v) THEN Append(st.l, t.v) ELSE st.l,
                                   r |-> IF Pp2(t.v.v) THEN st.r ELSE Append(st.r, t.v),
                                   log |-> t.log \o <<400 + t.v.v>>])
             w == W(1, [l |-> <<>>, r |-> <<>>, log |-> <<>>])
         IN [prog |-> <<PartE(V("it"), V("p2"))>>, v |-> TupV(<<ArrOf(w.l), ArrOf(w.r)>>), log |-> w.log]
    [] c = "reduce" ->
         LET RECURSIVE W(_, _)
             W(i, st) ==
               IF i > Len(vs) THEN [st EXCEPT !.log = @ \o PullLog(kind, i)]
               ELSE LET t == Through(stages, vs[i], st.log \o PullLog(kind, i)) IN
                    IF ~t.alive THEN W(i + 1, [st EXCEPT !.log = t.log])
                    ELSE W(i + 1, [acc |-> Gg(st.acc, t.v.v), log |-> t.log \o <<500 + t.v.v>>])
             w == W(1, [acc |-> 10, log |-> <<>>])
         IN [prog |-> <<ReduceE(V("it"), I(10), V("g"))>>, v |-> IntV(w.acc), log |-> w.log]
    [] c = "reduce-sent" ->
         \* the initial value is of a type the reducer never returns: with no survivor the result IS the sentinel
         LET RECURSIVE W(_, _)
             W(i, st) ==
               IF i > Len(vs) THEN [st EXCEPT !.log = @ \o PullLog(kind, i)]
               ELSE LET t == Through(stages, vs[i], st.log \o PullLog(kind, i)) IN
                    IF ~t.alive THEN W(i + 1, [st EXCEPT !.log = t.log])
                    ELSE W(i + 1, [fresh |-> FALSE, acc |-> IF st.fresh THEN t.v.v ELSE Gg(st.acc, t.v.v), log |-> t.log \o <<500 + t.v.v>>])
             w == W(1, [fresh |-> TRUE, acc |-> 0, log |-> <<>>])
         IN [prog |-> <<ReduceE(V("it"), S(<<101>>), V("gs"))>>, v |-> IF w.fresh THEN StrV(<<101>>) ELSE IntV(w.acc), log |-> w.log]
    [] c = "sum"  -> [prog |-> <<RedE("$+", "int", V("it"))>>, v |-> IntV(FoldL("+", 0, xs)), log |-> a.log]
    [] c = "prod" -> [prog |-> <<RedE("$*", "int", V("it"))>>, v |-> IntV(FoldL("*", 1, xs)), log |-> a.log]
    [] c = "band" -> [prog |-> <<RedE("$&", "int", V("it"))>>,
                      v |-> IF xs = <<>> THEN IntV(-1) ELSE IntV(FoldL("&", Head(xs), Tail(xs))), log |-> a.log]
    [] c = "bor"  -> [prog |-> <<RedE("$|", "int", V("it"))>>, v |-> IntV(FoldL("|", 0, xs)), log |-> a.log]
    [] c = "for"  ->
         LET RECURSIVE W(_, _)
             W(i, lg) ==
               IF i > Len(vs) THEN lg \o PullLog(kind, i)
               ELSE LET t == Through(stages, vs[i], lg \o PullLog(kind, i)) IN
                    IF ~t.alive THEN W(i + 1, t.log) ELSE W(i + 1, t.log \o <<300>>)
         IN [prog |-> <<For("e", V("it"), Block(<<Mark(300)>>)), I(0)>>, v |-> IntV(0), log |-> W(1, <<>>)]
    [] c = "manual" ->
         \* Len(survivors) + 2 calls; result: the first components and the values of the successful pulls
         LET n == Len(a.items)
             calls == [j \in 1..(n + 2) |-> Set("r" \o ToString(j), CallE(V("it"), <<>>))]
             res == TupE([j \in 1..(n + 2) |-> TupAt(V("r" \o ToString(j)), 0)] \o [j \in 1..n |-> TupAt(V("r" \o ToString(j)), 1)])
             extra == IF kind = "user" THEN <<10 + Len(vs) + 2>> ELSE <<>>
         IN [prog |-> calls \o <<res>>,
             v |-> TupV([j \in 1..(n + 2) |-> BoolV(j <= n)] \o a.items),
             log |-> a.log \o extra]
    [] c = "all" ->
         LET w == Walk(kind, vs, stages, 1, [items |-> <<>>, log |-> <<>>], "false") IN
         [prog |-> <<RedE("$&&", "bool", V("it"))>>, v |-> BoolV(~w.stopped), log |-> w.log]
    [] c = "any" ->
         LET w == Walk(kind, vs, stages, 1, [items |-> <<>>, log |-> <<>>], "true") IN
         [prog |-> <<RedE("$||", "bool", V("it"))>>, v |-> BoolV(w.stopped), log |-> w.log]

\* ------------------------------------------------------------------ the cases
IntSeqs == {<<>>, <<1>>, <<2, 1>>, <<1, 2, 3>>, <<3, 3, 1>>, <<2, 0, 3>>, <<0, 1>>}
IntStages1 == {[k |-> "map"], [k |-> "filter"], [k |-> "tfilter", ty |-> WInt]}
IntPipes == {<<>>} \cup {<<s>> : s \in IntStages1} \cup {<<s, t>> : s \in IntStages1, t \in IntStages1}
\* `? float' turns the element type into float: only as the last stage, before a type-agnostic consumer
TF == [k |-> "tfilter", ty |-> WFloat]
FloatPipes == {<<TF>>} \cup {<<s, TF>> : s \in IntStages1}
IntCons == {"collect", "part", "reduce", "reduce-sent", "sum", "prod", "band", "bor", "for", "manual"}
Kinds == {"arr", "user"}

IntCases == {[kind |-> kd, vs |-> [i \in 1..Len(xs) |-> IntV(xs[i])], ety |-> WInt, stages |-> ps, cons |-> c] :
               kd \in Kinds, xs \in IntSeqs, ps \in IntPipes, c \in IntCons}
  \cup {[kind |-> kd, vs |-> [i \in 1..Len(xs) |-> IntV(xs[i])], ety |-> WInt, stages |-> ps, cons |-> c] :
               kd \in Kinds, xs \in IntSeqs, ps \in FloatPipes, c \in {"collect", "for", "manual"}}
BoolSeqs == {<<>>, <<TRUE>>, <<FALSE>>, <<TRUE, FALSE, TRUE>>, <<FALSE, TRUE>>, <<TRUE, TRUE>>}
BoolCases == {[kind |-> kd, vs |-> [i \in 1..Len(xs) |-> BoolV(xs[i])], ety |-> WBool, stages |-> ps, cons |-> c] :
               kd \in Kinds, xs \in BoolSeqs, ps \in {<<>>, <<[k |-> "not"]>>}, c \in {"all", "any"}}
MixSeqs == {<<IntV(1), FloatV(3), StrV(<<97>>)>>, <<FloatV(3)>>, <<StrV(<<97>>), IntV(2), IntV(3)>>}
MixTypes == {WInt, WFloat, WStr, WMulti(<<WInt, WFloat>>), WAny}
MixCases == {[kind |-> kd, vs |-> xs, ety |-> MixTy, stages |-> <<[k |-> "tfilter", ty |-> t]>>, cons |-> c] :
               kd \in Kinds, xs \in MixSeqs, t \in MixTypes, c \in {"collect", "for", "manual"}}

\* the same pipeline SITE evaluated twice: a function whose body builds the iterator over a LITERAL array
\* (foldable) and consumes it, called twice; each call must enumerate the array afresh
TwiceCons == {"collect", "part", "reduce", "reduce-sent", "sum", "prod", "band", "bor"}
ConsTy(c) == CASE c = "collect" -> WArr(WInt) [] c = "reduce-sent" -> WMulti(<<WInt, WStr>>) [] c = "part" -> WTup(<<WArr(WInt), WArr(WInt)>>) [] OTHER -> WInt
TwicePipes == {<<>>, <<[k |-> "map"]>>, <<[k |-> "filter"]>>, <<[k |-> "tfilter", ty |-> WInt]>>,
               <<[k |-> "map"], [k |-> "tfilter", ty |-> WInt]>>}
\* kind "lit": the array is a literal in the function body; kind "cap": the body captures a NON-constant array
\* of the enclosing scope (every operator of the pipeline must substitute the captured name when the closure is made)
TwiceCases == {[kind |-> kd, vs |-> [i \in 1..Len(xs) |-> IntV(xs[i])], ety |-> WInt, stages |-> ps, cons |-> c] :
                 kd \in {"lit", "cap"}, xs \in IntSeqs \ {<<>>}, ps \in TwicePipes, c \in TwiceCons}
Usable(c) == c.kind \in {"arr", "lit", "cap"} \/ UserOk(c.vs)
\* (int and bool values cannot live in one TLC set: their `v' fields are incomparable)
CaseSeq0 == SetToSeq({c \in IntCases : Usable(c)}) \o SetToSeq(TwiceCases) \o SetToSeq({c \in BoolCases : Usable(c)})
            \o SetToSeq({c \in MixCases : Usable(c)})
CaseSeq == SelectSeq([i \in 1..Len(CaseSeq0) |-> IF i % SampleMod = 0 THEN CaseSeq0[i] ELSE NoneV], LAMBDA b : b # NoneV)
N == Len(CaseSeq)

Ref(c) ==
  IF c.kind \in {"lit", "cap"}
  THEN LET r == Consume(c.cons, "arr", c.vs, c.stages)
           lit == ArrE([i \in 1..Len(c.vs) |-> Lit(c.vs[i])]) IN
       [prog |-> (IF c.kind = "cap" THEN <<Set("data", Hide(WArr(WInt), lit))>> ELSE <<>>) \o
                 <<FnDecl("run", <<>>, ConsTy(c.cons),
                          <<Set("it", Pipe(c.stages, IterE(IF c.kind = "cap" THEN V("data") ELSE lit))),
                            Ret(r.prog[1])>>),
                   TupE(<<CallE(V("run"), <<>>), CallE(V("run"), <<>>)>>)>>,
        v |-> TupV(<<r.v, r.v>>), log |-> r.log \o r.log]
  ELSE Consume(c.cons, c.kind, c.vs, c.stages)
Prog(c) == IF c.kind \in {"lit", "cap"} THEN Prelude \o Ref(c).prog
           ELSE Prelude \o SrcStmts(c.kind, c.vs, c.ety) \o <<Set("it", Pipe(c.stages, V("it0")))>> \o Ref(c).prog
Fuel == 3000
Out(i) == Outcome(Run(Prog(CaseSeq[i]), Fuel))

IterLaws == row > 0 =>
  LET o == Out(row)  r == Ref(CaseSeq[row]) IN
  \/ (o.status = "value" /\ ValEq(o.v, r.v) /\ o.log = r.log)
  \/ (PrintT(<<"ITERLAW", CaseSeq[row], o, r.v, r.log>>) /\ FALSE)

Init == row = 0
Next == \/ row = 0 /\ row' \in {-c : c \in 1..Chunks}
        \/ row < 0 /\ row' \in {i \in 1..N : i % Chunks = (-row) % Chunks}
Spec == Init /\ [][Next]_row

\* ---------------------------------------------------------------- iterators whose static type is a UNION of iterator types
\* A function returns either `data~' (ints) or `data~ @ tof' (floats); the reducer of `$+' can only be chosen when the
\* iterator value is at hand.  tof(x) = x + 0.5 (looked up in a table), logging 100 + x.
IterIF == WMulti(<<WFn(<<>>, WTup(<<WBool, WInt>>)), WFn(<<>>, WTup(<<WBool, WFloat>>))>>)
Halves == Hide(WArr(WFloat), ArrE(<<F(1), F(3), F(5), F(7)>>))        \* 0.5 1.5 2.5 3.5
UniPrelude(xs) == <<
  FnDecl("tof", <<P("x", WInt)>>, WFloat, <<LogPlus(100, V("x")), Ret(At(Halves, V("x")))>>),
  Set("data", Hide(WArr(WInt), ArrE([i \in 1..Len(xs) |-> I(xs[i])]))),
  FnDecl("mkit", <<P("b", WBool)>>, IterIF, <<If1(V("b"), Ret(MapE(IterE(V("data")), V("tof")))), Ret(IterE(V("data")))>>)>>
UniCons == {"sum", "collect", "for", "sum-direct"}
UniProg(xs, b, c) ==
  UniPrelude(xs) \o
  (CASE c = "sum" -> <<Set("it", CallE(V("mkit"), <<Hide(WBool, B(b))>>)), RedE("$+", "dyn", V("it"))>>
     [] c = "sum-direct" -> <<RedE("$+", "dyn", CallE(V("mkit"), <<Hide(WBool, B(b))>>))>>
     [] c = "collect" -> <<Set("it", CallE(V("mkit"), <<Hide(WBool, B(b))>>)), CollectE(V("it"))>>
     [] c = "for" -> <<Set("it", CallE(V("mkit"), <<Hide(WBool, B(b))>>)), For("e", V("it"), Block(<<Mark(300)>>)), I(0)>>)
UniSeq == SetToSeq({<<xs, b, c>> : xs \in {<<1, 2, 3>>, <<0, 1>>, <<3>>, <<2, 2>>}, b \in BOOLEAN, c \in UniCons}
                   \* the array is empty at run time: the sum of no ints is the int 0, the sum of no floats (the mapped
                   \* iterator declares float elements) is the float 0.0
                   \cup {<< <<>>, b, c>> : b \in BOOLEAN, c \in {"sum", "sum-direct", "collect", "for"}})
UniOut(i) == Outcome(Run(UniProg(UniSeq[i][1], UniSeq[i][2], UniSeq[i][3]), Fuel))
RECURSIVE SumSeq(_)
SumSeq(xs) == IF xs = <<>> THEN 0 ELSE Head(xs) + SumSeq(Tail(xs))
UniLaw == \A i \in 1..Len(UniSeq) :
  LET xs == UniSeq[i][1]  b == UniSeq[i][2]  c == UniSeq[i][3]  o == UniOut(i)
      applied == IF b THEN [j \in 1..Len(xs) |-> 100 + xs[j]] ELSE <<>>
      want == CASE c \in {"sum", "sum-direct"} -> IF b THEN FloatV(2 * SumSeq(xs) + Len(xs)) ELSE IntV(SumSeq(xs))
                [] c = "collect" -> ArrV(TAny, [j \in 1..Len(xs) |-> IF b THEN FloatV(2 * xs[j] + 1) ELSE IntV(xs[j])])
                [] c = "for" -> IntV(0) IN
  \/ (o.status = "value" /\ ValEq(o.v, want)
       /\ (c # "for" => o.log = applied) /\ (c = "for" => Len(o.log) = Len(applied) + Len(xs)))
  \/ (PrintT(<<"UNILAW", UniSeq[i], o>>) /\ FALSE)

\* ... and the iterator that arrives yields NOTHING although its elements are floats / strings (everything filtered out,
\* or already consumed by an earlier reduction): the sum is the neutral element of the DECLARED element type
\* (0.0, "", 1.0 for the product), not the int one
IterIFS == WMulti(<<WFn(<<>>, WTup(<<WBool, WInt>>)), WFn(<<>>, WTup(<<WBool, WFloat>>)), WFn(<<>>, WTup(<<WBool, WStr>>))>>)
UEPrelude(ity) == <<
  Set("data", Hide(WArr(WInt), ArrE(<<I(1), I(2)>>))),
  Set("fdata", Hide(WArr(WFloat), ArrE(<<F(3), F(4)>>))),
  Set("sdata", Hide(WArr(WStr), ArrE(<<S(<<97>>)>>))),
  FnDecl("big", <<P("x", WFloat)>>, WBool, <<Ret(Bin(">", V("x"), F(20)))>>),
  FnDecl("nos", <<P("x", WStr)>>, WBool, <<Ret(Bin("==", V("x"), S(<<>>)))>>),
  FnDecl("mk3", <<P("k", WInt)>>, ity,
         <<If1(Bin("==", V("k"), I(1)), Ret(FilterE(IterE(V("fdata")), V("big"))))>> \o
         (IF ity = IterIFS THEN <<If1(Bin("==", V("k"), I(2)), Ret(FilterE(IterE(V("sdata")), V("nos"))))>> ELSE <<>>) \o
         <<Ret(IterE(V("data")))>>)>>
UEProg(k, c) ==
  CASE c = "sum" -> UEPrelude(IterIFS) \o <<RedE("$+", "dyn", CallE(V("mk3"), <<Hide(WInt, I(k))>>))>>
    [] c = "prod" -> UEPrelude(IterIF) \o <<RedE("$*", "dyn", CallE(V("mk3"), <<Hide(WInt, I(k))>>))>>
    [] c = "sum-twice" -> UEPrelude(IterIFS) \o <<Set("it", CallE(V("mk3"), <<Hide(WInt, I(k))>>)), Set("a", RedE("$+", "dyn", V("it"))),
                                                  Set("b", RedE("$+", "dyn", V("it"))), TupE(<<V("a"), V("b")>>)>>
    [] c = "consumed-map" -> UEPrelude(IterIF) \o <<FnDecl("half", <<P("x", WInt)>>, WFloat, <<Ret(At(Halves, V("x")))>>),
                                                   FnDecl("mk", <<P("b", WBool)>>, IterIF, <<If1(V("b"), Ret(MapE(IterE(V("data")), V("half")))), Ret(IterE(V("data")))>>),
                                                   Set("it", CallE(V("mk"), <<Hide(WBool, B(TRUE))>>)), Set("a", CollectE(V("it"))),
                                                   TupE(<<RedE("$+", "dyn", V("it")), RedE("$*", "dyn", V("it"))>>)>>
UESeq == << <<0, "sum", IntV(3)>>, <<1, "sum", FloatV(0)>>, <<2, "sum", StrV(<<>>)>>,
            <<0, "prod", IntV(2)>>, <<1, "prod", FloatV(2)>>,
            <<0, "sum-twice", TupV(<<IntV(3), IntV(0)>>)>>, <<1, "sum-twice", TupV(<<FloatV(0), FloatV(0)>>)>>,
            <<2, "sum-twice", TupV(<<StrV(<<>>), StrV(<<>>)>>)>>,
            <<0, "consumed-map", TupV(<<FloatV(0), FloatV(2)>>)>> >>
UEOut(i) == Outcome(Run(UEProg(UESeq[i][1], UESeq[i][2]), Fuel))
UELaw == \A i \in 1..Len(UESeq) :
  \/ (UEOut(i).status = "value" /\ UEOut(i).v = UESeq[i][3])
  \/ (PrintT(<<"UELAW", UESeq[i], UEOut(i)>>) /\ FALSE)

\* ---------------------------------------------------------------- sequences that contain () and arrays
\* () is an element like any other: a fold does not end at it, a callback without a result yields it; a type filter for an
\* array type keeps exactly the arrays whose run-time element type fits ([] - the empty-array type - only empty arrays)
IU == WMulti(<<WInt, WVoid>>)
VoidSrc == Hide(WArr(IU), ArrE(<<I(1), Unit, I(2), Unit, I(3)>>))
\* (the checker wants the reducer to take init | element at both positions: the parameters are `any' and narrowed inside)
FoldIU == FnE(<<P("a", WAny), P("x", WAny)>>, WInt,
              <<Mark(7), IfSet("ya", WInt, V("a"), Block(<<Ret(IfSet("y", WInt, V("x"), Bin("+", V("ya"), V("y")), Bin("+", V("ya"), I(100))))>>), NoneV), Ret(I(-1))>>)
AnyArr == Hide(WArr(WAny), ArrE(<<I(1), ArrE(<<>>), S(<<115>>), ArrE(<<I(2)>>), F(5), ArrE(<<ArrE(<<>>)>>), ArrE(<<>>)>>))
SpecialProg(k) ==
  CASE k = "fold-over-void" -> <<ReduceE(IterE(VoidSrc), I(0), FoldIU)>>
    [] k = "fold-over-void-results" ->
         <<FnDecl("note", <<P("x", WInt)>>, WVoid, <<Mark(8)>>),
           ReduceE(MapE(IterE(Hide(WArr(WInt), ArrE(<<I(1), I(2), I(3)>>))), V("note")), I(0),
                   FnE(<<P("a", WAny), P("x", WAny)>>, WInt, <<Mark(7), IfSet("ya", WInt, V("a"), Block(<<Ret(Bin("+", V("ya"), I(1)))>>), NoneV), Ret(I(-1))>>))>>
    [] k = "collect-void" -> <<Set("r", CollectE(IterE(VoidSrc))), IfSet("q", WArr(IU), V("r"), RedE("$+", "int", TFilterE(IterE(V("q")), WInt)), I(-1))>>
    [] k = "for-over-void" -> <<Set("n", MutE(WInt, I(0))), For("e", IterE(VoidSrc), Block(<<Asg("+=", V("n"), I(1))>>)), Deref(V("n"))>>
    [] k = "filter-void" -> <<Set("r", CollectE(TFilterE(IterE(VoidSrc), WVoid))), IfSet("q", WArr(WVoid), V("r"), I(1), I(0))>>
    [] k = "tfilter-empty-array-type" -> <<Set("r", CollectE(TFilterE(IterE(AnyArr), WArr(WNever)))), Set("m", MutE(WInt, I(0))), For("e", IterE(V("r")), Block(<<Asg("+=", V("m"), I(1))>>)), Deref(V("m"))>>
    [] k = "tfilter-int-array-type" -> <<Set("r", CollectE(TFilterE(IterE(AnyArr), WArr(WInt)))), Set("m", MutE(WInt, I(0))), For("e", IterE(V("r")), Block(<<Asg("+=", V("m"), I(1))>>)), Deref(V("m"))>>
    [] k = "tfilter-any-array-type" -> <<Set("r", CollectE(TFilterE(IterE(AnyArr), WArr(WAny)))), Set("m", MutE(WInt, I(0))), For("e", IterE(V("r")), Block(<<Asg("+=", V("m"), I(1))>>)), Deref(V("m"))>>
    [] k = "tfilter-nested-empty-array-type" -> <<Set("r", CollectE(TFilterE(IterE(AnyArr), WArr(WArr(WNever))))), Set("m", MutE(WInt, I(0))), For("e", IterE(V("r")), Block(<<Asg("+=", V("m"), I(1))>>)), Deref(V("m"))>>
TupSrc == Hide(WArr(WTup(<<WInt, WStr>>)), ArrE(<<TupE(<<I(1), S(<<97>>)>>), TupE(<<I(2), S(<<98>>)>>), TupE(<<I(4), S(<<97>>)>>)>>))
PairTy == WTup(<<WInt, WStr>>)
\* elements that are TUPLES reach the callbacks whole (a callback of one parameter receives the pair, not its first component)
TupleProg(k) ==
  CASE k = "map-over-tuples" -> <<RedE("$+", "int", MapE(IterE(TupSrc), FnE(<<P("p", PairTy)>>, WInt, <<Ret(Bin("*", TupAt(V("p"), 0), I(2)))>>)))>>
    [] k = "filter-tuples" -> <<RedE("$+", "int", MapE(FilterE(IterE(TupSrc), FnE(<<P("p", PairTy)>>, WBool, <<Ret(Bin("==", TupAt(V("p"), 1), S(<<97>>)))>>)),
                                                       FnE(<<P("p", PairTy)>>, WInt, <<Ret(TupAt(V("p"), 0))>>)))>>
    [] k = "partition-tuples" -> <<Set("h", PartE(IterE(TupSrc), FnE(<<P("p", PairTy)>>, WBool, <<Ret(Bin(">", TupAt(V("p"), 0), I(1)))>>))),
                                   Set("n", MutE(WInt, I(0))), For("e", IterE(TupAt(V("h"), 0)), Block(<<Asg("+=", V("n"), TupAt(V("e"), 0))>>)), Deref(V("n"))>>
    [] k = "map-identity-tuples" -> <<Set("r", CollectE(MapE(IterE(TupSrc), FnE(<<P("p", PairTy)>>, PairTy, <<Ret(V("p"))>>)))),
                                      Set("w", IfSet("q", WArr(PairTy), V("r"), I(100), I(0))), Bin("+", TupAt(At(V("r"), I(2)), 0), V("w"))>>
    [] k = "reduce-tuples" -> <<ReduceE(IterE(TupSrc), I(0), FnE(<<P("a", WAny), P("p", WAny)>>, WInt,
                                   <<IfSet("ya", WInt, V("a"), Block(<<IfSet("yp", PairTy, V("p"), Block(<<Ret(Bin("+", V("ya"), TupAt(V("yp"), 0)))>>), NoneV)>>), NoneV), Ret(I(-1))>>))>>
    [] k = "call-with-one-tuple" -> <<FnDecl("fst", <<P("p", PairTy)>>, WInt, <<Ret(TupAt(V("p"), 0))>>), Set("t", Hide(PairTy, TupE(<<I(8), S(<<97>>)>>))),
                                      Bin("+", CallE(V("fst"), <<V("t")>>), CallE(V("fst"), <<TupE(<<I(1), S(<<98>>)>>)>>))>>
\* a type filter whose type holds a cell of a UNION: cells are invariant, exactly the cells declared with that union pass
CellProg(k) ==
  CASE k = "tfilter-mut-union" ->
         <<Set("cs", ArrE(<<MutE(WMulti(<<WInt, WFloat>>), I(1)), MutE(WInt, I(2)), MutE(WMulti(<<WInt, WFloat>>), F(5))>>)),
           Set("n", MutE(WInt, I(0))), For("e", TFilterE(IterE(V("cs")), WMut(WMulti(<<WInt, WFloat>>))), Block(<<Asg("+=", V("n"), I(1))>>)), Deref(V("n"))>>
    [] k = "tfilter-array-of-mut-union" ->
         <<Set("cs", Hide(WArr(WAny), ArrE(<<ArrE(<<MutE(WMulti(<<WInt, WStr>>), I(1))>>), ArrE(<<MutE(WInt, I(2))>>), I(3)>>))),
           Set("n", MutE(WInt, I(0))), For("e", TFilterE(IterE(V("cs")), WArr(WMut(WMulti(<<WInt, WStr>>)))), Block(<<Asg("+=", V("n"), I(1))>>)), Deref(V("n"))>>
FnII == WFn(<<WInt>>, WInt)
FnCellProg ==
  <<Set("inc1", FnE(<<P("x", WInt)>>, WInt, <<Ret(Bin("+", V("x"), I(1)))>>)),
    Set("cs", Hide(WArr(WAny), ArrE(<<MutE(FnII, V("inc1")), MutE(WInt, I(2)), I(3), V("inc1")>>))),
    Set("n", MutE(WInt, I(0))),
    For("e", TFilterE(IterE(V("cs")), WMut(FnII)), Block(<<Asg("+=", V("n"), CallE(Deref(V("e")), <<I(10)>>))>>)),
    For("e", TFilterE(IterE(V("cs")), FnII), Block(<<Asg("+=", V("n"), CallE(V("e"), <<I(100)>>))>>)),
    Deref(V("n"))>>
\* `it $] ~' collects FIRST (the source is drained, every callback in front of the $] has run) and then enumerates the array;
\* a user-written iterator whose result type is a union of pairs is collected into an array of the union
IntSrc3 == Hide(WArr(WInt), ArrE(<<I(1), I(2), I(3)>>))
LogF(base) == FnE(<<P("x", WInt)>>, WInt, <<LogPlus(base, V("x")), Ret(V("x"))>>)
PairU == WMulti(<<WTup(<<WBool, WInt>>), WTup(<<WBool, WStr>>)>>)
OrderProg(k) ==
  CASE k = "collect-then-iterate" -> <<RedE("$+", "int", MapE(IterE(CollectE(MapE(IterE(IntSrc3), LogF(100)))), LogF(200)))>>
    [] k = "collect-then-iterate-unused" -> <<Set("it2", MapE(IterE(CollectE(MapE(IterE(IntSrc3), LogF(100)))), LogF(200))), I(5)>>
    [] k = "collect-then-iterate-source-drained" ->
         <<Set("src", MapE(IterE(IntSrc3), LogF(100))), Set("it2", IterE(CollectE(V("src")))), Set("left", CollectE(V("src"))),
           Set("n", MutE(WInt, I(0))), For("e", IterE(V("left")), Block(<<Asg("+=", V("n"), I(1))>>)),
           Bin("+", Bin("*", Deref(V("n")), I(100)), RedE("$+", "int", V("it2")))>>
    [] k = "iter-union-of-pairs-collect" ->
         <<Set("k", MutE(WInt, I(0))),
           FnDecl("src", <<>>, PairU, <<Asg("+=", V("k"), I(1)),
                                        If1(Bin("==", Deref(V("k")), I(1)), Block(<<Ret(TupE(<<B(TRUE), I(7)>>))>>)),
                                        If1(Bin("==", Deref(V("k")), I(2)), Block(<<Ret(TupE(<<B(TRUE), S(<<97>>)>>))>>)),
                                        Ret(TupE(<<B(FALSE), I(0)>>))>>),
           Set("r", CollectE(V("src"))), Set("w", IfSet("q", WArr(WMulti(<<WInt, WStr>>)), V("r"), I(100), I(0))),
           Set("m", MutE(WInt, I(0))), For("e", IterE(V("r")), Block(<<IfSet("y", WInt, V("e"), Block(<<Asg("+=", V("m"), V("y"))>>), Block(<<Asg("+=", V("m"), I(20))>>))>>)),
           Bin("+", Deref(V("m")), V("w"))>>
SpecialSeq == << <<"fold-over-void", 206>>, <<"fold-over-void-results", 3>>, <<"collect-void", 6>>, <<"for-over-void", 5>>, <<"filter-void", 1>>,
                 <<"tfilter-empty-array-type", 2>>, <<"tfilter-int-array-type", 3>>, <<"tfilter-any-array-type", 4>>,
                 <<"tfilter-nested-empty-array-type", 3>>,
                 <<"map-over-tuples", 14>>, <<"filter-tuples", 5>>, <<"partition-tuples", 6>>, <<"map-identity-tuples", 104>>,
                 <<"reduce-tuples", 7>>, <<"call-with-one-tuple", 9>>, <<"tfilter-mut-union", 2>>, <<"tfilter-array-of-mut-union", 1>>, <<"tfilter-mut-function", 112>>, <<"collect-then-iterate", 6>>, <<"collect-then-iterate-unused", 5>>,
                 <<"collect-then-iterate-source-drained", 6>>, <<"iter-union-of-pairs-collect", 127>> >>
TupleKinds == {"map-over-tuples", "filter-tuples", "partition-tuples", "map-identity-tuples", "reduce-tuples", "call-with-one-tuple"}
SpecialProgOf(k) == IF k \in TupleKinds THEN TupleProg(k) ELSE IF k \in {"tfilter-mut-union", "tfilter-array-of-mut-union"} THEN CellProg(k) ELSE IF k = "tfilter-mut-function" THEN FnCellProg
                    ELSE IF k \in {"collect-then-iterate", "collect-then-iterate-unused", "collect-then-iterate-source-drained", "iter-union-of-pairs-collect"} THEN OrderProg(k)
                    ELSE SpecialProg(k)
SpecialOut(i) == Outcome(Run(SpecialProgOf(SpecialSeq[i][1]), Fuel))
SpecialLaw == \A i \in 1..Len(SpecialSeq) :
  \/ (SpecialOut(i).status = "value" /\ SpecialOut(i).v = IntV(SpecialSeq[i][2]))
  \/ (PrintT(<<"SPECIALLAW", SpecialSeq[i], SpecialOut(i)>>) /\ FALSE)

\* ---------------------------------------------------------------- callbacks that FAIL on one element
\* pz(x) = 8 / x > 2 (fails on 0), fz(x) = 8 / x, gz(a, x) = a + 8 / x; log 600 + x before the division.  The error of a
\* callback is the error of the whole operator: nothing after the failing element is pulled or applied.
FnPZ == FnDecl("pz", <<P("x", WInt)>>, WBool, <<LogPlus(600, V("x")), Ret(Bin(">", Bin("/", I(8), V("x")), I(2)))>>)
FnFZ == FnDecl("fz", <<P("x", WInt)>>, WInt, <<LogPlus(600, V("x")), Ret(Bin("/", I(8), V("x")))>>)
FnGZ == FnDecl("gz", <<P("a", WInt), P("x", WInt)>>, WInt, <<LogPlus(600, V("x")), Ret(Bin("+", V("a"), Bin("/", I(8), V("x"))))>>)
ErrCons == {"part", "filter", "map", "reduce", "for-map", "map-sum"}
ErrProg(xs, c) ==
  <<FnPZ, FnFZ, FnGZ, Set("it", IterE(Hide(WArr(WInt), ArrE([i \in 1..Len(xs) |-> I(xs[i])]))))>> \o
  (CASE c = "part" -> <<PartE(V("it"), V("pz"))>>
     [] c = "filter" -> <<CollectE(FilterE(V("it"), V("pz")))>>
     [] c = "map" -> <<CollectE(MapE(V("it"), V("fz")))>>
     [] c = "reduce" -> <<ReduceE(V("it"), I(0), V("gz"))>>
     [] c = "for-map" -> <<For("e", MapE(V("it"), V("fz")), Block(<<Mark(300)>>)), I(0)>>
     [] c = "map-sum" -> <<RedE("$+", "int", MapE(V("it"), V("fz")))>>)
ErrSeq == SetToSeq({<<xs, c>> : xs \in {<<4, 2, 0, 5>>, <<0, 1>>, <<1, 2, 4>>, <<2, 0>>}, c \in ErrCons})
ErrOut(i) == Outcome(Run(ErrProg(ErrSeq[i][1], ErrSeq[i][2]), Fuel))
FirstZero(xs) == IF \E j \in 1..Len(xs) : xs[j] = 0 THEN CHOOSE j \in 1..Len(xs) : xs[j] = 0 /\ \A q \in 1..(j - 1) : xs[q] # 0 ELSE 0
ErrLaw == \A i \in 1..Len(ErrSeq) :
  LET xs == ErrSeq[i][1]  z == FirstZero(xs)  o == ErrOut(i) IN
  \/ (z = 0 /\ o.status = "value")
  \/ (z > 0 /\ o.status = "error" /\ o.v = "ZeroDivision"
       /\ SelectSeq(o.log, LAMBDA m : m >= 600) = [j \in 1..z |-> 600 + xs[j]])
  \/ (PrintT(<<"ERRLAW", ErrSeq[i], o>>) /\ FALSE)

Emit ==
  /\ TLCGet("stats").distinct > 0
  /\ UniLaw /\ ErrLaw /\ UELaw /\ SpecialLaw
  /\ ndJsonSerialize(IOEnv.VERIF_OUT \o "/c11_cases.ndjson",
        [i \in 1..N |-> [id |-> "c11-" \o ToString(i), suite |-> "c11", prog |-> Prog(CaseSeq[i]), exp |-> Out(i)]]
        \o [i \in 1..Len(UniSeq) |-> [id |-> "c11-union-iter-" \o ToString(i), suite |-> "c11",
                                      prog |-> UniProg(UniSeq[i][1], UniSeq[i][2], UniSeq[i][3]), exp |-> UniOut(i)]]
        \o [i \in 1..Len(ErrSeq) |-> [id |-> "c11-failing-callback-" \o ToString(i), suite |-> "c11",
                                      prog |-> ErrProg(ErrSeq[i][1], ErrSeq[i][2]), exp |-> ErrOut(i)]]
        \o [i \in 1..Len(UESeq) |-> [id |-> "c11-union-iter-empty-" \o ToString(i), suite |-> "c11",
                                     prog |-> UEProg(UESeq[i][1], UESeq[i][2]), exp |-> UEOut(i)]]
        \o [i \in 1..Len(SpecialSeq) |-> [id |-> "c11-special-" \o SpecialSeq[i][1], suite |-> "c11",
                                     prog |-> SpecialProgOf(SpecialSeq[i][1]), exp |-> SpecialOut(i)]])
  /\ PrintT(<<"CASES", N, Len(CaseSeq0)>>)
=============================================================================
