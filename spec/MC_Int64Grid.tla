---------------------------- MODULE MC_Int64Grid ----------------------------
(***************************************************************************)
(* Int64 at N=8, B=8 (64 bits): the boundary grid G x G of DESIGN §6 C08.   *)
(* TLC (a) checks laws that relate the limb operators to each other on the   *)
(* grid (the operators themselves are validated against their mathematical   *)
(* definitions at small widths by MC_Int64Small) and (b) writes every case   *)
(* (operator, operands) together with the specification's prediction, for    *)
(* replay against the implementation in literal, run-time and compound-      *)
(* assignment form:  VERIF_OUT/arith_int_<row>.ndjson, arith_tables.ndjson.  *)
(*                                                                           *)
(* row = 0 start, row = -c chunk c, row = i > 0: G[i] combined with all of G *)
(***************************************************************************)
EXTENDS Int64, Json, IOUtils

CONSTANTS Chunks, Thorough

VARIABLE row

ASSUME NB = 64 /\ B = 8

\* a 64-bit pattern from four 16-bit words, most significant first
W4(w3, w2, w1, w0) == <<w0 % 256, w0 \div 256, w1 % 256, w1 \div 256,
                        w2 % 256, w2 \div 256, w3 % 256, w3 \div 256>>
Pos(n) == W4(0, 0, 0, n)                    \* 0 <= n < 65536
NegS(n) == W4(65535, 65535, 65535, 65536 - n)   \* -n for 1 <= n <= 65536

GQuick == <<
  W4(32768, 0, 0, 0),                 \* MIN
  W4(32768, 0, 0, 1),                 \* MIN+1
  W4(65535, 65534, 65535, 65535),     \* -2^32-1
  W4(65535, 65535, 0, 0),             \* -2^32
  NegS(65), NegS(64), NegS(63), NegS(2), NegS(1),
  Pos(0), Pos(1), Pos(2), Pos(3), Pos(62), Pos(63), Pos(64), Pos(65),
  W4(0, 0, 32768, 0),                 \* 2^31
  W4(0, 0, 65535, 65535),             \* 2^32-1
  W4(0, 1, 0, 0),                     \* 2^32
  W4(0, 1, 0, 1),                     \* 2^32+1
  W4(16384, 0, 0, 0),                 \* 2^62
  W4(32767, 65535, 65535, 65534),     \* MAX-1
  W4(32767, 65535, 65535, 65535)      \* MAX
>>

GExtra == <<
  W4(32768, 0, 0, 2),                 \* MIN+2
  W4(43690, 43690, 43690, 43690),     \* 0xAAAAAAAAAAAAAAAA
  W4(49152, 0, 0, 0),                 \* -2^62
  W4(61983, 18764, 22684, 0),         \* -10^18
  W4(65535, 0, 0, 0),                 \* -2^48
  W4(65535, 65535, 32767, 65535),     \* -2^31-1
  W4(65535, 65535, 32768, 0),         \* -2^31
  NegS(65536), NegS(256), NegS(10), NegS(7), NegS(3),
  Pos(4), Pos(5), Pos(7), Pos(10), Pos(31), Pos(32), Pos(33), Pos(127), Pos(255), Pos(256),
  W4(0, 0, 1, 0),                     \* 2^16
  W4(0, 0, 32767, 65535),             \* 2^31-1
  W4(0, 0, 46340, 62259),             \* 3037000499 = floor(sqrt(MAX))
  W4(0, 0, 46340, 62260),             \* 3037000500
  W4(0, 2, 0, 0),                     \* 2^33
  W4(1, 0, 0, 0),                     \* 2^48
  W4(3552, 46771, 42852, 0),          \* 10^18
  W4(16384, 0, 0, 1),                 \* 2^62+1
  W4(21845, 21845, 21845, 21845),     \* 0x5555555555555555
  W4(32767, 65535, 0, 0)              \* 2^63-2^32
>>

G == IF Thorough THEN GQuick \o GExtra ELSE GQuick
GSet == {G[i] : i \in 1..Len(G)}
NG == Len(G)

\* IEEE-754 bit patterns
FG == <<
  W4(0, 0, 0, 0),                     \* 0.0
  W4(32768, 0, 0, 0),                 \* -0.0
  W4(16368, 0, 0, 0),                 \* 1.0
  W4(49136, 0, 0, 0),                 \* -1.0
  W4(16352, 0, 0, 0),                 \* 0.5
  W4(49120, 0, 0, 0),                 \* -0.5
  W4(16384, 0, 0, 0),                 \* 2.0
  W4(49152, 0, 0, 0),                 \* -2.0
  W4(16376, 0, 0, 0),                 \* 1.5
  W4(16392, 0, 0, 0),                 \* 3.0
  W4(49160, 0, 0, 0),                 \* -3.0
  W4(16464, 0, 0, 0),                 \* 64.0
  W4(16313, 39321, 39321, 39322),     \* 0.1
  W4(16339, 13107, 13107, 13107),     \* 0.3
  W4(16341, 21845, 21845, 21845),     \* 1/3
  W4(16393, 8699, 21572, 11544),      \* pi
  W4(0, 0, 0, 1),                     \* least subnormal 5e-324
  W4(32768, 0, 0, 1),                 \* -5e-324
  W4(15, 65535, 65535, 65535),        \* greatest subnormal
  W4(16, 0, 0, 0),                    \* least normal 2.2250738585072014e-308
  W4(32751, 65535, 65535, 65535),     \* MAX 1.7976931348623157e308
  W4(65519, 65535, 65535, 65535),     \* -MAX
  W4(32737, 52467, 34283, 51360),     \* 1e308
  W4(17216, 0, 0, 0),                 \* 2^53
  W4(17216, 0, 0, 1),                 \* 2^53 + 2
  W4(17217, 50041, 14304, 32768),     \* 1e16
  W4(32752, 0, 0, 0),                 \* +inf
  W4(65520, 0, 0, 0),                 \* -inf
  W4(32760, 0, 0, 0),                 \* NaN (quiet, positive)
  W4(65528, 0, 0, 0),                 \* NaN (quiet, negative: what 0.0/0.0 gives on x86-64)
  W4(32752, 0, 0, 1)                  \* NaN (signalling, payload 1)
>>
NF == Len(FG)
FSet == {FG[i] : i \in 1..NF}
FNum == {x \in FSet : ~FIsNaN(x)}

(***************************************************************************)
(* Laws on the grid                                                          *)
(***************************************************************************)
Pow2W(s) == ShlBy(One, s)

Algebra(a) == \A b \in GSet :
  /\ IsWord(Add(a, b)) /\ IsWord(Mul(a, b)) /\ IsWord(Sub(a, b))
  /\ Add(a, b) = Add(b, a)
  /\ Mul(a, b) = Mul(b, a)
  /\ Sub(a, b) = Add(a, Neg(b))
  /\ Sub(Add(a, b), b) = a
  /\ Neg(Neg(a)) = a /\ Not(Not(a)) = a /\ Neg(a) = Add(Not(a), One)
  /\ Mul(a, MinusOne) = Neg(a) /\ Mul(a, One) = a /\ Mul(a, Zero) = Zero
  /\ And(a, b) = And(b, a) /\ Or(a, b) = Or(b, a) /\ Xor(a, b) = Xor(b, a)
  /\ Not(And(a, b)) = Or(Not(a), Not(b))                         \* De Morgan
  /\ Xor(a, b) = Sub(Or(a, b), And(a, b))
  /\ Add(a, b) = Add(Xor(a, b), ShlBy(And(a, b), 1))             \* sum = carry-less sum + carries
  /\ Xor(a, a) = Zero /\ And(a, a) = a /\ Or(a, Not(a)) = MinusOne

Distributive(a) == \A b \in GSet : \A c \in GSet :
  /\ Mul(a, Add(b, c)) = Add(Mul(a, b), Mul(a, c))
  /\ Add(a, Add(b, c)) = Add(Add(a, b), c)

Order(a) == \A b \in GSet :
  /\ (IF Lt(a, b) THEN 1 ELSE 0) + (IF a = b THEN 1 ELSE 0) + (IF Gt(a, b) THEN 1 ELSE 0) = 1
  /\ Le(a, b) = ~Gt(a, b) /\ Ge(a, b) = ~Lt(a, b)
  /\ Le(MinV, a) /\ Le(a, MaxV)
  /\ \A c \in GSet : (Lt(a, b) /\ Lt(b, c)) => Lt(a, c)
  \* the order agrees with subtraction wherever the difference does not overflow
  /\ (IsNeg(a) = IsNeg(b)) => (Lt(a, b) = IsNeg(Sub(a, b)))

Division(a) == \A b \in GSet :
  IF b = Zero THEN ApplyInt("/", a, b) = ErrV("ZeroDivision") /\ ApplyInt("%", a, b) = ErrV("ZeroModulo")
  ELSE /\ DivModOk(a, b, Div(a, b), Mod(a, b))
       /\ (a = MinV /\ b = MinusOne) => (Div(a, b) = MinV /\ Mod(a, b) = Zero)

Shifts(a) ==
  /\ \A s \in 0..(NB - 1) :
       /\ ShiftOk(FromNat(s)) /\ SmallVal(FromNat(s)) = s
       /\ ShlBy(a, s) = Mul(a, Pow2W(s))
       /\ Add(ShlBy(ShrBy(a, s), s), And(a, Sub(Pow2W(s), One))) = a   \* floor division by 2^s
       /\ IsNeg(ShrBy(a, s)) = IsNeg(a)                               \* arithmetic
  /\ ShiftOk(a) = (\E s \in 0..(NB - 1) : a = FromNat(s))
  /\ ~ShiftOk(FromNat(NB)) /\ ~ShiftOk(MinusOne)

Powers(a) ==
  /\ Pow(a, Zero) = One /\ Pow(a, One) = a /\ Pow(a, FromNat(2)) = Mul(a, a)
  /\ \A b \in GSet : (~IsNeg(b) /\ b # MaxV) => Pow(a, Add(b, One)) = Mul(Pow(a, b), a)
  \* (a^x)^y = a^(x*y): an exponent above 2^32 through two small ones
  /\ Pow(a, Pow2W(32)) = Pow(Pow(a, Pow2W(16)), Pow2W(16))
  /\ Pow(a, Add(Pow2W(32), One)) = Mul(Pow(Pow(a, Pow2W(16)), Pow2W(16)), a)
  /\ (~IsNeg(a)) => Pow(FromNat(2), a) = (IF ShiftOk(a) THEN Pow2W(SmallVal(a)) ELSE Zero)

Table(a) == \A b \in GSet : \A op \in IntBinOps :
  LET e == ErrorOf(op, a, b) IN
  \* (the full result is computed in the emission; here: the error arms only, which are cheap)
  (e # "none") => ApplyInt(op, a, b) = ErrV(e)

FloatLaws ==
  /\ \A x \in FNum : ~FLt(x, x) /\ FEq(x, x)
  /\ \A x \in FNum : \A y \in FNum :
       /\ (IF FLt(x, y) THEN 1 ELSE 0) + (IF FEq(x, y) THEN 1 ELSE 0) + (IF FLt(y, x) THEN 1 ELSE 0) = 1
       /\ FEq(x, y) = FEq(y, x)
       /\ FLt(x, y) = FLt(FNeg(y), FNeg(x))
       /\ \A z \in FNum : /\ (FLt(x, y) /\ FLt(y, z)) => FLt(x, z)
                          /\ (FEq(x, y) /\ FEq(y, z)) => FEq(x, z)
                          /\ (FEq(x, y) /\ FLt(y, z)) => FLt(x, z)      \* strict weak order
                          /\ (FLt(x, y) /\ FEq(y, z)) => FLt(x, z)
  /\ FEq(FG[1], FG[2]) /\ FG[1] # FG[2]                                   \* -0.0 = 0.0
  /\ \A x \in FSet \ FNum : \A y \in FSet : \A op \in CmpOps :
       /\ ApplyFloatCmp(op, x, y).v = (op = "!=")                          \* NaN: all false but !=
       /\ ApplyFloatCmp(op, y, x).v = (op = "!=")
  /\ \A x \in FSet : FNeg(FNeg(x)) = x /\ FIsNaN(FNeg(x)) = FIsNaN(x)
  /\ \A x \in FNum : \A y \in FNum : FIsInf(y) /\ ~IsNeg(y) => (FLt(x, y) \/ x = y)  \* +inf greatest
  /\ {x \in FSet : FIsNaN(x)} = {FG[NF - 2], FG[NF - 1], FG[NF]}
  /\ {x \in FSet : FIsInf(x)} = {FG[NF - 4], FG[NF - 3]}

Cur == G[row]
InvAlgebra  == row > 0 => Algebra(Cur)
InvDistrib  == (row > 0 /\ Thorough) => Distributive(Cur)
InvOrder    == row > 0 => Order(Cur)
InvDivision == row > 0 => Division(Cur)
InvShifts   == row > 0 => Shifts(Cur)
InvPowers   == row > 0 => Powers(Cur)
InvTable    == row > 0 => Table(Cur)
InvFloat    == row = 0 => FloatLaws
InvGrid     == row = 0 => /\ \A i \in 1..NG : IsWord(G[i])
                          /\ \A i \in 1..(NG - 1) : IF Thorough /\ i = Len(GQuick) THEN TRUE
                                                    ELSE Lt(G[i], G[i + 1])      \* listed in order
                          /\ G[1] = MinV /\ G[Len(GQuick)] = MaxV /\ G[10] = Zero /\ G[9] = MinusOne
                          /\ \A i \in 1..NF : IsWord(FG[i])

Init == row = 0
Next == \/ row = 0 /\ row' \in {0 - c : c \in 1..Chunks}
        \/ row < 0 /\ row' \in {i \in 1..NG : i % Chunks = (0 - row) % Chunks}
Spec == Init /\ [][Next]_row

(***************************************************************************)
(* Emission                                                                  *)
(***************************************************************************)
BinSeq == <<"+", "-", "*", "/", "%", "**", "<<", ">>", "&", "|", "^", "==", "!=", "<", "<=", ">", ">=">>
UnSeq  == <<"neg", "not">>
CmpSeq == <<"==", "!=", "<", "<=", ">", ">=">>
BoolSeq == <<"&", "|", "^", "==", "!=">>
BV == <<FALSE, TRUE>>

\* the cases of row i (a = G[i]): all binary operators with every b of the grid, the unary ones
RowCases(i) ==
  [p \in 1..(Len(BinSeq) * NG) |->
     LET o == ((p - 1) \div NG) + 1
         j == ((p - 1) % NG) + 1
         op == BinSeq[o]
         r == ApplyInt(op, G[i], G[j])
     IN IF op \in ArithOps
        THEN [t |-> "int2", op |-> op, a |-> G[i], b |-> G[j], r |-> r,
              cell |-> IF IsErr(r) THEN IntV(G[i]) ELSE r]            \* = AssignInt(op, a, b).cell
        ELSE [t |-> "int2", op |-> op, a |-> G[i], b |-> G[j], r |-> r]]
  \o [o \in 1..Len(UnSeq) |-> [t |-> "int1", op |-> UnSeq[o], a |-> G[i], r |-> ApplyIntUn(UnSeq[o], G[i])]]

FloatCases ==
  [p \in 1..(Len(CmpSeq) * NF * NF) |->
     LET o == ((p - 1) \div (NF * NF)) + 1
         i == (((p - 1) \div NF) % NF) + 1
         j == ((p - 1) % NF) + 1
     IN [t |-> "float2", op |-> CmpSeq[o], a |-> FG[i], b |-> FG[j], r |-> ApplyFloatCmp(CmpSeq[o], FG[i], FG[j])]]

FloatUnCases == [i \in 1..NF |-> [t |-> "float1", op |-> "neg", a |-> FG[i], r |-> ApplyFloatUn("neg", FG[i])]]

BoolCases ==
  [p \in 1..(Len(BoolSeq) * 4) |->
     LET o == ((p - 1) \div 4) + 1
         x == BV[(((p - 1) \div 2) % 2) + 1]
         y == BV[((p - 1) % 2) + 1]
     IN [t |-> "bool2", op |-> BoolSeq[o], a |-> x, b |-> y, r |-> ApplyBool(BoolSeq[o], x, y)]]
BoolUnCases == [i \in 1..2 |-> [t |-> "bool1", op |-> "not", a |-> BV[i], r |-> ApplyBoolUn("not", BV[i])]]

Out == IOEnv.VERIF_OUT

\* the integer cases are written row by row from the row states (so that TLC's workers share the
\* work), the small float / bool tables after the search
InvEmitRow == row > 0 => ndJsonSerialize(Out \o "/arith_int_" \o ToString(row) \o ".ndjson", RowCases(row))

Emit ==
  /\ TLCGet("stats").distinct > 0
  /\ ndJsonSerialize(Out \o "/arith_tables.ndjson",
        FloatCases \o FloatUnCases \o BoolCases \o BoolUnCases)
  /\ PrintT(<<"GRID", NG, NF, NG * (Len(BinSeq) * NG + Len(UnSeq)), Len(FloatCases), Len(FloatUnCases),
              Len(BoolCases), Len(BoolUnCases)>>)
=============================================================================
