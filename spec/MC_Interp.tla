------------------------------ MODULE MC_Interp ------------------------------
(***************************************************************************)
(* The host-facing scope API of simplesl::Interpreter as a state machine:   *)
(* a stack of layers, each a finite map name -> value.                      *)
(*   Insert(n, v)   binds n in the top layer (overwriting there only)        *)
(*   CreateLayer    pushes an empty layer that sees everything below         *)
(*   DropLayer      pops the top layer and hands back exactly its own map    *)
(*   Get(n)         the nearest binding of n, or none                        *)
(* Invariants: lookups resolve to the nearest layer that binds the name;    *)
(* dropping a layer restores every lookup to what it was before the layer    *)
(* was created (nothing a layer binds is visible after it, nothing below is  *)
(* changed by it).  `hist' records the calls with the specified answers;     *)
(* every behaviour of bounded length is replayed through the real API.       *)
(***************************************************************************)
EXTENDS Integers, Sequences, FiniteSets, SequencesExt, TLC, Json, IOUtils

CONSTANTS Names, Vals, MaxDepth, MaxSteps
VARIABLES layers, hist, saved
\* saved[d] = the lookup table as it was when layer d+1 was created

None == 0     \* Vals are positive integers
Top == layers[Len(layers)]
LookupIn(ls, n) ==
  LET ds == {d \in 1..Len(ls) : n \in DOMAIN ls[d]} IN
  IF ds = {} THEN None ELSE ls[CHOOSE d \in ds : \A e \in ds : e <= d][n]
Table(ls) == [n \in Names |-> LookupIn(ls, n)]

Init == layers = << <<>> >> /\ hist = <<>> /\ saved = <<>>

Insert(n, v) ==
  /\ layers' = [layers EXCEPT ![Len(layers)] = (n :> v) @@ @]
  /\ hist' = Append(hist, [op |-> "insert", n |-> n, v |-> v, tab |-> Table(layers')])
  /\ UNCHANGED saved
CreateLayer ==
  /\ Len(layers) < MaxDepth
  /\ layers' = Append(layers, <<>>)
  /\ saved' = Append(saved, Table(layers))
  /\ hist' = Append(hist, [op |-> "create", tab |-> Table(layers')])
DropLayer ==
  /\ Len(layers) > 1
  /\ layers' = SubSeq(layers, 1, Len(layers) - 1)
  /\ saved' = SubSeq(saved, 1, Len(saved) - 1)
  /\ hist' = Append(hist, [op |-> "drop", own |-> [n \in DOMAIN Top |-> Top[n]], names |-> SetToSeq(DOMAIN Top),
                           tab |-> Table(layers')])
Get(n) ==
  /\ hist' = Append(hist, [op |-> "get", n |-> n, v |-> LookupIn(layers, n), tab |-> Table(layers)])
  /\ UNCHANGED <<layers, saved>>

Next == /\ Len(hist) < MaxSteps
        /\ \/ \E n \in Names, v \in Vals : Insert(n, v)
           \/ CreateLayer \/ DropLayer
           \/ \E n \in Names : Get(n)
vars == <<layers, hist, saved>>
Spec == Init /\ [][Next]_vars

\* a lookup never sees a binding above a nearer one, and only bindings that exist
NearestWins == \A n \in Names :
  LET v == LookupIn(layers, n) IN
  IF v = None THEN \A d \in 1..Len(layers) : n \notin DOMAIN layers[d]
  ELSE \E d \in 1..Len(layers) : n \in DOMAIN layers[d] /\ layers[d][n] = v
                                 /\ \A e \in (d + 1)..Len(layers) : n \notin DOMAIN layers[e]
\* what a layer binds disappears with it; nothing below changes while it exists
DropRestores == \A d \in 1..Len(saved) : Table(SubSeq(layers, 1, d)) = saved[d]

\* behaviours for replay: the history at every state of maximal length (hist is hidden from the fingerprint
\* by VIEW, so distinct histories leading to one scope state are explored once: emit at maximal length)
Emit == (Len(hist) = MaxSteps) => PrintT(<<"HIST", ToJson(hist)>>)
View == <<layers, saved, Len(hist)>>
=============================================================================
